#!/usr/bin/env python3
"""Regenerates MANIFEST.json from the table below (kept in one place so it stays valid)."""
import json, os
ROOT = os.path.dirname(os.path.abspath(__file__))
CLAIMED = json.load(open(os.path.join(ROOT, "manifest_claims.json")))
props = [json.loads(l) for l in open(os.path.join(ROOT, "properties.jsonl"))]
checks, na = [], []
for p in props:
    c = CLAIMED.get(p["id"])
    if not c or c.get("not_applicable"):
        na.append({"property_id": p["id"], "reason": (c or {}).get("not_applicable", "check not built yet in this session (deductive contracts in progress); see DESIGN.md §2")})
        continue
    checks.append({
        "property_id": p["id"],
        "quick_cmd": "python3 checks/run.py %s --tier quick" % p["id"],
        "thorough_cmd": "python3 checks/run.py %s --tier thorough" % p["id"],
        "evidence_file": "evidence/%s.json" % p["id"],
        "replay_cmd_template": ".venv/bin/python replay/run.py {path}",
        "engine": "pyvc",
        "level_claimed": {"category": c["category"], "text": c["text"], "design_ref": c.get("design_ref", "DESIGN.md §2 " + p["id"])},
        "level_note": c["note"],
        "technique": c["technique"],
    })
m = {
    "version": 1,
    "setup_cmd": "sh setup.sh",
    "hooks": {"guard": "OSYRIS_VERIF", "enable": "none needed: contracts are sidecar files, the sources are read with ast on every run",
              "baseline_off_cmd": "cd /repo && /venv/bin/python -m pytest -ra -q -p no:cacheprovider --timeout=900 --continue-on-collection-errors",
              "source_commits": [], "add_only": True},
    "engines": [{"name": "pyvc", "path": "pyvc/", "serves_properties": [c["property_id"] for c in checks],
                 "kind_free_text": "contract-based deductive verification: the real osyris modules are loaded from the working tree and executed symbolically (per-path VC generation) against sidecar contracts; obligations discharged by z3 5.1 (cvc5 / z3 4.8 on unknown); callers checked against callee contracts; counter-models replayed on the real code"}],
    "checks": checks,
    "not_applicable": na,
    "notes": "exit 0 held / 1 violation (VIOLATION line, replay file) / 3 checker error; undecided obligations are printed as UNDECIDED and never reported as violations; known findings in known_findings.json",
}
json.dump(m, open(os.path.join(ROOT, "MANIFEST.json"), "w"), indent=1)
print("checks:", [c["property_id"] for c in checks], "n/a:", len(na))
