#!/usr/bin/env python
"""check driver:  run.py <Cxx> [--tier quick|thorough]

Exit 0 held on everything explored / 1 violation / 3 checker error.
Undecided obligations never become violations; they lower `discharged` in the evidence and
hand the decision to the property's bounded stand-in.
"""
import argparse
import importlib
import json
import multiprocessing as mp
import os
import subprocess
import sys
import time
import traceback

ROOT = os.path.dirname(os.path.dirname(os.path.abspath(__file__)))
sys.path.insert(0, ROOT)
os.chdir(ROOT)

PY = os.path.join(ROOT, ".venv", "bin", "python")


def _reexec_in_venv():
    if os.path.realpath(sys.executable) != os.path.realpath(PY) and os.path.exists(PY) \
            and os.environ.get("PYVC_NO_REEXEC") != "1":
        os.environ["PYVC_NO_REEXEC"] = "1"
        os.execv(PY, [PY] + sys.argv)


def _worker(i):
    from pyvc import api

    u = api.UNITS[_worker.index[i]]
    t0 = time.time()
    try:
        d = api.run_unit(u)
    except Exception as e:  # checker error, never a violation
        d = {"unit": u.full, "prop": u.prop, "obligations": [], "errors": ["crash: %r\n%s" % (e, traceback.format_exc(limit=8))],
             "paths": 0, "targets": [], "uses": list(u.uses), "case": u.label, "covers": {}, "time": 0, "solver_time": 0,
             "cut": 0, "infeasible": 0, "raised": {}, "notes": [], "name": u.full, "inline": []}
    d["wall"] = round(time.time() - t0, 3)
    d["index"] = _worker.index[i]
    return d


def _child(i, conn):
    try:
        d = _worker(i)
    except BaseException as e:  # pragma: no cover
        d = {"unit": "?", "prop": "", "obligations": [], "errors": ["crash: %r" % (e,)], "paths": 0, "targets": [], "uses": [], "case": "",
             "covers": {}, "time": 0, "solver_time": 0, "cut": 0, "infeasible": 0, "raised": {}, "notes": [], "name": "?", "inline": [],
             "index": _worker.index[i], "wall": 0}
    try:
        conn.send(d)
    finally:
        conn.close()


def _run_units(idx, jobs, verbose, unit_limit):
    """one forked process per unit, at most `jobs` at a time, each with a hard wall-clock limit: a solver call that does
    not come back (z3 is not interruptible everywhere) costs that unit its verdict (UNDECIDED), never the whole check"""
    from pyvc import api

    ctx = mp.get_context("fork")
    pending = list(range(len(idx)))
    running = {}
    results = []
    while pending or running:
        while pending and len(running) < jobs:
            i = pending.pop(0)
            rd, wr = ctx.Pipe(duplex=False)
            pr = ctx.Process(target=_child, args=(i, wr))
            pr.start()
            wr.close()
            running[i] = (pr, rd, time.time())
        done = []
        for i, (pr, rd, t0) in running.items():
            d = None
            if rd.poll(0.02):
                try:
                    d = rd.recv()
                except EOFError:
                    d = None
                pr.join(5)
                if d is None:
                    d = _lost(api, idx[i], "worker process ended without a result")
            elif not pr.is_alive():
                pr.join(1)
                d = _lost(api, idx[i], "worker process died (exit code %s)" % pr.exitcode)
            elif time.time() - t0 > unit_limit:
                pr.terminate()
                pr.join(5)
                if pr.is_alive():
                    pr.kill()
                d = _lost(api, idx[i], "unit exceeded its wall-clock limit of %ds (a solver call did not return)" % unit_limit)
            if d is not None:
                done.append(i)
                results.append(d)
                if verbose:
                    print("  unit %-70s paths=%-4d obl=%-3d %.1fs %s" % (
                        d["unit"], d["paths"], len(d["obligations"]), d["wall"], "ERR" if d["errors"] else ""))
        for i in done:
            running.pop(i)
        if not done:
            time.sleep(0.05)
    return results


def _lost(api, index, why):
    u = api.UNITS[index]
    return {"unit": u.full, "prop": u.prop, "obligations": [], "errors": ["undecided: " + why], "paths": 0, "targets": [], "uses": list(u.uses),
            "case": u.label, "covers": {}, "time": 0, "solver_time": 0, "cut": 0, "infeasible": 0, "raised": {}, "notes": [], "name": u.full,
            "inline": [], "index": index, "wall": 0}


def main():
    ap = argparse.ArgumentParser()
    ap.add_argument("prop")
    ap.add_argument("--tier", default=os.environ.get("VERIF_TIER", "quick"))
    ap.add_argument("--only", default=None, help="substring filter on unit names (debugging)")
    ap.add_argument("--jobs", type=int, default=int(os.environ.get("PYVC_JOBS", "16")))
    ap.add_argument("-v", action="store_true")
    args = ap.parse_args()
    prop = args.prop.upper()
    tier = "thorough" if args.tier == "thorough" else "quick"
    seed = int(os.environ.get("VERIF_SEED", "0") or 0)
    os.environ["PYVC_TIER"] = tier
    if tier == "thorough":
        os.environ.setdefault("PYVC_TIMEOUT_MS", "60000")
    t_start = time.time()

    from pyvc import api, loader, report

    load_error = None
    try:
        loader.install()
        # contracts first: loop contracts must be registered before the osyris modules are read
        mod = importlib.import_module("contracts.%s" % prop.lower())
    except Exception:
        traceback.print_exc()
        print("CHECKER-ERROR property=%s cannot load contracts" % prop)
        return 3
    try:
        loader.load("osyris")  # import once in the parent; workers are forked from it
    except Exception as e:
        # the working tree cannot be loaded under the stubs (e.g. it uses a library entry that has no
        # assumed contract): every deductive unit is undecided; the bounded stand-ins still decide
        load_error = "symbolic load of the working tree failed: %r" % (e,)
        print("UNDECIDED property=%s reason=%s" % (prop, load_error[:300]))

    idx = [i for i, u in enumerate(api.UNITS) if u.prop == prop and (not args.only or args.only in u.full)]
    if load_error:
        idx = []
    _worker.index = idx
    results = []
    if idx:
        results = _run_units(idx, args.jobs, args.v, unit_limit=float(os.environ.get("PYVC_UNIT_LIMIT_S", "900" if tier == "quick" else "5400")))
    results.sort(key=lambda d: d["index"])

    # bounded stand-ins and extra finite checks registered by the contract module
    extra = []
    for (p, name, bound, fn) in api.BOUNDED:
        if p != prop:
            continue
        if args.only and args.only not in name:
            continue
        t0 = time.time()
        try:
            r = fn(tier, seed)
        except Exception as e:
            r = {"status": "error", "detail": "%r\n%s" % (e, traceback.format_exc(limit=8))}
        r.setdefault("name", "%s.%s" % (prop, name))
        r["bound"] = bound
        r["wall"] = round(time.time() - t0, 2)
        extra.append(r)

    if load_error:
        results.append({"unit": "%s.symbolic_load" % prop, "prop": prop, "obligations": [], "errors": [load_error], "paths": 0,
                        "targets": [], "uses": [], "case": "", "covers": {}, "time": 0, "solver_time": 0, "cut": 0,
                        "infeasible": 0, "raised": {}, "notes": [], "name": "load", "inline": [], "index": -1})
    rc = report.finish(prop, tier, seed, mod, results, extra, t_start, verbose=args.v)
    return rc


if __name__ == "__main__":
    _reexec_in_venv()
    sys.exit(main())
