#!/usr/bin/env python
"""Cross-check of the assumed numpy contracts (pyvc/stubs/np.py) against the real numpy on concrete samples.

Every expression of the catalogue is evaluated twice: with the real numpy and, inside a pyvc path, with the stub
library on the same concrete inputs; shapes and element values must agree.  This does not prove the stubs (they stay the
trusted base) but it catches a stub that states something numpy does not do.
usage: checks/crosscheck.py   (exit 0 all agree / 1 disagreement / 3 error)"""
import math
import os
import sys

ROOT = os.path.dirname(os.path.dirname(os.path.abspath(__file__)))
sys.path.insert(0, ROOT)
PY = os.path.join(ROOT, ".venv", "bin", "python")
if os.path.realpath(sys.executable) != os.path.realpath(PY) and os.path.exists(PY) and os.environ.get("PYVC_NO_REEXEC") != "1":
    os.environ["PYVC_NO_REEXEC"] = "1"
    os.execv(PY, [PY] + sys.argv)

import numpy as rnp  # noqa: E402

from pyvc import core  # noqa: E402
from pyvc.stubs import np as snp  # noqa: E402

A = [[1.5, -2.0, 3.25, 0.0], [4.0, 0.5, -1.0, 2.0], [7.0, 8.5, -9.0, 1.0]]
B = [[2.0, 2.0, -1.0, 4.0], [1.0, 3.0, 5.0, -2.0], [0.5, 0.25, 2.0, 8.0]]
V = [3.0, -1.0, 2.0, 5.0, 0.0, 4.0]
I = [2, 0, 5, 1]
M = [True, False, True, True, False, True]

CATALOGUE = [
    ("add", lambda np: np.array(A) + np.array(B)),
    ("sub_bcast", lambda np: np.array(A) - np.array(V[:4])),
    ("mul_scalar", lambda np: 2.5 * np.array(A)),
    ("div", lambda np: np.array(A) / np.array(B)),
    ("neg_abs", lambda np: np.abs(-np.array(A))),
    ("sqrt_sq", lambda np: np.sqrt(np.array(B) * np.array(B))),
    ("less_equal", lambda np: np.array(A) <= np.array(B)),
    ("logical", lambda np: (np.array(A) > 0) & ~(np.array(B) > 1)),
    ("where", lambda np: np.where(np.array(A) > 0, np.array(A), np.array(B))),
    ("maximum", lambda np: np.maximum(np.array(A), np.array(B))),
    ("sum_all", lambda np: np.sum(np.array(A))),
    ("sum_axis0", lambda np: np.sum(np.array(A), axis=0)),
    ("sum_axis1", lambda np: np.array(A).sum(axis=1) if hasattr(np.array(A), "sum") else np.sum(np.array(A), axis=1)),
    ("min_max", lambda np: np.array([np.min(np.array(V)), np.max(np.array(V))])),
    ("mean_axis", lambda np: np.mean(np.array(A), axis=1)),
    ("bool_sum", lambda np: np.sum(np.array(M))),
    ("mask_index", lambda np: np.array(V)[np.array(M)]),
    ("mask_index_2d_rows", lambda np: np.array(A)[np.array([True, False, True])]),
    ("fancy_index", lambda np: np.array(V)[np.array(I)]),
    ("chain_select", lambda np: np.arange(6)[np.array(M)][np.array([True, False, True, True])]),
    ("slice", lambda np: np.array(A)[1:, ::2]),
    ("last_row", lambda np: np.array(A)[-1, ...]),
    ("transpose", lambda np: np.array(A).T),
    ("reshape_add_axis", lambda np: np.array(A).reshape(np.array(A).shape + (1,)) * np.array([1.0, 2.0])),
    ("reshape_generic", lambda np: np.array(A).reshape(2, 6)),
    ("meshgrid_ij", lambda np: np.meshgrid(np.array([1.0, 2.0]), np.array([3.0, 4.0, 5.0]), np.array([0.0]), indexing="ij")[1]),
    ("meshgrid_T", lambda np: np.meshgrid(np.array([1.0, 2.0]), np.array([3.0, 4.0, 5.0]), np.array([0.0]), indexing="ij")[0].T),
    ("linspace", lambda np: np.linspace(-1.0, 2.0, 7)),
    ("linspace_1", lambda np: np.linspace(0.5, 9.0, 1)),
    ("arange", lambda np: np.arange(2, 7)),
    ("zeros_like", lambda np: np.zeros_like(np.array(V))),
    ("ones_full", lambda np: np.ones((2, 3)) + np.full((2, 3), 2.0)),
    ("stack_array", lambda np: np.array([np.array(V[:3]), np.array(V[3:])])),
    ("stack_T", lambda np: np.array([np.array(A).T, np.array(B).T]).T),
    ("inplace_mul", lambda np: _inplace(np)),
    ("row_inplace", lambda np: _row_inplace(np)),
    ("isnan_full", lambda np: np.isnan(np.full((2, 2), np.nan))),
    ("nan_reduce_sum", lambda np: np.sum(_nancol(np), axis=0)),
    ("nan_reduce_nansum", lambda np: np.nansum(_nancol(np), axis=0)),
    ("nan_reduce_nanmax", lambda np: np.nanmax(_nancol(np), axis=0)),
    ("nan_reduce_nanmean", lambda np: np.nanmean(_nancol(np), axis=0)),
    ("nan_reduce_min", lambda np: np.min(_nancol(np), axis=0)),
    ("floor_int", lambda np: np.floor(np.array(A))),
    ("astype_bool_all", lambda np: np.all(np.array([np.array(M), np.array(M)]), axis=0)),
    ("broadcast_to", lambda np: np.broadcast_to(np.array(M[:3]).reshape(3, 1), (3, 2))),
    ("concatenate", lambda np: np.concatenate([np.array(V[:2]), np.array(V[2:])])),
    ("argsort", lambda np: np.array(V)[np.argsort(np.array(V))]),
    ("dtype_int_div", lambda np: np.array([1, 2, 3]) / 2),
    ("power", lambda np: np.array(V) ** 2),
    ("log10", lambda np: np.log10(np.array([1.0, 10.0, 1000.0]))),
]


def _inplace(np):
    a = np.array(A)
    a *= 2.0
    a += np.array(B)
    return a


def _row_inplace(np):
    a = np.array(A)
    a[1] *= 3.0
    a[:, 0] = np.array([9.0, 8.0, 7.0])
    return a


def _nancol(np):
    a = np.full((3, 2), np.nan)
    a[0, 0] = 1.0
    a[2, 0] = 4.0
    a[0, 1] = 2.0
    a[1, 1] = -3.0
    a[2, 1] = 0.5
    return a


def to_py(x):
    """nested lists of Python numbers / 'nan' from a real or stub result"""
    if isinstance(x, rnp.ndarray) or isinstance(x, rnp.generic):
        return _norm(rnp.asarray(x).tolist())
    if isinstance(x, snp.ndarray):
        shape = [core.concrete(d) for d in x.shape]

        def rec(prefix, dims):
            if not dims:
                return _scalar(x.elem(tuple(prefix)))
            return [rec(prefix + [k], dims[1:]) for k in range(dims[0])]

        return _norm(rec([], shape))
    return _norm(_scalar(x))


def _scalar(v):
    if v is snp.NAN:
        return float("nan")
    if isinstance(v, snp.MaybeNaN):
        return float("nan") if core.concrete(v.isnan) else _scalar(v.val)
    if isinstance(v, core.SV):
        c = core.concrete(v)
        if c is None:
            raise ValueError("stub result is not concrete: %s" % (v.t,))
        return float(c) if not isinstance(c, bool) else c
    s = getattr(v, "_pyvc_scalar", None)
    if s is not None:
        return _scalar(s())
    return v


def _norm(x):
    if isinstance(x, list):
        return [_norm(y) for y in x]
    if isinstance(x, bool) or isinstance(x, rnp.bool_):
        return bool(x)
    if isinstance(x, (int, float)) or hasattr(x, "__float__"):
        f = float(x)
        return "nan" if math.isnan(f) else round(f, 10)
    return x


def main():
    bad, errors, opaque = [], [], []

    def body():
        for name, fn in CATALOGUE:
            try:
                want = to_py(fn(rnp))
            except Exception as e:
                errors.append((name, "real numpy: %r" % (e,)))
                continue
            try:
                got = to_py(fn(snp))
            except (ValueError, core.Undecided) as e:
                # the stub deliberately leaves this result uninterpreted (a function of the contents) or does not
                # model the call: nothing to compare
                opaque.append((name, str(e).splitlines()[0][:80]))
                continue
            except Exception as e:
                errors.append((name, "stub: %r" % (e,)))
                continue
            if want != got:
                bad.append((name, want, got))

    import warnings

    with warnings.catch_warnings():
        warnings.simplefilter("ignore")
        res = core.explore("crosscheck", body, max_paths=4)
    for name, want, got in bad:
        print("DISAGREE %s: numpy %s / stub %s" % (name, want, got))
    for name, why in errors + [("explore", e) for e in res.errors]:
        print("ERROR %s: %s" % (name, str(why)[:300]))
    for name, why in opaque:
        print("OPAQUE %s: %s" % (name, why))
    print("crosscheck: %d expressions, %d agree, %d uninterpreted in the stub, %d disagree, %d errors"
          % (len(CATALOGUE), len(CATALOGUE) - len(bad) - len(opaque) - len(errors), len(opaque), len(bad), len(errors) + len(res.errors)))
    return 1 if bad else (3 if errors or res.errors else 0)


if __name__ == "__main__":
    sys.exit(main())
