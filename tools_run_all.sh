#!/bin/sh
# run every claimed check (quick tier) and regenerate evidence; prints one summary line each
cd "$(dirname "$0")"
for p in $(python3 -c "import json;print(' '.join(c['property_id'] for c in json.load(open('MANIFEST.json'))['checks']))"); do
  python3 checks/run.py $p --tier quick | grep -E "^(VIOLATION|UNDECIDED|CHECKER|$p tier)" | cut -c1-220
  echo "  exit=$?"
done
python3 checks/crosscheck.py | tail -1
python3-vt - <<'PY'
import json, jsonschema, glob
sch=json.load(open('/root/.vp/EVIDENCE.schema.json'))
m=json.load(open('MANIFEST.json'))
for c in m['checks']:
    e=json.load(open(c['evidence_file']))
    jsonschema.validate(e, sch)
    lvl=c['level_claimed']['category']
    flag = '' if e['level']==lvl else '  <-- level mismatch (claimed %s)'%lvl
    print(c['property_id'], e['level'], e['coverage']['obligations'], e['coverage']['discharged'], flag)
PY
