"""pyvc core: symbolic scalars, path conditions, path enumeration, obligations.

The real osyris source is executed by CPython itself (see loader.py) with symbolic proxy
values.  A symbolic boolean that reaches a branch calls `decide`, which forks the path:
paths are enumerated by re-execution with a prescribed decision prefix (no state copying).
Every `prove` call generates one verification condition  pc => cond  discharged by z3
(cvc5 on unknown).  Nothing in here knows about osyris.
"""
import fractions
import itertools
import os
import re
import subprocess
import tempfile
import time

import z3

TIMEOUT_MS = int(os.environ.get("PYVC_TIMEOUT_MS", "10000"))
# z3's wall-clock timeout is not honoured inside nlsat; the resource limit is, and it is
# deterministic (verdicts do not flip when the machine is busy).  ~1e6 units ~ 0.5 s.
RLIMIT_PROVE = int(os.environ.get("PYVC_RLIMIT", str(TIMEOUT_MS * 2000)))
RLIMIT_BRANCH = int(os.environ.get("PYVC_RLIMIT_BRANCH", "1500000"))
SEED = int(os.environ.get("VERIF_SEED", "0") or 0)


class CutPath(Exception):
    """Path ends here without reaching the function exit (loop cut point)."""


class Infeasible(Exception):
    """Path condition became unsatisfiable."""


class Undecided(Exception):
    """Construct outside the supported subset: the unit is undecided, never a violation."""


class PathLimit(Exception):
    pass


# --------------------------------------------------------------------------------------
# Path state
# --------------------------------------------------------------------------------------
class Path:
    def __init__(self, prefix, unit=None):
        self.prefix = list(prefix)
        self.trace = []
        self.pc = []
        self.solver = z3.Solver()
        self.solver.set("timeout", TIMEOUT_MS)
        self.solver.set("random_seed", SEED % 1000)
        # branch feasibility is decided on the linear part of the path condition only (an
        # over-approximation: it may keep an infeasible path, never drop a feasible one)
        self.light = z3.Solver()
        self.light.set("timeout", 2000)
        self.decided = {}
        self.keepalive = []  # terms whose id() is used as a key must stay alive (ids are recycled)
        self.forks = []  # prefixes still to explore
        self.counter = {}
        self.obligations = []  # Obligation records
        self.unit = unit
        self.inputs = {}  # name -> z3 term, for counter-model reporting
        self.input_arrays = []  # (name, z3 function, shape) of symbolic input arrays
        self.tainted = False
        self.taint_notes = []
        self.notes = []
        self.covers = []
        self.solver_time = 0.0

    def fresh_name(self, base):
        base = "%s" % base
        n = self.counter.get(base, 0)
        self.counter[base] = n + 1
        return base if n == 0 else "%s!%d" % (base, n)

    def add(self, term):
        self.pc.append(term)
        self.solver.add(term)
        if not is_nonlinear(term):
            self.light.add(term)

    def feasible(self, t):
        t0 = time.time()
        self.light.set("rlimit", RLIMIT_BRANCH)
        r = _guarded(lambda: self.light.check(t), 5.0)
        if r != z3.unsat and (is_nonlinear(t) or len(self.light.assertions()) != len(self.solver.assertions())):
            # the linear over-approximation keeps the branch: let the full solver try to refute it
            # within a small budget (unknown keeps the branch)
            self.solver.set("rlimit", RLIMIT_BRANCH)
            r2 = _guarded(lambda: self.solver.check(t), 5.0)
            if r2 == z3.unsat:
                r = r2
            elif r2 == z3.unknown:
                # a fresh (non-incremental) solver on the lambda-abstracted path condition often refutes what the
                # incremental one gives up on; `unsat` of the abstraction is `unsat` of the original
                s3 = z3.Solver()
                s3.set("rlimit", RLIMIT_BRANCH * 4)
                s3.add(*[_abs_lambdas(c) for c in self.pc])
                s3.add(_abs_lambdas(t))
                r3 = _guarded(lambda: s3.check(), 5.0)
                if r3 == z3.unsat:
                    r = r3
            if os.environ.get("PYVC_TRACE_DECIDE"):
                print("FEASIBLE light/full", r, r2, flush=True)
        elif os.environ.get("PYVC_TRACE_DECIDE"):
            print("FEASIBLE light", r, flush=True)
        self.solver_time += time.time() - t0
        return r != z3.unsat

    def check(self, *extra, budget=None):
        t0 = time.time()
        self.solver.set("rlimit", budget or RLIMIT_PROVE)
        r = _guarded(lambda: self.solver.check(*extra), (0.75 if budget else 3.0) * TIMEOUT_MS / 1000.0)
        self.solver_time += time.time() - t0
        return r


_nl_cache = {}


def _guarded(fn, seconds):
    """wall-clock safety net: z3 ignores its own timeout inside nlsat, and rlimit is not checked
    everywhere; a watchdog thread interrupts the context (the answer is then `unknown`)"""
    import threading

    ctx = z3.main_ctx()
    timer = threading.Timer(seconds, ctx.interrupt)
    timer.daemon = True
    timer.start()
    try:
        return fn()
    except z3.Z3Exception:
        return z3.unknown
    finally:
        timer.cancel()


def is_nonlinear(t):
    """syntactic test: a product of two non-numerals, a division by a non-numeral, a quantifier or
    a lambda anywhere in the term"""
    key = t.get_id()
    hit = _nl_cache.get(key)
    if hit is not None and hit[0].eq(t):
        return hit[1]
    r = False
    stack = [t]
    seen = set()
    while stack and not r:
        x = stack.pop()
        i = x.get_id()
        if i in seen:
            continue
        seen.add(i)
        if z3.is_quantifier(x):
            r = True
            break
        if z3.is_app(x):
            k = x.decl().kind()
            if k == z3.Z3_OP_MUL:
                nn = [c for c in x.children() if not (z3.is_int_value(c) or z3.is_rational_value(c))]
                if len(nn) >= 2:
                    r = True
                    break
            elif k in (z3.Z3_OP_DIV, z3.Z3_OP_IDIV, z3.Z3_OP_MOD):
                d = x.children()[1]
                if not (z3.is_int_value(d) or z3.is_rational_value(d)):
                    r = True
                    break
            stack.extend(x.children())
    if len(_nl_cache) > 50000:
        _nl_cache.clear()
    _nl_cache[key] = (t, r)
    return r


def tid(t):
    """id of a z3 term usable as a dictionary key for the lifetime of the current path"""
    if _cur is not None:
        _cur.keepalive.append(t)
    else:
        _GLOBAL_KEEP.append(t)
    return t.get_id()


_GLOBAL_KEEP = []
_cur = None


def cur():
    if _cur is None:
        raise RuntimeError("no active pyvc path")
    return _cur


def active():
    return _cur is not None


class Obligation:
    __slots__ = ("name", "status", "backend", "time", "model", "smt2", "path", "tainted", "note")

    def __init__(self, name):
        self.name = name
        self.status = None  # discharged | refuted | unknown
        self.backend = "z3"
        self.time = 0.0
        self.model = None
        self.smt2 = None
        self.path = None
        self.tainted = False
        self.note = ""

    def as_dict(self):
        return {k: getattr(self, k) for k in self.__slots__ if k != "smt2"}


# --------------------------------------------------------------------------------------
# Terms
# --------------------------------------------------------------------------------------
def _frac(x):
    if isinstance(x, bool):
        raise TypeError
    if isinstance(x, int):
        return fractions.Fraction(x)
    if isinstance(x, float):
        if x != x or x in (float("inf"), float("-inf")):
            raise Undecided("non-finite float constant in real arithmetic")
        return fractions.Fraction(x)
    if isinstance(x, fractions.Fraction):
        return x
    raise TypeError(type(x))


def rv(x):
    f = _frac(x)
    return z3.RealVal(str(f))


def is_sym(x):
    return isinstance(x, SV)


def concrete(x):
    """Python value of a symbolic scalar if its term is a numeral, else None."""
    if not isinstance(x, SV):
        return x
    t = z3.simplify(x.t)
    if z3.is_int_value(t):
        return t.as_long()
    if z3.is_rational_value(t):
        return fractions.Fraction(t.numerator_as_long(), t.denominator_as_long())
    if z3.is_true(t):
        return True
    if z3.is_false(t):
        return False
    return None


def entails(cond):
    """True when the linear part of the current path condition proves `cond` (cheap; sound: it
    uses a subset of the hypotheses).  Used by the stubs to avoid building clipping terms."""
    p = _cur
    if p is None:
        return False
    t = bterm(cond)
    ts = z3.simplify(t)
    if z3.is_true(ts):
        return True
    if z3.is_false(ts):
        return False
    key = ("entails", tid(ts))
    hit = p.counter.get(key)
    if hit is not None:
        return hit
    p.light.set("rlimit", RLIMIT_BRANCH // 4)
    r = p.light.check(z3.Not(ts)) == z3.unsat
    p.counter[key] = r
    return r


def concretize(x):
    """the unique value the path condition allows for x (int/bool), or None.  Sound: a value is
    returned only when the solver proves that no other value is possible."""
    if not isinstance(x, SV):
        return x
    c = concrete(x)
    if c is not None:
        return c
    p = cur()
    # the linear part of the path condition is enough to pin a value down (sound: fewer hypotheses)
    p.light.set("rlimit", RLIMIT_BRANCH)
    if p.light.check() != z3.sat:
        return None
    m = p.light.model()
    v = m.eval(x.t, model_completion=True)
    if p.light.check(x.t != v) != z3.unsat:
        return None
    if z3.is_int_value(v):
        return v.as_long()
    if z3.is_true(v):
        return True
    if z3.is_false(v):
        return False
    return None


class SV:
    """Symbolic scalar: kind 'i' (mathematical integer), 'r' (real), 'b' (bool)."""

    __slots__ = ("t", "k", "dt")
    __array_priority__ = 1000

    def __init__(self, t, k=None):
        self.t = t
        self.dt = None  # numpy scalar dtype when the value was read out of an array
        if k is None:
            s = t.sort()
            k = "b" if s == z3.BoolSort() else ("i" if s == z3.IntSort() else "r")
        self.k = k

    # -- helpers -----------------------------------------------------------------------
    @property
    def dtype(self):
        """numpy scalars carry a dtype (result.dtype on a reduction result)"""
        from .stubs import np as _snp

        return self.dt if self.dt is not None else _snp._scalar_dtype(self)

    @staticmethod
    def lift(x):
        if isinstance(x, SV):
            return x
        f = getattr(x, "_pyvc_scalar", None)
        if f is not None:
            v = f()
            if v is not None:
                return SV.lift(v)
        if isinstance(x, bool):
            return SV(z3.BoolVal(x), "b")
        if isinstance(x, int):
            return SV(z3.IntVal(x), "i")
        if isinstance(x, float):
            return SV(rv(x), "r")
        if isinstance(x, fractions.Fraction):
            return SV(rv(x), "r")
        return NotImplemented

    def num(self):
        """term as Int or Real (bool -> 0/1 int)"""
        if self.k == "b":
            return z3.If(self.t, z3.IntVal(1), z3.IntVal(0))
        return self.t

    def real(self):
        t = self.num()
        return z3.ToReal(t) if t.sort() == z3.IntSort() else t

    def __repr__(self):
        return "SV<%s:%s>" % (self.k, z3.simplify(self.t) if self.t.num_args() < 8 else "...")

    def __hash__(self):
        raise TypeError("symbolic scalars are unhashable (would concretise)")

    def __index__(self):
        c = concrete(self)
        if isinstance(c, int) and not isinstance(c, bool):
            return c
        raise Undecided("symbolic integer used where Python needs a concrete index")

    def __format__(self, spec):
        return _format_token(self)

    def __str__(self):
        return _format_token(self)

    def __bool__(self):
        if self.k == "b":
            return decide(self.t)
        return decide(self.num() != 0)

    # -- arithmetic --------------------------------------------------------------------
    def _bin(self, other, f, rdiv=False):
        o = SV.lift(other)
        if o is NotImplemented:
            return NotImplemented
        a, b = self.num(), o.num()
        if a.sort() != b.sort():
            a = z3.ToReal(a) if a.sort() == z3.IntSort() else a
            b = z3.ToReal(b) if b.sort() == z3.IntSort() else b
        return SV(f(a, b))

    def __add__(self, o):
        return self._bin(o, lambda a, b: a + b)

    def __radd__(self, o):
        return self._bin(o, lambda a, b: b + a)

    def __sub__(self, o):
        return self._bin(o, lambda a, b: a - b)

    def __rsub__(self, o):
        return self._bin(o, lambda a, b: b - a)

    def __mul__(self, o):
        return self._bin(o, lambda a, b: a * b)

    def __rmul__(self, o):
        return self._bin(o, lambda a, b: b * a)

    def __truediv__(self, o):
        o = SV.lift(o)
        if o is NotImplemented:
            return NotImplemented
        return SV(self.real() / o.real(), "r")

    def __rtruediv__(self, o):
        o = SV.lift(o)
        if o is NotImplemented:
            return NotImplemented
        return SV(o.real() / self.real(), "r")

    def __floordiv__(self, o):
        o = SV.lift(o)
        if o is NotImplemented:
            return NotImplemented
        if self.k in "ib" and o.k in "ib":
            # python floor division; z3 div is floor for positive divisors, ceil for negative
            a, b = self.num(), o.num()
            return SV(z3.If(b > 0, a / b, (-a) / (-b)), "i")
        q = self.real() / o.real()
        return SV(z3.ToReal(z3.ToInt(q)), "r")

    def __rfloordiv__(self, o):
        return SV.lift(o).__floordiv__(self)

    def __mod__(self, o):
        o = SV.lift(o)
        if self.k in "ib" and o.k in "ib":
            return SV(self.num() % o.num(), "i")
        raise Undecided("real modulo")

    def __neg__(self):
        return SV(-self.num())

    def __pos__(self):
        return SV(self.num())

    def __abs__(self):
        t = self.num()
        return SV(z3.If(t >= 0, t, -t))

    def __pow__(self, o):
        return power(self, o)

    def __rpow__(self, o):
        return power(o, self)

    def __lshift__(self, o):
        return self * power(2, o)

    def __rlshift__(self, o):
        return SV.lift(o) * power(2, self)

    # -- comparisons -------------------------------------------------------------------
    def _cmp(self, other, f):
        o = SV.lift(other)
        if o is NotImplemented:
            return NotImplemented
        if self.k == "b" and o.k == "b":
            return SV(f(self.num(), o.num()), "b")
        a, b = self.num(), o.num()
        if a.sort() != b.sort():
            a = z3.ToReal(a) if a.sort() == z3.IntSort() else a
            b = z3.ToReal(b) if b.sort() == z3.IntSort() else b
        return SV(f(a, b), "b")

    def __lt__(self, o):
        return self._cmp(o, lambda a, b: a < b)

    def __le__(self, o):
        return self._cmp(o, lambda a, b: a <= b)

    def __gt__(self, o):
        return self._cmp(o, lambda a, b: a > b)

    def __ge__(self, o):
        return self._cmp(o, lambda a, b: a >= b)

    def __eq__(self, o):
        if o is None or isinstance(o, str):
            return False
        r = self._cmp(o, lambda a, b: a == b)
        return False if r is NotImplemented else r

    def __ne__(self, o):
        if o is None or isinstance(o, str):
            return True
        r = self._cmp(o, lambda a, b: a != b)
        return True if r is NotImplemented else r

    # -- logic (numpy-style on bools) --------------------------------------------------
    def __and__(self, o):
        o = SV.lift(o)
        if self.k == "b" and o.k == "b":
            return SV(z3.And(self.t, o.t), "b")
        raise Undecided("bitwise and on symbolic integers")

    __rand__ = __and__

    def __or__(self, o):
        o = SV.lift(o)
        if self.k == "b" and o.k == "b":
            return SV(z3.Or(self.t, o.t), "b")
        raise Undecided("bitwise or on symbolic integers")

    __ror__ = __or__

    def __xor__(self, o):
        o = SV.lift(o)
        if self.k == "b" and o.k == "b":
            return SV(z3.Xor(self.t, o.t), "b")
        raise Undecided("bitwise xor on symbolic integers")

    __rxor__ = __xor__

    def __invert__(self):
        if self.k == "b":
            return SV(z3.Not(self.t), "b")
        raise Undecided("bitwise not on symbolic integers")


# token strings for the struct-format idiom  "{}{}".format(n, t)
_TOK_L, _TOK_R = "⟦", "⟧"
_tokens = {}


def _format_token(sv):
    key = "%s%d%s" % (_TOK_L, len(_tokens), _TOK_R)
    _tokens[key] = sv
    return key


def token_value(s):
    """SV for a string that is exactly one format token, else None."""
    if isinstance(s, str) and s.startswith(_TOK_L) and s.endswith(_TOK_R) and s in _tokens:
        return _tokens[s]
    return None


def has_token(s):
    return isinstance(s, str) and _TOK_L in s


# -- power ---------------------------------------------------------------------------------
_pow2 = z3.Function("pow2", z3.IntSort(), z3.RealSort())  # 2**n, n any integer


def pow2(n):
    """2**n for a symbolic integer n, with the defining facts instantiated at n-1, n, n+1."""
    n = SV.lift(n)
    c = concrete(n)
    if isinstance(c, int):
        return SV(rv(fractions.Fraction(2) ** c), "r")
    t = n.t
    p = cur()
    key = ("pow2", tid(t))
    if key not in p.counter:
        p.counter[key] = 1
        p.add(_pow2(t) > 0)
        p.add(_pow2(t + 1) == 2 * _pow2(t))
        p.add(_pow2(t) == 2 * _pow2(t - 1))
        p.add(z3.Implies(t >= 0, _pow2(t) >= 1))
        p.add(z3.Implies(t == 0, _pow2(t) == 1))
        p.add(z3.Implies(t >= 1, _pow2(t) >= 2))
        p.add(z3.Implies(t <= 0, _pow2(t) <= 1))
    return SV(_pow2(t), "r")


def power(a, b):
    cb = concrete(b)
    ca = concrete(a)
    if not isinstance(a, SV) and not isinstance(b, SV):
        return a**b
    if cb is not None and not isinstance(cb, bool):
        fb = fractions.Fraction(cb) if not isinstance(cb, fractions.Fraction) else cb
        a = SV.lift(a)
        if fb.denominator == 1 and abs(fb.numerator) <= 8:
            n = fb.numerator
            if n == 0:
                return SV.lift(1 if a.k == "i" else 1.0)
            acc = a
            for _ in range(abs(n) - 1):
                acc = acc * a
            if n < 0:
                return 1.0 / acc
            if isinstance(cb, float) or isinstance(cb, fractions.Fraction) and a.k == "i":
                return SV(acc.real(), "r")
            return acc
        if fb == fractions.Fraction(1, 2):
            return sqrt(a)
        raise Undecided("power with exponent %s" % (fb,))
    if ca is not None:
        fa = fractions.Fraction(ca)
        if fa == 2:
            r = pow2(b)
            bb = SV.lift(b)
            if isinstance(ca, int) and bb.k == "i":
                # integer result when exponent >= 0 (precondition of callers); keep real term
                return SV(r.t, "r")
            return r
        if fa == fractions.Fraction(1, 2):
            return pow2(-SV.lift(b))
    raise Undecided("symbolic power")


_sqrt = z3.Function("SQRT", z3.RealSort(), z3.RealSort())  # principal square root (of a non-negative real)


def _exact_root(f):
    import math

    if f < 0:
        return None
    n, d = math.isqrt(f.numerator), math.isqrt(f.denominator)
    if n * n == f.numerator and d * d == f.denominator:
        return fractions.Fraction(n, d)
    return None


def sqrt(x):
    """Principal square root: the application SQRT(x) of an uninterpreted function, with its defining
    property (x >= 0  =>  SQRT(x) >= 0 and SQRT(x)^2 == x) instantiated at this argument.  A function
    rather than a fresh constant, so that a square root evaluated under a binder (array contents
    lambdas) denotes the same value as the one evaluated at an instance."""
    x = SV.lift(x)
    xs = simp(x.real())
    if z3.is_rational_value(xs):
        f = fractions.Fraction(xs.numerator_as_long(), xs.denominator_as_long())
        e = _exact_root(f)
        if e is not None:
            return SV(rv(e), "r")
    c = concrete(x)
    p = cur()
    key = ("sqrt", tid(xs))
    if key in p.counter:
        return p.counter[key]
    r = _sqrt(xs)
    ax = z3.Implies(xs >= 0, z3.And(r >= 0, r * r == xs))
    p.add(ax)
    p.counter.setdefault("@sqrtax", []).append(ax)
    if c is not None:
        f = fractions.Fraction(c)
        if f >= 0:
            # rational bounds help nlsat on constants such as sqrt(3)
            import math

            approx = fractions.Fraction(math.sqrt(float(f))).limit_denominator(10**9)
            lo, hi = approx - fractions.Fraction(1, 10**8), approx + fractions.Fraction(1, 10**8)
            if lo > 0:
                p.add(r >= rv(lo))
                p.counter["@sqrtax"].append(r >= rv(lo))
            p.add(r <= rv(hi))
            p.counter["@sqrtax"].append(r <= rv(hi))
    out = SV(r, "r")
    p.counter[key] = out
    return out


def sqrt_axioms():
    """the instances of the defining property of SQRT asserted on this path (hypotheses for lemmas)"""
    return list(cur().counter.get("@sqrtax", []))


def ite(c, a, b):
    c = SV.lift(c)
    a, b = SV.lift(a), SV.lift(b)
    ta, tb = a.num(), b.num()
    if ta.sort() != tb.sort():
        ta, tb = a.real(), b.real()
    if a.k == "b" and b.k == "b":
        return SV(z3.If(c.t, a.t, b.t), "b")
    return SV(z3.If(c.t, ta, tb))


def trunc(x):
    """int(x) for a real x: truncation toward zero (CPython and C cast agree for finite x)."""
    x = SV.lift(x)
    if x.k in "ib":
        return SV(x.num(), "i")
    t = x.t
    return SV(z3.If(t >= 0, z3.ToInt(t), -z3.ToInt(-t)), "i")


def floor(x):
    x = SV.lift(x)
    if x.k in "ib":
        return SV(x.num(), "i")
    return SV(z3.ToInt(x.t), "i")


def round_half_even(x):
    x = SV.lift(x)
    if x.k in "ib":
        return SV(x.num(), "i")
    t = x.t
    f = z3.ToInt(t)
    d = t - z3.ToReal(f)
    half = z3.RealVal("1/2")
    return SV(z3.If(d < half, f, z3.If(d > half, f + 1, z3.If(f % 2 == 0, f, f + 1))), "i")


# --------------------------------------------------------------------------------------
# Fresh symbols, assume, decide, prove
# --------------------------------------------------------------------------------------
def fresh(kind, base, register=True):
    p = cur()
    name = p.fresh_name(base)
    t = {"i": z3.Int, "r": z3.Real, "b": z3.Bool}[kind](name)
    if register:
        p.inputs[name] = t
    return SV(t, kind)


def fresh_int(base, lo=None, hi=None, register=True):
    v = fresh("i", base, register)
    if lo is not None:
        assume(v >= lo)
    if hi is not None:
        assume(v <= hi)
    return v


def fresh_real(base, register=True):
    return fresh("r", base, register)


def fresh_bool(base, register=True):
    return fresh("b", base, register)


def term(x):
    x = SV.lift(x)
    if x is NotImplemented:
        raise TypeError("not a scalar")
    return x.t if x.k == "b" else x.num()


def bterm(x):
    f = getattr(x, "_pyvc_scalar", None)
    if f is not None and f() is not None:
        x = f()
    if isinstance(x, bool):
        return z3.BoolVal(x)
    if isinstance(x, SV):
        if x.k == "b":
            return x.t
        return x.num() != 0
    if z3.is_expr(x):
        return x
    raise TypeError("not a boolean term: %r" % (x,))


def conj(*xs):
    """conjunction of clauses (Python bools, symbolic booleans, generators) WITHOUT deciding them:
    contract clauses must not fork the path they are checked on"""
    ts = []
    for x in xs:
        if isinstance(x, (list, tuple)) or hasattr(x, "__next__"):
            x = conj(*list(x))
        t = bterm(x)
        if z3.is_false(t):
            return SV(z3.BoolVal(False), "b")
        if not z3.is_true(t):
            ts.append(t)
    return SV(z3.And(*ts) if ts else z3.BoolVal(True), "b")


def implies(a, b):
    """a => b as a clause, without deciding either side"""
    return SV(z3.Implies(bterm(a), bterm(b)), "b")


def assume(c):
    p = cur()
    t = bterm(c)
    if z3.is_true(t):
        return
    p.add(t)


FORK_SHAPES = {}


def _shape(t):
    """the condition with every numeral and generated suffix removed (file ids, fresh-name counters differ between
    executions of the same path; the structure does not)"""
    import hashlib

    toks = re.findall(r"[A-Za-z_!#<>=+*/.-]+", re.sub(r"[0-9]+", "#", t.sexpr()))
    return hashlib.sha1(" ".join(sorted(toks)).encode()).hexdigest()  # insensitive to the simplifier's argument order


def decide(t):
    r = _decide(t)
    if os.environ.get("PYVC_TRACE_DECIDE"):
        print("DECIDE", len(cur().trace), r, str(simp(t)).replace("\n", " ")[:140], flush=True)
    return r


def _decide(t):
    p = cur()
    t = simp(t)
    if z3.is_true(t):
        return True
    if z3.is_false(t):
        return False
    i = len(p.trace)
    if i < len(p.prefix):
        tid0 = tid(t)
        if tid0 in p.decided:
            return p.decided[tid0]
        v = p.prefix[i]
        if i == len(p.prefix) - 1:
            # the decision this path was forked for must be the one re-taken here (same shape of condition) ...
            want = FORK_SHAPES.get(tuple(p.prefix))
            if want is not None and want != _shape(t):
                raise Undecided("path replay diverged: the re-execution does not repeat the decision sequence of the run "
                                "that forked it")
            # ... and a branch that was kept only because the solver could not decide it then may be refuted now
            if not p.feasible(t if v else z3.Not(t)):
                raise Infeasible()
        p.trace.append(v)
        p.add(t if v else z3.Not(t))
        p.decided[tid0] = v
        return v
    tidx = tid(t)
    if tidx in p.decided:
        return p.decided[tidx]
    can_t = p.feasible(t)
    can_f = p.feasible(z3.Not(t))
    if os.environ.get("PYVC_DUMP_ONESIDED") and not can_t and "np_count" in str(t)[:40]:
        with open(os.path.join(os.environ["PYVC_DUMP_ONESIDED"], "onesided_%d.smt2" % len(p.trace)), "w") as fh:
            fh.write(_to_smt2(p.pc + [t]))
    if os.environ.get("PYVC_TRACE_STACK") and (not can_t or not can_f):
        import traceback

        fr = [f for f in traceback.extract_stack(limit=30) if "/osyris/" in f.filename or "/contracts/" in f.filename]
        print("ONE-SIDED", can_t, can_f, [(os.path.basename(f.filename), f.lineno) for f in fr][-4:], str(simp(t))[:200].replace("\n", " "), flush=True)
    if not can_t and not can_f:
        raise Infeasible()
    if can_t and can_f:
        fk = p.trace + [False]
        p.forks.append(fk)
        FORK_SHAPES[tuple(fk)] = _shape(t)
        v = True
    else:
        v = can_t
    p.trace.append(v)
    p.add(t if v else z3.Not(t))
    p.decided[tidx] = v
    return v


def taint(note):
    """A value with no declared contract was used: later refutations are undecided."""
    p = cur()
    p.tainted = True
    p.taint_notes.append(note)


def note(msg):
    cur().notes.append(msg)


def cover(name):
    """Reachability marker (vacuity guard): the current pc must be satisfiable."""
    p = cur()
    p.light.set("rlimit", RLIMIT_BRANCH)
    r = p.light.check()
    if r == z3.sat and len(p.light.assertions()) != len(p.solver.assertions()):
        r = "unknown"  # only the linear part was checked
    p.covers.append((name, str(r)))
    return r == z3.sat


def prove(name, cond, detail=None, effort="full"):
    """Generate and discharge the obligation  pc => cond ; then assume cond."""
    p = cur()
    ob = Obligation(name)
    ob.path = list(p.trace)
    ob.tainted = p.tainted
    t = bterm(cond)
    t0 = time.time()
    ts = z3.simplify(t)
    if z3.is_true(ts):
        ob.status, ob.backend = "discharged", "simplifier"
    elif z3.is_false(ts):
        # the clause is false outright on this path: a refutation only if the path itself is feasible (branches are
        # kept when their feasibility is undecided, and on an infeasible path anything may be observed)
        r = p.check()
        if r == z3.sat:
            ob.status, ob.backend = "refuted", "simplifier+z3"
            ob.model = _model_dict(p, p.solver.model())
            ob.model["note"] = "clause is literally false on the path with decisions %s" % (p.trace[-12:],)
        elif r == z3.unsat:
            ob.status, ob.backend = "discharged", "z3 (path infeasible)"
        else:
            # a fresh solver process on the path condition alone (the incremental in-process state is the usual reason
            # for `unknown` here)
            r2 = _try_other_backends(_to_smt2(list(p.pc)))
            if r2 is not None:
                ob.status, ob.backend = "discharged", r2[1] + " (path infeasible)"
            else:
                ob.status, ob.backend = "unknown", "z3"
                ob.note = "clause is literally false but the feasibility of the path is undecided"
    else:
        try:
            r = _sliced_unsat(p, t)
        except Exception:  # the slicing front end is an optimisation only
            r = None
        if r != z3.unsat:
            # effort "low": the caller (a failed lemma) has already spent its budget on the focused query
            r = p.check(z3.Not(t), budget=RLIMIT_PROVE // 4) if effort == "low" else p.check(z3.Not(t))
        else:
            ob.backend = "z3-slice"
        if r == z3.unsat:
            ob.status = "discharged"
        elif r == z3.sat:
            ob.status = "refuted"
            m = p.solver.model()
            ob.model = _model_dict(p, m)
            if detail:
                try:
                    ob.note = detail(lambda e: m.eval(term(e) if not z3.is_expr(e) else e, True))
                except Exception as exc:  # pragma: no cover
                    ob.note = "detail failed: %r" % (exc,)
        else:
            ob.status = "unknown"
            ob.smt2 = _to_smt2(p.pc + [z3.Not(t)])
            if os.environ.get("PYVC_DUMP_DIR"):
                with open(os.path.join(os.environ["PYVC_DUMP_DIR"], re.sub(r"[^A-Za-z0-9_.]+", "_", name)[-120:] + ".smt2"), "w") as fh:
                    fh.write(ob.smt2)
            r2 = _try_other_backends(ob.smt2) if effort != "low" else None
            if r2 is not None:
                ob.status, ob.backend = r2
    ob.time = time.time() - t0
    p.obligations.append(ob)
    if ob.status == "discharged":
        p.add(t)
    return ob.status == "discharged"


def lemma(name, hyps, goal, witness=None, opaque=()):
    """Obligation `goal` proved from an explicit list of facts (manual slicing for hard arithmetic): every
    hypothesis must already be on the path condition or is proved first as its own obligation; then
    hyps => goal is checked in isolation.  If that fails the obligation falls back to the ordinary
    prove (whole path condition), so a lemma can never hide a refutation."""
    p = cur()
    hs = []
    pcs = {c.get_id() for c in p.pc}
    for k, h in enumerate(hyps):
        t = bterm(h)
        if z3.is_true(z3.simplify(t)):
            continue
        if t.get_id() not in pcs and not prove("%s.hyp%d" % (name, k), t):
            return prove(name, goal)
        hs.append(t)
    g = bterm(goal)
    t0 = time.time()
    ha = [_abs_lambdas(h) for h in hs]
    ga = _abs_lambdas(g)
    if opaque:
        # listed subterms are replaced by fresh constants (hide their definitions: sound, the lemma gets weaker)
        ts = sorted({_abs_lambdas(term(SV.lift(o))).sexpr(): _abs_lambdas(term(SV.lift(o))) for o in opaque}.values(),
                    key=lambda t: -len(t.sexpr()))
        subs = [(t, z3.Const("opq!%d" % k, t.sort())) for k, t in enumerate(ts)]
        ha = [z3.substitute(h, *subs) for h in ha]
        ga = z3.substitute(ga, *subs)
    r = None
    if is_nonlinear(ga) or any(is_nonlinear(h) for h in ha):
        r = _nra_split_unsat(ha, ga)
    if r != z3.unsat:
        s = z3.Solver()
        s.set("timeout", TIMEOUT_MS)
        s.set("rlimit", RLIMIT_PROVE)
        s.add(*ha)
        s.add(z3.Not(ga))
        r = _guarded(lambda: s.check(), TIMEOUT_MS / 1000.0)
    p.solver_time += time.time() - t0
    if r == z3.unsat:
        ob = Obligation(name)
        ob.path = list(p.trace)
        ob.tainted = p.tainted
        ob.status, ob.backend = "discharged", "z3-lemma"
        ob.time = time.time() - t0
        p.obligations.append(ob)
        p.add(g)
        return True
    if os.environ.get("PYVC_DUMP_DIR"):
        with open(os.path.join(os.environ["PYVC_DUMP_DIR"], re.sub(r"[^A-Za-z0-9_.]+", "_", name)[-120:] + ".lemma.smt2"), "w") as fh:
            fh.write(_to_smt2(ha + [z3.Not(ga)]))
    cand = None
    if witness:
        # a model of (listed hypotheses and not goal) is only a CANDIDATE counterexample (the rest of the path condition
        # is ignored): it is handed to the replay, which decides on the real code
        cand = _candidate(ha, ga, witness)
    ok = prove(name, goal, effort="low" if cand is not None else "full")
    if not ok and cand is not None:
        ob = p.obligations[-1]
        if ob.status == "unknown":
            ob.model = {"candidate_from_lemma": cand}
            ob.note = "candidate counterexample of the lemma's hypotheses only; decided by replay on the real code"
    return ok


def _candidate(ha, ga, witness):
    """a model of the real-arithmetic content of (hyps and not goal): integer index equalities among the hypotheses are
    applied as rewrites, real-valued uninterpreted applications are purified, conjuncts that still mention integers are
    dropped (so this is weaker than the lemma: a CANDIDATE only)"""
    forms = list(ha) + [z3.Not(ga)]
    rew = []
    for h in ha:
        if z3.is_eq(h) and h.arg(0).sort() == z3.IntSort() and z3.is_app(h.arg(0)) and h.arg(0).num_args() > 0:
            rew.append((h.arg(0), h.arg(1)))
    wit = {k: (v.t if isinstance(v, SV) else v) for k, v in witness.items()}
    wit_terms = {k: _abs_lambdas(t) for k, t in wit.items() if z3.is_expr(t)}
    for _ in range(3):
        if rew:
            forms = [z3.substitute(f, *rew) for f in forms]
            wit_terms = {k: z3.substitute(t, *rew) for k, t in wit_terms.items()}
    apps = {}

    def collect(t, seen):
        i = t.get_id()
        if i in seen:
            return
        seen.add(i)
        if z3.is_app(t):
            if t.num_args() > 0 and t.decl().kind() == z3.Z3_OP_UNINTERPRETED and t.sort() == z3.RealSort():
                apps.setdefault(t.sexpr(), t)
                return
            for c in t.children():
                collect(c, seen)

    seen = set()
    for f in forms + list(wit_terms.values()):
        collect(f, seen)
    subs = [(t, z3.Real("cand!%d" % k)) for k, t in enumerate(apps.values())]
    cache = {}
    pure = [z3.substitute(f, *subs) if subs else f for f in forms]
    pure = [f for f in pure if not _has_int_var(f, cache)]
    if not pure or _has_int_var(pure[-1], cache) is True:
        pass
    s = z3.Solver()
    s.set("timeout", max(2000, TIMEOUT_MS // 2))
    s.add(*pure)
    r = _guarded(lambda: s.check(), max(2.0, TIMEOUT_MS / 2000.0))
    if r != z3.sat:
        return None
    m = s.model()
    out = {}
    for k, v in wit.items():
        if not z3.is_expr(v):
            out[k] = v
            continue
        t = z3.substitute(wit_terms[k], *subs) if subs else wit_terms[k]
        try:
            out[k] = _pyval(m.eval(t, model_completion=True))
        except Exception as e:  # pragma: no cover
            out[k] = "?%r" % (e,)
    return out


def _symbols(t, cache):
    key = t.get_id()
    hit = cache.get(key)
    if hit is not None and hit[0].eq(t):
        return hit[1]
    out = set()
    stack = [t]
    seen = set()
    while stack:
        x = stack.pop()
        i = x.get_id()
        if i in seen:
            continue
        seen.add(i)
        if z3.is_quantifier(x):
            stack.append(x.body())
            continue
        if z3.is_app(x):
            if x.num_args() == 0:
                if x.decl().kind() == z3.Z3_OP_UNINTERPRETED:
                    out.add(x.decl().name())
            else:
                if x.decl().kind() == z3.Z3_OP_UNINTERPRETED:
                    # an applied function is keyed by the whole application when its arguments are
                    # constants (SCALE(sid_ua), a(i0)), else by the function name
                    ch = x.children()
                    if all(z3.is_app(c) and c.num_args() == 0 for c in ch):
                        out.add(x.sexpr())
                        for c in ch:
                            if z3.is_app(c) and c.decl().kind() == z3.Z3_OP_UNINTERPRETED:
                                out.add(c.decl().name())
                        continue
                    out.add(x.decl().name())
                stack.extend(x.children())
    cache[key] = (t, out)
    return out


_LAMABS = {}      # id(lambda term) -> (term kept alive, opaque array constant)
_LAMABS_BY_TEXT = {}
_ABS_CACHE = {}
_LAM_OF_CONST = []


def simp(t):
    """z3.simplify that leaves lambda terms untouched: the simplifier's normal form depends on term creation order,
    and a re-simplified copy of an array-contents lambda would no longer be the SAME argument of np_count / np_sel /
    the reductions (congruence is all the solver knows about them)"""
    if not _has_lambda(t):
        return z3.simplify(t)
    a = _abs_lambdas(t)
    r = z3.simplify(a)
    return z3.substitute(r, *_LAM_OF_CONST) if _LAM_OF_CONST else r



def _abs_lambdas(t):
    """replace every lambda term (array contents handed to the uninterpreted np_count / np_sel / reductions) by
    an opaque array constant, the same constant for the same lambda.  The result is implied by... rather: any
    model of the original is a model of the abstraction, so `unsat` of the abstraction is `unsat` of the
    original (what is lost is only extensionality between syntactically different lambdas)."""
    k = t.get_id()
    hit = _ABS_CACHE.get(k)
    if hit is not None and hit[0].eq(t):
        return hit[1]
    if z3.is_quantifier(t):
        if t.is_lambda():
            key = t.sexpr()
            c = _LAMABS_BY_TEXT.get(key)
            if c is None:
                c = _LAMABS_BY_TEXT[key] = z3.Const("lam!%d" % len(_LAMABS_BY_TEXT), t.sort())
                _LAM_OF_CONST.append((c, t))
            r = c
        else:
            r = t
    elif z3.is_app(t) and t.num_args() > 0:
        ch = [_abs_lambdas(c) for c in t.children()]
        r = t if all(a.eq(b) for a, b in zip(ch, t.children())) else t.decl()(*ch)
    else:
        r = t
    if len(_ABS_CACHE) > 200000:
        _ABS_CACHE.clear()
    _ABS_CACHE[k] = (t, r)
    return r


def _has_lambda(t, cache={}):
    k = t.get_id()
    hit = cache.get(k)
    if hit is not None and hit[0].eq(t):
        return hit[1]
    if z3.is_quantifier(t):
        r = t.is_lambda() or _has_lambda(t.body())
    elif z3.is_app(t):
        r = any(_has_lambda(c) for c in t.children())
    else:
        r = False
    if len(cache) > 200000:
        cache.clear()
    cache[k] = (t, r)
    return r


class _AbsView:
    """the path with every lambda abstracted (same interface as far as _sliced_unsat needs it)"""

    def __init__(self, p):
        self.pc = [_abs_lambdas(c) for c in p.pc]
        self.counter = p.counter.setdefault("@absview", {})
        self.solver_time = 0.0


def _sliced_unsat(p, goal, _abstracted=False):
    """try to prove the goal from growing subsets of the path condition (sound: fewer
    hypotheses): first the conjuncts that talk only about the goal's symbols, then one and two
    rounds of the cone of influence.  Returns z3.unsat on success; anything else means 'try the
    full query'."""
    if not _abstracted and (_has_lambda(goal) or any(_has_lambda(c) for c in p.pc)):
        v = _AbsView(p)
        r = _sliced_unsat(v, _abs_lambdas(goal), True)
        p.solver_time += v.solver_time
        if r == z3.unsat:
            return r
    if len(p.pc) < 12 and not _abstracted:
        return None
    cache = p.counter.setdefault("@symcache", {})
    gs = set(_symbols(goal, cache))
    sets = [(_symbols(c, cache), c) for c in p.pc]
    tried = 0
    want = set(gs)
    for level in range(4):
        if level == 0:
            sub = [c for ss, c in sets if ss <= want]
        elif level == 3:
            sub = list(p.pc)
        else:
            grown = set(want)
            for ss, c in sets:
                if ss & want:
                    grown |= ss
            want = grown
            sub = [c for ss, c in sets if ss <= want]
        if len(sub) == tried:
            continue
        tried = len(sub)
        s = z3.Solver()
        last_abs = _abstracted and level == 3
        s.set("timeout", max(1000, TIMEOUT_MS // (1 if last_abs else 4)))
        s.set("rlimit", RLIMIT_PROVE // (1 if last_abs else 8))
        s.add(*sub)
        s.add(z3.Not(goal))
        t0 = time.time()
        nl = is_nonlinear(goal) or any(is_nonlinear(c) for c in sub)
        if nl:
            r = _nra_split_unsat(sub, goal)
            if r == z3.unsat:
                p.solver_time += time.time() - t0
                return r
        r = _guarded(lambda: s.check(), max(1.0, TIMEOUT_MS / (1500.0 if last_abs else (20000.0 if nl else 4000.0))))
        p.solver_time += time.time() - t0
        if r == z3.unsat:
            return r
    return None


def _has_int_var(t, cache):
    key = t.get_id()
    hit = cache.get(key)
    if hit is not None and hit[0].eq(t):
        return hit[1]
    r = False
    if z3.is_int_value(t) or z3.is_rational_value(t):
        r = False
    elif z3.is_quantifier(t):
        r = True
    elif z3.is_app(t):
        if t.num_args() == 0:
            r = t.sort() == z3.IntSort() and t.decl().kind() == z3.Z3_OP_UNINTERPRETED
        else:
            r = any(_has_int_var(c, cache) for c in t.children())
    cache[key] = (t, r)
    return r


def _nra_split_unsat(hyps, goal):
    """Nonlinear real obligations: purify uninterpreted applications, let the linear/integer part
    only contribute the equalities it entails between purified reals, and hand the pure real part
    to nlsat.  Uses a subset of the hypotheses and consequences of them: sound."""
    import itertools as _it

    neg = z3.Not(goal)
    apps = {}

    def collect(t, seen):
        i = t.get_id()
        if i in seen:
            return
        seen.add(i)
        if z3.is_quantifier(t):
            return
        if z3.is_app(t):
            if t.num_args() > 0 and t.decl().kind() == z3.Z3_OP_UNINTERPRETED and t.sort() == z3.RealSort():
                apps.setdefault(t.sexpr(), t)
            for c in t.children():
                collect(c, seen)

    seen = set()
    for c in hyps + [neg]:
        collect(c, seen)
    if len(apps) > 160:
        return None
    subs, items = [], []
    for k, (sx, t) in enumerate(apps.items()):
        v = z3.Real("pur!%d" % k)
        subs.append((t, v))
        items.append((t, v))
    pur = [z3.substitute(c, *subs) for c in hyps]
    pneg = z3.substitute(neg, *subs)
    cache = {}
    if _has_int_var(pneg, cache):
        return None
    lin = z3.Solver()
    lin.set("timeout", 2000)
    for c in pur:
        if not is_nonlinear(c):
            lin.add(c)
    eqs = []
    deadline = time.time() + max(5.0, TIMEOUT_MS / 1000.0)
    r0 = lin.check()
    if r0 == z3.unsat:
        return z3.unsat  # the linear part of the hypotheses alone is contradictory
    model = lin.model() if r0 == z3.sat else None

    def maybe_equal(a, b):
        # an equality entailed by the linear part holds in every model of it: one model filters the candidates
        if model is None:
            return True
        try:
            return z3.is_true(model.eval(a == b, model_completion=True))
        except z3.Z3Exception:
            return True

    for (t1, v1), (t2, v2) in _it.combinations(items, 2):
        if t1.decl().eq(t2.decl()) and time.time() < deadline:
            pairs = list(zip(t1.children(), t2.children()))
            if not all(maybe_equal(a, b) for a, b in pairs):
                continue
            args_eq = z3.And(*[a == b for a, b in pairs])
            if lin.check(z3.Not(args_eq)) == z3.unsat:
                eqs.append(v1 == v2)
    # resolve integer-only conditions with the linear part (Implies / If guards such as 0 <= i < n)
    memo = {}

    def decide_bool(b):
        k = b.get_id()
        if k in memo and memo[k][0].eq(b):
            return memo[k][1]
        out = None
        if not is_nonlinear(b):
            if lin.check(z3.Not(b)) == z3.unsat:
                out = True
            elif lin.check(b) == z3.unsat:
                out = False
        memo[k] = (b, out)
        return out

    def resolve(t, depth=0):
        if depth > 40 or not z3.is_app(t) or not _has_int_var(t, cache):
            return t
        if t.sort() == z3.BoolSort():
            d = decide_bool(t)
            if d is not None:
                return z3.BoolVal(d)
        ch = [resolve(c, depth + 1) for c in t.children()]
        if not ch:
            return t
        try:
            return t.decl()(*ch)
        except Exception:
            return t

    real = []
    atoms = {}

    def real_atoms(t, depth=0):
        """maximal boolean subterms without integer variables inside a mixed conjunct"""
        if depth > 30 or not z3.is_app(t) or t.sort() != z3.BoolSort():
            return
        if not _has_int_var(t, cache):
            if not (z3.is_true(t) or z3.is_false(t)):
                atoms.setdefault(t.get_id(), t)
            return
        for ch in t.children():
            real_atoms(ch, depth + 1)

    for c in pur:
        if _has_int_var(c, cache):
            real_atoms(c)
            c2 = z3.simplify(resolve(c)) if is_nonlinear(c) else None
            if c2 is not None and not z3.is_true(c2) and not _has_int_var(c2, cache):
                real.append(c2)
        else:
            real.append(c)
    # theory propagation: real-only literals entailed by the linear/integer part
    for a in list(atoms.values())[:200]:
        if is_nonlinear(a):
            continue
        if lin.check(z3.Not(a)) == z3.unsat:
            real.append(a)
        elif lin.check(a) == z3.unsat:
            real.append(z3.Not(a))
    s = z3.Solver()
    s.set("timeout", TIMEOUT_MS)
    s.add(*real)
    s.add(*eqs)
    s.add(pneg)
    return _guarded(lambda: s.check(), TIMEOUT_MS / 1000.0)


def _model_dict(p, m):
    out = {}
    for name, t in p.inputs.items():
        try:
            v = m.eval(t, model_completion=True)
            out[name] = _pyval(v)
        except Exception:
            out[name] = None
    for name, f, shape in p.input_arrays:
        try:
            dims = []
            for d in shape:
                dv = _pyval(m.eval(term(d), model_completion=True))
                dims.append(int(dv))
            if not dims:
                dims_iter = [()]
            else:
                total = 1
                for d in dims:
                    total *= max(d, 0)
                if total > 64:
                    continue
                dims_iter = list(itertools.product(*[range(d) for d in dims]))
            vals = {}
            for idx in dims_iter:
                args = [z3.IntVal(i) for i in idx] or [z3.IntVal(0)]
                vals[",".join(map(str, idx))] = _pyval(m.eval(f(*args), model_completion=True))
            out["@" + name] = {"shape": dims, "values": vals}
        except Exception as e:  # pragma: no cover
            out["@" + name] = {"error": repr(e)}
    return out


def _pyval(v):
    if z3.is_int_value(v):
        return v.as_long()
    if z3.is_rational_value(v):
        n, d = v.numerator_as_long(), v.denominator_as_long()
        return n / d if d != 1 else float(n)
    if z3.is_true(v):
        return True
    if z3.is_false(v):
        return False
    if z3.is_algebraic_value(v):
        a = v.approx(20)
        return a.numerator_as_long() / a.denominator_as_long()
    return str(v)


def _to_smt2(terms):
    s = z3.Solver()
    s.add(*terms)
    return s.to_smt2()


def _try_other_backends(smt2):
    budget = max(1, TIMEOUT_MS // 1000)
    with tempfile.NamedTemporaryFile("w", suffix=".smt2", delete=False) as f:
        f.write(smt2)
        fn = f.name
    try:
        for name, cmd in (
            ("z3-5.1-cli", ["z3-new", "-T:%d" % budget, fn]),
            ("cvc5", ["/usr/bin/cvc5", "--tlimit=%d" % (budget * 1000), fn]),
            ("z3-4.8", ["/usr/bin/z3", "-T:%d" % budget, fn]),
        ):
            try:
                out = subprocess.run(cmd, capture_output=True, text=True, timeout=budget + 5).stdout
            except Exception:
                continue
            first = out.strip().splitlines()[0] if out.strip() else ""
            if first == "unsat":
                return ("discharged", name)
            # a bare "sat" from another back end gives no model in our vocabulary:
            # keep it undecided rather than claim a refutation without a witness
        return None
    finally:
        os.unlink(fn)


# --------------------------------------------------------------------------------------
# Exploration
# --------------------------------------------------------------------------------------
class UnitResult:
    def __init__(self, name):
        self.name = name
        self.paths = 0
        self.cut = 0
        self.infeasible = 0
        self.obligations = []  # aggregated Obligation-like dicts
        self.errors = []  # undecided reasons
        self.raised = {}
        self.covers = {}
        self.time = 0.0
        self.solver_time = 0.0
        self.notes = []

    def as_dict(self):
        return dict(self.__dict__)


def explore(name, body, max_paths=4000, on_exception=None):
    """Run `body()` once per feasible path.  `body` must be deterministic."""
    global _cur
    res = UnitResult(name)
    work = [[]]
    FORK_SHAPES.clear()
    agg = {}
    t0 = time.time()
    while work:
        if res.paths >= max_paths:
            res.errors.append("path limit %d reached" % max_paths)
            break
        prefix = work.pop()
        p = Path(prefix, unit=name)
        _cur = p
        _tokens.clear()
        try:
            res.paths += 1
            body()
            cover("exit")
        except CutPath:
            res.cut += 1
        except Infeasible:
            res.infeasible += 1
        except Undecided as e:
            res.errors.append("undecided: %s" % (e,))
        except PathLimit as e:
            res.errors.append(str(e))
        except RecursionError:
            res.errors.append("recursion limit")
        except Exception as e:  # checker error inside a path: reported, never a violation
            import traceback

            res.errors.append("exception: %r\n%s" % (e, traceback.format_exc(limit=12)))
            # an exception that travelled through frames of the code under test is a CANDIDATE violation ("this call must
            # return / must raise what the contract expects"): never a verdict by itself -- the unit's native replay decides
            # on the real code (reproduced => VIOLATION with the failing input, otherwise the unit stays undecided)
            src = os.environ.get("OSYRIS_SRC", "/repo/src")
            frames = traceback.extract_tb(e.__traceback__)
            through = [f for f in frames if f.filename.startswith(src + os.sep)]
            if through:
                ob = Obligation("no_unexpected_exception")
                ob.status, ob.backend = "unknown", "symbolic-execution"
                ob.path = list(p.trace)
                ob.model = {"candidate_from_lemma": {"exception": repr(e), "raised_through": [
                    "%s:%d %s" % (os.path.relpath(f.filename, src), f.lineno, f.name) for f in through][-6:]}}
                ob.note = "exception through the code under test on a symbolic path; decided by replay on the real code"
                p.obligations.append(ob)
        finally:
            _cur = None
        work.extend(p.forks)
        res.solver_time += p.solver_time
        for n in p.notes:
            if n not in res.notes:
                res.notes.append(n)
        for cname, r in p.covers:
            prev = res.covers.get(cname)
            rank = {"sat": 2, "unknown": 1, "unsat": 0}
            res.covers[cname] = r if prev is None or rank.get(r, 0) > rank.get(prev, 0) else prev
        for ob in p.obligations:
            a = agg.get(ob.name)
            if a is None:
                a = agg[ob.name] = {
                    "name": ob.name,
                    "status": "discharged",
                    "instances": 0,
                    "time": 0.0,
                    "backend": set(),
                    "model": None,
                    "path": None,
                    "tainted": False,
                    "note": "",
                }
            a["instances"] += 1
            a["time"] += ob.time
            a["backend"].add(ob.backend)
            if ob.status == "refuted" and a["status"] != "refuted":
                a["status"] = "refuted"
                a["model"] = ob.model
                a["path"] = ob.path
                a["tainted"] = ob.tainted
                a["note"] = ob.note
            elif ob.status == "unknown" and a["status"] == "discharged":
                a["status"] = "unknown"
                a["model"] = ob.model  # a lemma-level candidate counterexample, if any (decided by replay)
                a["path"] = ob.path
                a["note"] = ob.note
    for a in agg.values():
        a["backend"] = sorted(a["backend"])
        a["time"] = round(a["time"], 4)
    res.obligations = list(agg.values())
    res.time = time.time() - t0
    return res
