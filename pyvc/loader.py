"""Loads the real osyris sources from the working tree for symbolic execution.

The text that is verified is the text that runs: every osyris module is read from
$OSYRIS_SRC/osyris (default /repo/src/osyris) on every run, parsed with `ast`, and executed by
CPython.  What the extraction changes, exhaustively:
  * `import` of numpy, pint, numba, struct, math, matplotlib, glob and os.path existence/IO
    resolve to the assumed-contract stubs in pyvc/stubs (the trusted base);
  * a fixed set of builtins (int, float, round, abs, min, max, len, range, isinstance, print,
    open, sum) is replaced by versions that accept symbolic scalars;
  * a `for` loop for which a sidecar loop contract is registered is rewritten into the usual
    invariant form (prove at entry; havoc; assume; one arbitrary iteration; prove preserved /
    continue after the loop with the invariant at the exit index).  Loops without a registered
    contract are left untouched.
Nothing else is altered; decorators @njit are the identity (numba is trusted to compile the
Python source faithfully).
"""
import ast
import builtins
import hashlib
import importlib
import importlib.abc
import importlib.machinery
import importlib.util
import os
import sys
import types

from . import core
from .stubs import misc as misc_stubs
from .stubs import np as np_stub
from .stubs import pint as pint_stub

SRC = os.environ.get("OSYRIS_SRC", "/repo/src")

LOOP_CONTRACTS = {}  # (module name, function qualname, loop ordinal) -> loops.LoopContract
FILE_SHA = {}


def source_path(modname):
    if modname == "config_osyris":
        return os.path.join(SRC, "osyris", "config", "defaults.py"), False
    rel = modname.split(".")
    base = os.path.join(SRC, *rel)
    if os.path.isdir(base):
        return os.path.join(base, "__init__.py"), True
    return base + ".py", False


# --------------------------------------------------------------------------------------
# builtins seen by osyris modules
# --------------------------------------------------------------------------------------
def _int(x=0, *a):
    if isinstance(x, core.SV):
        return core.trunc(x)
    if isinstance(x, str) and core.has_token(x):
        v = core.token_value(x)
        if v is None:
            raise core.Undecided("int() of a string mixing format tokens and text: %r" % x)
        return core.trunc(v)
    if isinstance(x, np_stub.ndarray):
        return _int(x.elem((0,) * x.ndim))
    return int(x, *a)


def _float(x=0.0):
    if isinstance(x, core.SV):
        return core.SV(x.real(), "r")
    if isinstance(x, np_stub.ndarray):
        return _float(x.elem((0,) * x.ndim))
    return float(x)


def _round(x, nd=None):
    if isinstance(x, core.SV):
        if nd is not None:
            raise core.Undecided("round(x, ndigits) on symbolic x")
        return core.round_half_even(x)
    return round(x) if nd is None else round(x, nd)


def _abs(x):
    return abs(x)


def _minmax(is_max):
    native = max if is_max else min

    def f(*args, **kw):
        items = args[0] if len(args) == 1 else args
        if kw or not any(isinstance(a, core.SV) for a in items):
            return native(*args, **kw)
        items = list(items)
        out = items[0]
        for a in items[1:]:
            c = (core.SV.lift(a) > core.SV.lift(out)) if is_max else (core.SV.lift(a) < core.SV.lift(out))
            out = core.ite(c, a, out)
        return out

    return f


def _len(x):
    f = getattr(x, "__pyvc_len__", None)
    if f is not None:
        return f()
    m = type(x).__dict__.get("__len__") if not isinstance(x, (list, tuple, dict, str, set, bytes, range)) else None
    if m is None:
        for k in type(x).__mro__[1:]:
            if k.__module__.startswith("osyris") and "__len__" in k.__dict__:
                m = k.__dict__["__len__"]
                break
    if m is not None and type(x).__module__.startswith("osyris"):
        # a user-defined __len__ may return a symbolic length: call it directly, the builtin would demand an int
        return m(x)
    return len(x)


class SymRange:
    """range with symbolic bounds: only usable by a loop that has a loop contract"""

    def __init__(self, lo, hi):
        self.lo, self.hi = lo, hi

    def __iter__(self):
        raise core.Undecided("loop over a symbolic range without a loop contract")

    def __pyvc_len__(self):
        return core.ite(core.SV.lift(self.hi) > self.lo, self.hi - self.lo, 0)


def _range(*a):
    vals = [core.concretize(x) if isinstance(x, core.SV) else x for x in a]
    if all(isinstance(v, int) for v in vals):
        return range(*vals)
    if len(a) == 1:
        return SymRange(0, a[0])
    if len(a) == 2:
        return SymRange(a[0], a[1])
    raise core.Undecided("symbolic range with step")


def _isinstance(x, cls):
    classes = cls if isinstance(cls, tuple) else (cls,)
    classes = tuple(getattr(c, "__pyvc_type__", c) for c in classes)
    cls = classes
    if isinstance(x, core.SV):
        for c in classes:
            if c is int and x.k in "ib":
                return True
            if c is float and x.k == "r":
                return True
            if c is bool and x.k == "b":
                return True
            if c is core.SV:
                return True
        return False
    return isinstance(x, cls)


def _print(*a, **k):
    return None


def _sum(it, start=0):
    t = start
    for x in it:
        t = t + x
    return t


def _bool(x=False):
    return bool(x)


_int.__pyvc_type__ = int
_float.__pyvc_type__ = float


def make_builtins():
    d = dict(builtins.__dict__)
    d.update(
        int=_int,
        float=_float,
        round=_round,
        abs=_abs,
        max=_minmax(True),
        min=_minmax(False),
        len=_len,
        range=_range,
        isinstance=_isinstance,
        print=_print,
        sum=_sum,
        open=misc_stubs.open_stub,
        __import__=_import,
    )
    return d


STUB_MODULES = {}


def _install_stubs():
    m = {}
    m["numpy"] = np_stub
    np_stub.ma = misc_stubs.ma
    m["numpy.ma"] = misc_stubs.ma
    m["pint"] = pint_stub
    m["pint.errors"] = pint_stub.errors
    m["numba"] = misc_stubs.numba
    m["struct"] = misc_stubs.struct
    m["math"] = misc_stubs.math
    m["glob"] = misc_stubs.glob
    for name in (
        "matplotlib",
        "matplotlib.pyplot",
        "matplotlib.colors",
        "matplotlib.collections",
        "matplotlib.cm",
        "matplotlib.ticker",
        "mpl_toolkits",
        "mpl_toolkits.axes_grid1",
        "scipy",
        "scipy.interpolate",
        "scipy.ndimage",
    ):
        m[name] = misc_stubs.Mock(name)
    for name in list(m):
        if "." in name:
            top, sub = name.split(".", 1)
            if isinstance(m[top], misc_stubs.Mock):
                setattr(m[top], sub, m[name])
    STUB_MODULES.update(m)


def _import(name, globals=None, locals=None, fromlist=(), level=0):
    if level == 0:
        top = name.split(".")[0]
        if top in STUB_MODULES:
            if fromlist:
                return STUB_MODULES[name]
            return STUB_MODULES[top]
    return importlib.__import__(name, globals, locals, fromlist, level)


# --------------------------------------------------------------------------------------
# AST rewriting of loops that have a loop contract
# --------------------------------------------------------------------------------------
class _LoopRewriter(ast.NodeTransformer):
    def __init__(self, modname):
        self.modname = modname
        self.stack = []
        self.ordinals = {}
        self.rewritten = []

    def visit_ClassDef(self, node):
        self.stack.append(node.name)
        self.generic_visit(node)
        self.stack.pop()
        return node

    def visit_FunctionDef(self, node):
        self.stack.append(node.name)
        q = ".".join(self.stack)
        self.ordinals[q] = 0
        self.generic_visit(node)
        self.stack.pop()
        return node

    def visit_For(self, node):
        q = ".".join(self.stack)
        k = self.ordinals.get(q, 0)
        self.ordinals[q] = k + 1
        key = (self.modname, q, k)
        self.generic_visit(node)  # inner loops first (they get later ordinals in source order)
        if key not in LOOP_CONTRACTS:
            return node
        self.rewritten.append(key)
        assigned = sorted(_assigned_names(node.body) - _assigned_names([ast.Expr(node.target)]) - set(_names_in(node.target)))
        lc = "__pyvc_lc_%d" % k
        src = []
        src.append("%s = __pyvc_loop__(%r)" % (lc, key))
        code = ast.parse("\n".join(src)).body
        # active branch
        tgt = ast.unparse(node.target)
        names_tuple = "(" + "".join("%r, " % n for n in assigned) + ")"
        active = ast.parse(
            "%s.enter(__ITER__, locals())\n" % lc
            + "%s = %s.index(locals())\n" % (tgt, lc)
            + (("(%s,) = %s.havoc(%s, locals())\n" % (", ".join(assigned), lc, names_tuple)) if assigned else
               "%s.havoc((), locals())\n" % lc)
            + "if %s.take_body():\n    pass\n    %s.step(locals())\nelse:\n    %s.exit(locals())\n" % (lc, lc, lc)
        ).body
        active[0].value.args[0] = node.iter
        body = [_ContinueRewriter(lc).visit(s) for s in node.body]
        ifnode = active[-1]
        ifnode.body = body + ifnode.body[1:]
        guard = ast.If(
            test=ast.parse("%s is None" % lc, mode="eval").body,
            body=[node],
            orelse=active,
        )
        out = code + [guard]
        for n in out:
            ast.copy_location(n, node)
            ast.fix_missing_locations(n)
        return out


class _ContinueRewriter(ast.NodeTransformer):
    def __init__(self, lc):
        self.lc = lc

    def visit_For(self, node):
        return node  # continue/break inside nested loops belong to them

    visit_While = visit_For
    visit_FunctionDef = visit_For

    def visit_Continue(self, node):
        return ast.copy_location(ast.parse("%s.step(locals())" % self.lc).body[0], node)

    def visit_Break(self, node):
        return ast.copy_location(ast.parse("%s.on_break(locals())" % self.lc).body[0], node)


def _names_in(t):
    return [n.id for n in ast.walk(t) if isinstance(n, ast.Name)]


def _assigned_names(stmts):
    out = set()
    for s in stmts:
        for n in ast.walk(s):
            if isinstance(n, ast.Name) and isinstance(n.ctx, ast.Store):
                out.add(n.id)
    return out


def _loop_hook(key):
    lc = LOOP_CONTRACTS.get(key)
    if lc is None or not lc.active():
        return None
    return lc.instance(key)


# --------------------------------------------------------------------------------------
# finder / loader
# --------------------------------------------------------------------------------------
class _Loader(importlib.abc.Loader):
    def __init__(self, path, is_pkg):
        self.path, self.is_pkg = path, is_pkg

    def create_module(self, spec):
        return None

    def exec_module(self, module):
        with open(self.path, "rb") as f:
            raw = f.read()
        FILE_SHA[os.path.relpath(self.path, SRC)] = hashlib.sha256(raw).hexdigest()
        tree = ast.parse(raw.decode("utf8"), filename=self.path)
        rw = _LoopRewriter(module.__name__)
        tree = rw.visit(tree)
        ast.fix_missing_locations(tree)
        module.__dict__["__builtins__"] = make_builtins()
        module.__dict__["__pyvc_loop__"] = _loop_hook
        module.__dict__["__pyvc_rewritten__"] = rw.rewritten
        code = compile(tree, self.path, "exec")
        exec(code, module.__dict__)


class _Finder(importlib.abc.MetaPathFinder):
    def find_spec(self, name, path=None, target=None):
        if name != "config_osyris" and name != "osyris" and not name.startswith("osyris."):
            return None
        p, is_pkg = source_path(name)
        if not os.path.exists(p):
            return None
        spec = importlib.machinery.ModuleSpec(name, _Loader(p, is_pkg), origin=p, is_package=is_pkg)
        if is_pkg:
            spec.submodule_search_locations = [os.path.dirname(p)]
        spec.has_location = True
        return spec


_installed = False


def install():
    """make `import osyris` load the working tree symbolically (once per process)"""
    global _installed
    if _installed:
        return
    if "osyris" in sys.modules:
        raise RuntimeError("the real osyris is already imported in this process")
    _install_stubs()
    sys.meta_path.insert(0, _Finder())
    import tempfile

    home = tempfile.mkdtemp(prefix="pyvc_home_")
    os.environ["HOME"] = home
    import atexit
    import shutil

    atexit.register(lambda: shutil.rmtree(home, ignore_errors=True))
    _installed = True


def load(modname="osyris"):
    install()
    return importlib.import_module(modname)


def function_source(modname, qualname):
    """(file, first line, last line, sha256 of the function text) for the evidence"""
    path, _ = source_path(modname)
    with open(path) as f:
        src = f.read()
    tree = ast.parse(src)
    parts = qualname.split(".")
    node = tree
    for part in parts:
        found = None
        for n in ast.walk(node) if node is tree else node.body:
            if isinstance(n, (ast.FunctionDef, ast.ClassDef)) and n.name == part:
                found = n
                break
        if found is None:
            return None
        node = found
    seg = ast.get_source_segment(src, node) or ""
    return {
        "file": os.path.relpath(path, SRC),
        "lines": [node.lineno, node.end_lineno],
        "sha256": hashlib.sha256(seg.encode()).hexdigest()[:16],
    }
