"""Loop contracts (inductive invariants) for `for` loops over symbolic ranges.

A loop with a registered contract is rewritten by loader._LoopRewriter into

    lc.enter(ITER, locals())             # prove the invariant at the first index
    TARGET = lc.index(locals())          # arbitrary index i with lo <= i <= hi
    (v1, ...) = lc.havoc(names, locals())   # arbitrary state satisfying the invariant at i
    if lc.take_body():                   # i < hi : one arbitrary iteration
        BODY
        lc.step(locals())                # prove the invariant at i+1, then cut the path
    else:                                # i == hi : continue after the loop with the invariant at hi
        lc.exit(locals())

Array invariants are given constructively: `arrays[name](env, i)` returns the element function the
array must have after i iterations (typically a ghost prefix function); "assume" is then an
assignment of that function to the buffer and "prove" a comparison at a Skolem index.
"""
import z3

from . import core
from .core import SV, CutPath, Undecided, prove
from .stubs import np as snp


class LoopContract:
    def __init__(self, name, arrays=None, scalars=None, mode="inductive"):
        self.name = name
        self.arrays = arrays or {}
        self.scalars = scalars  # (env, i) -> list of (clause name, bool)
        self.enabled = False
        self.mode = mode  # inductive | race
        self.race_log = None
        self.use_point = False   # choose ONE Skolem cell per array at havoc time; the step check and nested
        self.point = {}          # pointwise loops talk about that cell
        self.fixed_point = None  # race analysis: the cell is chosen by the unit (shared by both iterations)
        self.writes = []         # (buffer, inverse map) of writes inside nested pointwise loops

    def active(self):
        return self.enabled and core.active()

    def instance(self, key):
        return LoopInstance(self, key)

    def on(self, mode="inductive"):
        lc = self

        class _Ctx:
            def __enter__(self_):
                lc.enabled = True
                lc.mode = mode
                lc.race_log = []
                return lc

            def __exit__(self_, *a):
                lc.enabled = False
                return False

        return _Ctx()


class RaceIterationDone(Exception):
    """race mode: one arbitrary iteration was executed and its writes recorded"""


class LoopInstance:
    def __init__(self, contract, key):
        self.c = contract
        self.key = key
        self.lo = self.hi = self.i = None

    # -- helpers -----------------------------------------------------------------------
    def _bounds(self, it):
        from . import loader

        if isinstance(it, loader.SymRange):
            return it.lo, it.hi
        if isinstance(it, range):
            if it.step != 1:
                raise Undecided("loop contract on a range with a step")
            return it.start, it.stop
        raise Undecided("loop contract on a non-range iterable")

    def _check(self, tag, env, i):
        for name, fn in self.c.arrays.items():
            arr = env[name]
            want = fn(env, i)
            if name in self.c.point:
                idx = self.c.point[name]
            else:
                idx = tuple(core.fresh_int("%s_%s_k%d" % (self.c.name, tag, d), 0, register=False) for d in range(arr.ndim))
                for k, d in zip(idx, arr.shape):
                    core.assume(k < d)
            got = arr.elem(idx)
            prove("%s.%s.%s" % (self.c.name, tag, name), _eq(got, want(idx)))
        if self.c.scalars is not None:
            for cname, t in self.c.scalars(env, i):
                prove("%s.%s.%s" % (self.c.name, tag, cname), t)

    # -- protocol ----------------------------------------------------------------------
    def _choose_point(self, env):
        self.c.point = {}
        self.c.writes = []
        if self.c.use_point:
            for name in self.c.arrays:
                arr = env[name]
                if self.c.fixed_point and name in self.c.fixed_point:
                    self.c.point[name] = self.c.fixed_point[name]
                    continue
                idx = tuple(core.fresh_int("%s_cell_%s%d" % (self.c.name, name, d), 0, register=True) for d in range(arr.ndim))
                for k, d in zip(idx, arr.shape):
                    core.assume(k < d)
                self.c.point[name] = idx

    def enter(self, it, env):
        self.lo, self.hi = self._bounds(it)
        self._choose_point(env)
        if self.c.mode == "race":
            return
        core.assume(SV.lift(self.lo) <= SV.lift(self.hi))
        self._check("init", env, self.lo)

    def index(self, env):
        i = core.fresh_int("%s_i" % self.c.name, register=True)
        core.assume(i >= self.lo)
        if self.c.mode == "race":
            core.assume(i < self.hi)
        else:
            core.assume(i <= self.hi)
        self.i = i
        return i

    def havoc(self, names, env):
        i = self.i
        for name, fn in self.c.arrays.items():
            arr = env[name]
            if self.c.mode == "race":
                # arbitrary contents: the write footprint must not depend on them
                f = z3.Function(core.cur().fresh_name("havoc_" + name), *([z3.IntSort()] * max(1, arr.ndim)), z3.RealSort())
                arr.buf.write(lambda b, f=f: SV(f(*[core.term(SV.lift(x)) for x in b]), "r"))
            else:
                arr.buf.write(fn(env, i))
        if self.c.mode != "race" and self.c.scalars is not None:
            for cname, t in self.c.scalars(env, i):
                core.assume(t)
        out = []
        for n in names:
            old = env.get(n)
            if isinstance(old, SV):
                out.append(core.fresh(old.k, "%s_%s" % (self.c.name, n), register=False))
            else:
                out.append(old)
        if self.c.mode == "race":
            self._writes = []
            snp.WRITE_HOOK[0] = lambda buf, inv: self._writes.append((buf, inv))
        return tuple(out)

    def take_body(self):
        if self.c.mode == "race":
            return True
        return bool(self.i < self.hi)

    def step(self, env):
        if self.c.mode == "race":
            snp.WRITE_HOOK[0] = None
            self.c.race_log.append((self.i, list(self._writes), env))
            raise RaceIterationDone()
        self._check("preserved", env, self.i + 1)
        raise CutPath()

    def on_break(self, env):
        raise Undecided("break inside a loop with a contract")

    def exit(self, env):
        core.cover("%s.exit" % self.c.name)


class PointwiseContract:
    """Contract of a loop (nest) in which iteration v writes only cells whose coordinate along `axis` of `array` is v
    and reads nothing another iteration writes.  The final content of ONE cell P (the Skolem cell of the enclosing
    inductive contract `outer`) is then: the effect of the single iteration v = P[axis] if that lies in the loop's
    range, unchanged otherwise.  The loop is executed accordingly (at most one iteration, with the loop variable bound
    to P[axis]); the side conditions are obligations:  every write recorded in the body touches only cells with
    coordinate P[axis] along `axis`, and all other cells of the array are havocked first, so that an iteration reading
    what a different iteration writes cannot be verified."""

    def __init__(self, name, outer, array, axis, first=False, pixel_axes=()):
        self.name, self.outer, self.array, self.axis, self.first, self.pixel_axes = name, outer, array, axis, first, tuple(pixel_axes)

    def active(self):
        return self.outer.active()

    def instance(self, key):
        return PointwiseInstance(self, key)


class PointwiseInstance:
    def __init__(self, contract, key):
        self.c = contract
        self.key = key

    def _P(self):
        P = self.c.outer.point.get(self.c.array)
        if P is None:
            raise Undecided("pointwise loop without a Skolem cell of the enclosing contract")
        return P

    def enter(self, it, env):
        from . import loader

        if isinstance(it, loader.SymRange):
            self.lo, self.hi = it.lo, it.hi
        elif isinstance(it, range) and it.step == 1:
            self.lo, self.hi = it.start, it.stop
        else:
            raise Undecided("pointwise loop contract on a non-range iterable")
        if self.c.first:
            # every cell of the array other than P becomes arbitrary: only P is tracked through the nest
            arr = env[self.c.array]
            P = self._P()
            old = arr.buf.elem
            f = z3.Function(core.cur().fresh_name("other_cells_" + self.c.array), *([z3.IntSort()] * max(1, arr.ndim)), z3.RealSort())
            axes = self.c.pixel_axes

            def elem(b, old=old, f=f, P=P, axes=axes):
                same = SV.lift(True)
                for a in axes:
                    same = same & (SV.lift(b[a]) == SV.lift(P[a]))
                cs = core.concrete(same)
                if cs is True:
                    return old(b)
                if cs is False:
                    return SV(f(*[core.term(SV.lift(x)) for x in b]), "r")
                o = old(b)
                if isinstance(o, (snp.MaybeNaN, snp.NaN)):
                    o = snp.MaybeNaN.of(o)
                    return snp.MaybeNaN(core.ite(same, o.isnan, False), core.ite(same, o.val, SV(f(*[core.term(SV.lift(x)) for x in b]), "r")))
                return core.ite(same, o, SV(f(*[core.term(SV.lift(x)) for x in b]), "r"))

            arr.buf.write(elem)
            prev = self._prev_hook = snp.WRITE_HOOK[0]

            def hook(buf, inv, prev=prev):
                self.c.outer.writes.append((buf, inv))
                if prev is not None:
                    prev(buf, inv)

            snp.WRITE_HOOK[0] = hook

    def index(self, env):
        return self._P()[self.c.axis]

    def havoc(self, names, env):
        self.mark = len(self.c.outer.writes)
        return tuple(env.get(n) for n in names)

    def take_body(self):
        v = SV.lift(self._P()[self.c.axis])
        return bool((v >= SV.lift(self.lo)) & (v < SV.lift(self.hi)))

    def step(self, env):
        arr = env[self.c.array]
        P = self._P()
        for k, (buf, inv) in enumerate(self.c.outer.writes[self.mark:]):
            if buf is not arr.buf:
                raise Undecided("pointwise loop writes an array outside its contract")
            b = tuple(core.fresh_int("%s_w%d_%d" % (self.c.name, k, d), 0, register=False) for d in range(arr.ndim))
            ok, _ = inv(b)
            prove("%s.writes_only_own_cells[%d]" % (self.c.name, k), core.implies(ok, SV.lift(b[self.c.axis]) == SV.lift(P[self.c.axis])))
        self._leave()

    def _leave(self):
        if self.c.first:
            snp.WRITE_HOOK[0] = self._prev_hook

    def on_break(self, env):
        raise Undecided("break inside a loop with a contract")

    def exit(self, env):
        self._leave()


def _eq(a, b):
    if a is b:
        return True
    if isinstance(a, (snp.MaybeNaN, snp.NaN)) or isinstance(b, (snp.MaybeNaN, snp.NaN)):
        a, b = snp.MaybeNaN.of(a), snp.MaybeNaN.of(b)
        return SV(z3.And(core.bterm(a.isnan) == core.bterm(b.isnan),
                         z3.Or(core.bterm(a.isnan), core.term(a.val) == core.term(b.val))), "b")
    return a == b
