"""Loop contracts (inductive invariants) for `for` loops over symbolic ranges.

A loop with a registered contract is rewritten by loader._LoopRewriter into

    lc.enter(ITER, locals())             # prove the invariant at the first index
    TARGET = lc.index(locals())          # arbitrary index i with lo <= i <= hi
    (v1, ...) = lc.havoc(names, locals())   # arbitrary state satisfying the invariant at i
    if lc.take_body():                   # i < hi : one arbitrary iteration
        BODY
        lc.step(locals())                # prove the invariant at i+1, then cut the path
    else:                                # i == hi : continue after the loop with the invariant at hi
        lc.exit(locals())

Array invariants are given constructively: `arrays[name](env, i)` returns the element function the
array must have after i iterations (typically a ghost prefix function); "assume" is then an
assignment of that function to the buffer and "prove" a comparison at a Skolem index.
"""
import z3

from . import core
from .core import SV, CutPath, Undecided, prove
from .stubs import np as snp


class LoopContract:
    def __init__(self, name, arrays=None, scalars=None, mode="inductive"):
        self.name = name
        self.arrays = arrays or {}
        self.scalars = scalars  # (env, i) -> list of (clause name, bool)
        self.enabled = False
        self.mode = mode  # inductive | race
        self.race_log = None

    def active(self):
        return self.enabled and core.active()

    def instance(self, key):
        return LoopInstance(self, key)

    def on(self, mode="inductive"):
        lc = self

        class _Ctx:
            def __enter__(self_):
                lc.enabled = True
                lc.mode = mode
                lc.race_log = []
                return lc

            def __exit__(self_, *a):
                lc.enabled = False
                return False

        return _Ctx()


class RaceIterationDone(Exception):
    """race mode: one arbitrary iteration was executed and its writes recorded"""


class LoopInstance:
    def __init__(self, contract, key):
        self.c = contract
        self.key = key
        self.lo = self.hi = self.i = None

    # -- helpers -----------------------------------------------------------------------
    def _bounds(self, it):
        from . import loader

        if isinstance(it, loader.SymRange):
            return it.lo, it.hi
        if isinstance(it, range):
            if it.step != 1:
                raise Undecided("loop contract on a range with a step")
            return it.start, it.stop
        raise Undecided("loop contract on a non-range iterable")

    def _check(self, tag, env, i):
        for name, fn in self.c.arrays.items():
            arr = env[name]
            want = fn(env, i)
            idx = tuple(core.fresh_int("%s_%s_k%d" % (self.c.name, tag, d), 0, register=False) for d in range(arr.ndim))
            for k, d in zip(idx, arr.shape):
                core.assume(k < d)
            got = arr.elem(idx)
            prove("%s.%s.%s" % (self.c.name, tag, name), _eq(got, want(idx)))
        if self.c.scalars is not None:
            for cname, t in self.c.scalars(env, i):
                prove("%s.%s.%s" % (self.c.name, tag, cname), t)

    # -- protocol ----------------------------------------------------------------------
    def enter(self, it, env):
        self.lo, self.hi = self._bounds(it)
        if self.c.mode == "race":
            return
        core.assume(SV.lift(self.lo) <= SV.lift(self.hi))
        self._check("init", env, self.lo)

    def index(self, env):
        i = core.fresh_int("%s_i" % self.c.name, register=True)
        core.assume(i >= self.lo)
        if self.c.mode == "race":
            core.assume(i < self.hi)
        else:
            core.assume(i <= self.hi)
        self.i = i
        return i

    def havoc(self, names, env):
        i = self.i
        for name, fn in self.c.arrays.items():
            arr = env[name]
            if self.c.mode == "race":
                # arbitrary contents: the write footprint must not depend on them
                f = z3.Function(core.cur().fresh_name("havoc_" + name), *([z3.IntSort()] * max(1, arr.ndim)), z3.RealSort())
                arr.buf.write(lambda b, f=f: SV(f(*[core.term(SV.lift(x)) for x in b]), "r"))
            else:
                arr.buf.write(fn(env, i))
        if self.c.mode != "race" and self.c.scalars is not None:
            for cname, t in self.c.scalars(env, i):
                core.assume(t)
        out = []
        for n in names:
            old = env.get(n)
            if isinstance(old, SV):
                out.append(core.fresh(old.k, "%s_%s" % (self.c.name, n), register=False))
            else:
                out.append(old)
        if self.c.mode == "race":
            self._writes = []
            snp.WRITE_HOOK[0] = lambda buf, inv: self._writes.append((buf, inv))
        return tuple(out)

    def take_body(self):
        if self.c.mode == "race":
            return True
        return bool(self.i < self.hi)

    def step(self, env):
        if self.c.mode == "race":
            snp.WRITE_HOOK[0] = None
            self.c.race_log.append((self.i, list(self._writes), env))
            raise RaceIterationDone()
        self._check("preserved", env, self.i + 1)
        raise CutPath()

    def on_break(self, env):
        raise Undecided("break inside a loop with a contract")

    def exit(self, env):
        core.cover("%s.exit" % self.c.name)


def _eq(a, b):
    if a is b:
        return True
    if isinstance(a, (snp.MaybeNaN, snp.NaN)) or isinstance(b, (snp.MaybeNaN, snp.NaN)):
        a, b = snp.MaybeNaN.of(a), snp.MaybeNaN.of(b)
        return SV(z3.And(core.bterm(a.isnan) == core.bterm(b.isnan),
                         z3.Or(core.bterm(a.isnan), core.term(a.val) == core.term(b.val))), "b")
    return a == b
