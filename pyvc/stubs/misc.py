"""Assumed contracts of struct, numba, math, glob, file reading, numpy.ma; permissive mock for
matplotlib (its results never feed the data path that the contracts talk about)."""
import math as _math

import z3

from .. import core
from ..core import SV, Undecided, concrete, cur
from . import np as np_stub


# --------------------------------------------------------------------------------------
# files and struct
# --------------------------------------------------------------------------------------
BYTE_SIZE = {"b": 1, "h": 2, "i": 4, "q": 8, "f": 4, "d": 8, "s": 1, "l": 8}
_DEC_REAL = z3.Function("decode_real", z3.IntSort(), z3.IntSort(), z3.IntSort(), z3.RealSort())
_DEC_INT = z3.Function("decode_int", z3.IntSort(), z3.IntSort(), z3.IntSort(), z3.IntSort())
_TCODE = {c: i for i, c in enumerate("bhiqfdsl")}


def decode(fileid, typechar, pos):
    """ghost: the value of type `typechar` stored at byte `pos` of file `fileid`"""
    pos = SV.lift(pos)
    if typechar in "fd":
        return SV(_DEC_REAL(z3.IntVal(fileid), z3.IntVal(_TCODE[typechar]), pos.t), "r")
    return SV(_DEC_INT(z3.IntVal(fileid), z3.IntVal(_TCODE[typechar]), pos.t), "i")


class SymBytes:
    """content of a binary file: arbitrary bytes, observed only through `decode`"""

    _n = 0

    def __init__(self, label, fileid=None):
        if fileid is None:
            SymBytes._n += 1
            fileid = SymBytes._n
        self.fileid = fileid
        self.label = label
        self.reads = []  # (typechar, count, pos) of every unpack, for position obligations

    def __getitem__(self, sl):
        if not isinstance(sl, slice) or sl.step is not None:
            raise Undecided("byte access other than content[a:b]")
        return BytesSlice(self, sl.start or 0, sl.stop)


class BytesSlice:
    def __init__(self, base, start, stop):
        self.base, self.start, self.stop = base, start, stop


def parse_fmt(fmt):
    """(count, typechar) of a struct format made by  "{}{}".format(n, t)  or a literal"""
    if not isinstance(fmt, str) or not fmt:
        raise Undecided("struct format %r" % (fmt,))
    t = fmt[-1]
    head = fmt[:-1]
    if head == "":
        return 1, t
    if core.has_token(head):
        v = core.token_value(head)
        if v is None:
            raise Undecided("struct format %r" % (fmt,))
        return v, t
    return int(head), t


class struct:
    error = type("error", (Exception,), {})

    @staticmethod
    def unpack(fmt, data):
        count, t = parse_fmt(fmt)
        if t not in BYTE_SIZE:
            raise struct.error("bad char in struct format")
        if not isinstance(data, BytesSlice):
            raise Undecided("struct.unpack on %r" % (type(data),))
        size = BYTE_SIZE[t]
        # struct.unpack requires a buffer of exactly calcsize(fmt) bytes
        ln = SV.lift(data.stop) - data.start
        if not bool(ln == SV.lift(count) * size):
            raise struct.error("unpack requires a buffer of %s bytes" % (count,))
        base, start = data.base, data.start
        base.reads.append((t, count, start))
        code = {"b": "int8", "h": "int16", "i": "int32", "q": "int64", "l": "int64", "f": "float32",
                "d": "float64", "s": "int8"}[t]
        c = concrete(count)
        n = c if isinstance(c, int) else count
        seq = np_stub.SymSeq(n, lambda k: decode(base.fileid, t, start + SV.lift(k) * size), code)
        if isinstance(n, int):
            return tuple(seq.elem(k) for k in range(n))
        return seq

    @staticmethod
    def calcsize(fmt):
        count, t = parse_fmt(fmt)
        return count * BYTE_SIZE[t]


FILES = {"open": None, "loadtxt": None, "exists": None}  # contracts install callables modelling the file system


class _File:
    def __init__(self, content):
        self.content = content

    def __enter__(self):
        return self

    def __exit__(self, *a):
        return False

    def read(self):
        return self.content

    def readlines(self):
        return self.content

    def readline(self):
        return self.content.pop(0)


def open_stub(name, mode="r", **kw):
    f = FILES["open"]
    if f is None:
        raise Undecided("open(%r) without a file model" % (name,))
    return _File(f(name, mode))


# --------------------------------------------------------------------------------------
# numba, math, glob
# --------------------------------------------------------------------------------------
class numba:
    @staticmethod
    def njit(*a, **k):
        if len(a) == 1 and callable(a[0]) and not k:
            return a[0]
        return lambda f: f

    jit = njit

    @staticmethod
    def prange(*a):
        from .. import loader

        return loader._range(*a)

    @staticmethod
    def get_num_threads():
        # some positive number of threads: nothing else is known to the contracts
        if core.active():
            return core.fresh_int("numba_threads", 1, register=True)
        return 4

    @staticmethod
    def set_num_threads(n):
        return None

    class config:
        NUMBA_NUM_THREADS = 16


class math:
    pi = _math.pi
    e = _math.e
    inf = _math.inf
    nan = _math.nan

    @staticmethod
    def sqrt(x):
        if isinstance(x, SV):
            return core.sqrt(x)
        return _math.sqrt(x)

    @staticmethod
    def floor(x):
        if isinstance(x, SV):
            return core.floor(x)
        return _math.floor(x)

    @staticmethod
    def log10(x):
        if isinstance(x, SV):
            return np_stub._log10f(x)
        return _math.log10(x)


class glob:
    @staticmethod
    def glob(pattern):
        raise Undecided("glob (nout=-1 is covered by the bounded check only)")


# --------------------------------------------------------------------------------------
# numpy.ma
# --------------------------------------------------------------------------------------
class MaskedArray:
    def __init__(self, data, mask):
        self.data, self.mask = data, mask
        self.shape = data.shape
        self.dtype = data.dtype

    def filled(self, fill):
        return np_stub.where(self.mask, fill, self.data)


class ma:
    MaskedArray = MaskedArray

    @staticmethod
    def masked_where(mask, a, copy=True):
        return MaskedArray(a, mask)


np_stub.ma = ma


# --------------------------------------------------------------------------------------
MOCK_CALLS = []  # (dotted name, args, kwargs) of every call into a mocked library (matplotlib)


class Mock:
    """matplotlib & co.: every attribute and call yields another Mock; calls are logged"""

    def __init__(self, name="mock"):
        object.__setattr__(self, "_name", name)

    def __getattr__(self, k):
        if k.startswith("__") and k.endswith("__"):
            raise AttributeError(k)
        m = Mock(self._name + "." + k)
        object.__setattr__(self, k, m)
        return m

    def __call__(self, *a, **k):
        MOCK_CALLS.append((self._name, a, k))
        return Mock(self._name + "()")

    def __iter__(self):
        n = 2 if self._name.endswith(("subplots()", "get_xlim()", "get_ylim()")) else 3
        return iter(tuple(Mock("%s[%d]" % (self._name, i)) for i in range(n)))

    def __getitem__(self, k):
        return Mock(self._name + "[]")

    def __setitem__(self, k, v):
        pass

    def __repr__(self):
        return "<Mock %s>" % self._name

    def __mro_entries__(self, bases):
        return (object,)


class StrTable:
    """result of np.loadtxt(dtype=str): a 2-D table of strings (descriptor files)"""

    def __init__(self, rows):
        self.rows = [list(r) for r in rows]

    def __len__(self):
        return len(self.rows)

    def __getitem__(self, key):
        i, j = key
        return self.rows[i][j]


def loadtxt(fname, dtype=float, delimiter=None, skiprows=0, **kw):
    f = FILES["loadtxt"]
    if f is None:
        raise Undecided("np.loadtxt(%r) without a file model" % (fname,))
    return f(fname, dtype, delimiter, skiprows)


np_stub.loadtxt = loadtxt


class _ospath:
    pass
