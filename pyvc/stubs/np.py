"""Assumed contract of numpy, as an executable stub over symbolic values.

This module *is* the trusted statement of what numpy does for the calls osyris makes; it is
cross-checked against the real numpy on concrete inputs by checks/crosscheck.py on every run.
Arrays are (buffer, shape, index map); element values are functions of a (symbolic) index so
that element-wise code composes without quantifiers.  Floats are reals, integer dtypes are
mathematical integers (no wrap-around).
"""
import builtins
import itertools
import math as _math

import z3

from .. import core
from ..core import SV, Undecided, concrete, cur, ite

nan = float("nan")
inf = float("inf")
pi = _math.pi
newaxis = None

_py_int, _py_float, _py_bool, _py_len, _py_abs = int, float, bool, len, abs
_py_isinstance, _py_range, _py_max, _py_min, _py_sum, _py_all, _py_any = (
    isinstance,
    range,
    max,
    min,
    sum,
    all,
    any,
)


class NaN:
    """Tag for a NaN element (map buffer fill value).  Any arithmetic on it is NaN."""

    _inst = None

    def __new__(cls):
        if cls._inst is None:
            cls._inst = object.__new__(cls)
        return cls._inst

    def __repr__(self):
        return "NaN"


NAN = NaN()

# --------------------------------------------------------------------------------------
# dtypes
# --------------------------------------------------------------------------------------
CODES = [
    "bool",
    "int8",
    "int16",
    "int32",
    "int64",
    "uint8",
    "uint16",
    "uint32",
    "uint64",
    "float16",
    "float32",
    "float64",
]
CODE = {c: i for i, c in enumerate(CODES)}
_STRUCT_CHARS = {"b": "int8", "h": "int16", "i": "int32", "q": "int64", "l": "int64",
                 "f": "float32", "d": "float64", "e": "float16", "?": "bool"}


class _ScalarType:
    def __init__(self, code):
        self.code = code
        self.__name__ = code

    def __call__(self, v=0):
        return v

    def __repr__(self):
        return "np." + self.code

    def __hash__(self):
        return hash(("np", self.code))

    def __eq__(self, o):
        return _py_isinstance(o, _ScalarType) and o.code == self.code


float64 = _ScalarType("float64")
float32 = _ScalarType("float32")
float16 = _ScalarType("float16")
int64 = _ScalarType("int64")
int32 = _ScalarType("int32")
int16 = _ScalarType("int16")
int8 = _ScalarType("int8")
uint8 = _ScalarType("uint8")
bool_ = _ScalarType("bool")


def _code_of(x):
    """dtype-like -> concrete code string, or SV for a symbolic dtype"""
    x = getattr(x, "__pyvc_type__", x)
    if _py_isinstance(x, dtype):
        return x.code
    if x is _py_float or x is float:
        return "float64"
    if x is _py_int or x is int:
        return "int64"
    if x is _py_bool or x is bool:
        return "bool"
    if _py_isinstance(x, _ScalarType):
        return x.code
    if _py_isinstance(x, str):
        if x in CODE:
            return x
        if x in _STRUCT_CHARS:
            return _STRUCT_CHARS[x]
        if x in ("float", "double"):
            return "float64"
        if x == "int":
            return "int64"
        if x == "str" or x.startswith("<U") or x == "U":
            return "str"
    if x is str:
        return "str"
    return None


class dtype:
    def __init__(self, code):
        c = code if _py_isinstance(code, SV) else _code_of(code)
        if c is None:
            raise TypeError("data type %r not understood" % (code,))
        self.code = c

    @property
    def symbolic(self):
        return _py_isinstance(self.code, SV)

    def idx(self):
        return self.code if self.symbolic else SV.lift(CODE[self.code])

    def __repr__(self):
        return "dtype(%s)" % (self.code,)

    def __hash__(self):
        if self.symbolic:
            raise TypeError("symbolic dtype unhashable")
        return hash(self.code)

    def __eq__(self, o):
        oc = _code_of(o)
        if oc is None:
            return False
        if not self.symbolic and not _py_isinstance(oc, SV):
            return self.code == oc
        if oc == "str":
            return False
        a = self.idx()
        b = oc if _py_isinstance(oc, SV) else SV.lift(CODE[oc])
        return a == b

    def __ne__(self, o):
        r = self.__eq__(o)
        return (not r) if _py_isinstance(r, bool) else ~r

    @property
    def kind(self):
        if self.symbolic:
            # a one-character str cannot be symbolic (`kind in "if"` is str.__contains__): fork over the four kinds
            if _py_bool(SV.lift(self.code) == CODE["bool"]):
                return "b"
            if _py_bool(SV.lift(self.code) >= CODE["float16"]):
                return "f"
            if _py_bool(SV.lift(self.code) >= CODE["uint8"]):
                return "u"
            return "i"
        c = self.code
        return "b" if c == "bool" else "i" if c.startswith("int") else "u" if c.startswith("uint") else "f"

    @property
    def name(self):
        if self.symbolic:
            raise Undecided("name of symbolic dtype")
        return self.code

    @property
    def itemsize(self):
        if self.symbolic:
            t = _ITEMSIZE(core.term(self.code))
            cur().add(z3.And(t >= 1, t <= 8)) if core.active() else None
            return SV(t, "i")
        return {"bool": 1, "int8": 1, "int16": 2, "int32": 4, "int64": 8, "uint8": 1, "uint16": 2,
                "uint32": 4, "uint64": 8, "float16": 2, "float32": 4, "float64": 8}[self.code]

    # classification as terms / bools
    def is_float(self):
        if self.symbolic:
            return self.code >= CODE["float16"]
        return self.code.startswith("float")

    def is_bool(self):
        if self.symbolic:
            return self.code == CODE["bool"]
        return self.code == "bool"

    def is_numeric(self):
        r = self.is_bool()
        return (not r) if _py_isinstance(r, bool) else ~r


_dtype_cls = dtype
_ITEMSIZE = z3.Function("np_itemsize", z3.IntSort(), z3.IntSort())


class _AbstractType:
    def __init__(self, name):
        self.__name__ = name


number = _AbstractType("number")
integer = _AbstractType("integer")
floating = _AbstractType("floating")


def issubdtype(dt, kind):
    dt = dt if _py_isinstance(dt, _dtype_cls) else _dtype_cls(dt)
    if kind is number:
        return dt.is_numeric()
    if kind is floating:
        return dt.is_float()
    if kind is integer:
        f, b = dt.is_float(), dt.is_bool()
        if _py_isinstance(f, bool) and _py_isinstance(b, bool):
            return not f and not b
        return ~SV.lift(f) & ~SV.lift(b)
    kc = _code_of(kind)
    if kc is not None:
        return dt == kind
    raise Undecided("issubdtype(%r)" % (kind,))


def sym_dtype(name="dt", numeric=True):
    c = core.fresh_int(name, 1 if numeric else 0, _py_len(CODES) - 1)
    return dtype(c)


def _float_result(dt):
    """dtype of true_divide/sqrt/...: float kinds keep, everything else float64"""
    if dt.symbolic:
        return dtype(ite(dt.is_float(), dt.code, CODE["float64"]))
    return dt if dt.is_float() else dtype("float64")


def _promote(a, b):
    """numpy promotion for two array dtypes (concrete table; symbolic only when identical)"""
    if a is b:
        return a
    if not a.symbolic and not b.symbolic:
        if a.code == b.code:
            return a
        order = ["bool", "uint8", "int8", "uint16", "int16", "uint32", "int32", "uint64", "int64",
                 "float16", "float32", "float64"]
        fa, fb = a.is_float(), b.is_float()
        if fa and fb:
            return a if order.index(a.code) >= order.index(b.code) else b
        if fa or fb:
            f, i = (a, b) if fa else (b, a)
            isz = i.itemsize
            need = "float64" if isz >= 4 else ("float32" if isz >= 2 else "float16")
            return f if order.index(f.code) >= order.index(need) else dtype(need)
        # both integer/bool: same signedness -> larger; mixed -> next signed that holds both
        if a.code == "bool":
            return b
        if b.code == "bool":
            return a
        ua, ub = a.code.startswith("u"), b.code.startswith("u")
        if ua == ub:
            return a if a.itemsize >= b.itemsize else b
        u, s = (a, b) if ua else (b, a)
        if s.itemsize > u.itemsize:
            return s
        nxt = {1: "int16", 2: "int32", 4: "int64", 8: "float64"}[u.itemsize]
        return dtype(nxt)
    if a.symbolic and b.symbolic and a.code is b.code:
        return a
    # symbolic vs other: numpy's promotion table as an uninterpreted function of the two codes;
    # all the contract uses is that promoting numeric dtypes gives a numeric dtype
    ta, tb = core.term(a.idx()), core.term(b.idx())
    t = _PROMOTE(ta, tb)
    p = cur()
    key = ("promote", core.tid(ta), core.tid(tb))
    if key not in p.counter:
        p.counter[key] = 1
        p.add(z3.Implies(z3.And(ta >= 1, tb >= 1), z3.And(t >= 1, t <= _py_len(CODES) - 1)))
        p.add(z3.And(t >= 0, t <= _py_len(CODES) - 1))
        p.add(z3.Implies(ta == tb, t == ta))
        p.add(z3.Implies(z3.Or(ta >= CODE["float16"], tb >= CODE["float16"]), t >= CODE["float16"]))
    return dtype(SV(t, "i"))


_PROMOTE = z3.Function("np_promote", z3.IntSort(), z3.IntSort(), z3.IntSort())


def _weak_scalar_dtype(v, arr_dt):
    """NEP 50: a Python scalar adapts to the array's dtype when its kind fits"""
    if _py_isinstance(v, bool) or (_py_isinstance(v, SV) and v.k == "b"):
        return arr_dt
    is_int = _py_isinstance(v, int) or (_py_isinstance(v, SV) and v.k == "i")
    if is_int:
        if arr_dt.symbolic:
            return dtype(ite(arr_dt.is_bool(), CODE["int64"], arr_dt.code))
        return dtype("int64") if arr_dt.code == "bool" else arr_dt
    # python float
    if arr_dt.symbolic:
        return _float_result(arr_dt)
    return arr_dt if arr_dt.is_float() else dtype("float64")


def _scalar_dtype(v):
    if _py_isinstance(v, SV) and v.dt is not None:
        return v.dt
    if _py_isinstance(v, bool) or (_py_isinstance(v, SV) and v.k == "b"):
        return dtype("bool")
    if _py_isinstance(v, int) or (_py_isinstance(v, SV) and v.k == "i"):
        return dtype("int64")
    return dtype("float64")


# --------------------------------------------------------------------------------------
# buffers and arrays
# --------------------------------------------------------------------------------------
_alloc = itertools.count(1)


def alloc_mark():
    """allocation stamp: buffers created later compare greater"""
    return next(_alloc)


class Buffer:
    def __init__(self, elem, shape):
        self.elem = elem
        self.shape = shape
        self.stamp = next(_alloc)
        self.version = 0

    def write(self, new_elem):
        self.elem = new_elem
        self.version += 1


def _is_scalar(x):
    return _py_isinstance(x, (int, float, bool, SV, NaN, complex)) and not _py_isinstance(x, ndarray)


def _shape_eq_term(a, b):
    """z3 term: shapes equal (same rank assumed checked)"""
    ts = []
    for x, y in zip(a, b):
        r = SV.lift(x) == SV.lift(y)
        ts.append(core.bterm(r))
    return z3.And(*ts) if ts else z3.BoolVal(True)


class ndarray:
    __array_priority__ = 0

    def __init__(self, buf, shape, imap, dt, inv=None):
        self.buf = buf
        self._shape = tuple(shape)
        self.imap = imap  # own idx tuple -> base idx tuple
        self.inv = inv  # base idx tuple -> (in_region term(bool SV/py), own idx tuple) or None
        self.dtype = dt if _py_isinstance(dt, dtype) else dtype(dt)

    # ---- construction helpers --------------------------------------------------------
    @staticmethod
    def from_elem(elem, shape, dt):
        shape = tuple(shape)
        buf = Buffer(elem, shape)
        return ndarray(buf, shape, lambda idx: idx, dt, inv=lambda b: (True, b))

    def elem(self, idx):
        return self.buf.elem(self.imap(tuple(idx)))

    def snapshot(self):
        """element function frozen at the current buffer contents"""
        e, m = self.buf.elem, self.imap
        return lambda idx: e(m(tuple(idx)))

    @property
    def shape(self):
        return self._shape

    @property
    def ndim(self):
        return _py_len(self._shape)

    @property
    def size(self):
        n = 1
        for s in self._shape:
            n = n * s
        return n

    @property
    def nbytes(self):
        return self.size * self.dtype.itemsize

    @property
    def T(self):
        nd = self.ndim
        sh = tuple(reversed(self._shape))
        m, inv = self.imap, self.inv
        return ndarray(
            self.buf, sh, lambda idx: m(tuple(reversed(idx))), self.dtype,
            inv=(lambda b: (lambda r: (r[0], tuple(reversed(r[1]))))(inv(b))) if inv else None,
        )

    def __pyvc_len__(self):
        if not self._shape:
            raise TypeError("len() of unsized object")
        return self._shape[0]

    def _pyvc_scalar(self):
        """a 0-d array used where a number is expected"""
        if self._shape == ():
            return self.elem(())
        return None

    def __len__(self):
        n = self.__pyvc_len__()
        c = concrete(n)
        if _py_isinstance(c, int):
            return c
        raise Undecided("len() of an array with symbolic length reached native code")

    def __iter__(self):
        n = concrete(self.__pyvc_len__())
        if not _py_isinstance(n, int):
            raise Undecided("iteration over array of symbolic length")
        return (self[i] for i in _py_range(n))

    def __bool__(self):
        if self.size == 1 or self._shape == ():
            return _py_bool(self.elem((0,) * self.ndim))
        raise ValueError("The truth value of an array with more than one element is ambiguous.")

    def __repr__(self):
        return "ndarray<shape=%s dtype=%s>" % (self._shape, self.dtype)

    def __hash__(self):
        return id(self)

    # ---- copies / views --------------------------------------------------------------
    def copy(self):
        return ndarray.from_elem(self.snapshot(), self._shape, self.dtype)

    def astype(self, dt, copy=True):
        dt = dt if _py_isinstance(dt, dtype) else dtype(dt)
        e = self.snapshot()
        if not dt.symbolic and dt.code == "bool":
            out = ndarray.from_elem(lambda idx: _to_bool(e(idx)), self._shape, dt)
            if ASTYPE_BOOL_LOG[0] is not None:
                ASTYPE_BOOL_LOG[0].append(out)
            return out
        if not dt.symbolic and not dt.is_float() and (self.dtype.symbolic or self.dtype.is_float()):
            return ndarray.from_elem(lambda idx: _trunc(e(idx)), self._shape, dt)
        if not self.dtype.symbolic and self.dtype.code == "bool":
            return ndarray.from_elem(lambda idx: _to_num(e(idx)), self._shape, dt)
        return ndarray.from_elem(e, self._shape, dt)

    def ravel(self):
        return self.reshape(-1)

    def flatten(self):
        return self.reshape(-1)

    def reshape(self, *shape, order="C"):
        if _py_len(shape) == 1 and _py_isinstance(shape[0], (tuple, list)):
            shape = tuple(shape[0])
        shape = list(shape)
        total = self.size
        if -1 in [s for s in shape if _py_isinstance(s, int)]:
            k = shape.index(-1)
            rest = 1
            for j, s in enumerate(shape):
                if j != k:
                    rest = rest * s
            if _py_isinstance(rest, int) and rest == 1:
                shape[k] = total
            else:
                ct, cr = concrete(total), concrete(rest)
                if _py_isinstance(ct, int) and _py_isinstance(cr, int):
                    shape[k] = ct // cr
                else:
                    raise Undecided("reshape -1 with symbolic extents")
        shape = tuple(shape)
        if shape == self._shape:
            return ndarray(self.buf, self._shape, self.imap, self.dtype, self.inv)
        old_shape = self._shape
        e = self.snapshot()
        if order == "F":
            return ndarray.from_elem(
                lambda idx: e(_unflatten_f(_flatten_f(idx, shape), old_shape)), shape, self.dtype
            )
        # inserting / dropping unit axes (x.reshape(x.shape + (1,))): indices map one to one
        plan = _unit_axes_plan(old_shape, shape)
        if plan is not None and order == "C":
            return ndarray.from_elem(lambda idx: e(tuple((idx[k] if k is not None else 0) for k in plan)), shape, self.dtype)
        return ndarray.from_elem(
            lambda idx: e(_unflatten(_flatten(idx, shape), old_shape)), shape, self.dtype
        )

    def filled(self, fill):
        return self

    def take(self, inds):
        return self[inds]

    def min(self, axis=None):
        return amin(self, axis=axis)

    def max(self, axis=None):
        return amax(self, axis=axis)

    def sum(self, axis=None):
        return sum(self, axis=axis)

    def any(self):
        return any(self)

    def all(self):
        return all(self)

    def tolist(self):
        return list(self)

    def __array__(self):
        return self

    # ---- indexing --------------------------------------------------------------------
    def _basic_view(self, key):
        """basic indexing -> view sharing the buffer"""
        if not _py_isinstance(key, tuple):
            key = (key,)
        if builtins.any(k is Ellipsis for k in key):
            n_real = builtins.sum(1 for k in key if k is not Ellipsis and k is not None)
            fill = (slice(None),) * (self.ndim - n_real)
            i = [j for j, k in enumerate(key) if k is Ellipsis][0]
            key = key[:i] + fill + key[i + 1:]
        n_real = builtins.sum(1 for k in key if k is not None)
        key = key + (slice(None),) * (self.ndim - n_real)
        new_shape = []
        plan = []  # per own-old axis: ('fix', v) | ('sl', start, step, newaxis_index)
        inserts = []  # positions of new unit axes in the new index
        ax = 0
        for k in key:
            if k is None:
                inserts.append(_py_len(new_shape))
                new_shape.append(1)
                continue
            n = self._shape[ax]
            if _py_isinstance(k, slice):
                start, stop, step = k.start, k.stop, k.step
                step = 1 if step is None else step
                if _py_isinstance(step, SV) or step == 0:
                    raise Undecided("symbolic slice step")
                if step == 1 and (start is None or (_py_isinstance(start, int) and start == 0)) and stop is None:
                    # full axis: same extent, identity map, no region guard needed
                    plan.append(("full", 0, 1, _py_len(new_shape)))
                    new_shape.append(n)
                    ax += 1
                    continue
                if step > 0:
                    start = 0 if start is None else _norm_bound(start, n)
                    stop = n if stop is None else _norm_bound(stop, n)
                    ln = _ceil_div_len(stop - start, step)
                else:
                    cn = concrete(n)
                    if not _py_isinstance(cn, int):
                        raise Undecided("negative step on symbolic extent")
                    rng = _py_range(cn)[k]
                    start, ln = (rng.start if _py_len(rng) else 0), _py_len(rng)
                plan.append(("sl", start, step, _py_len(new_shape)))
                new_shape.append(ln)
            else:
                if _py_isinstance(k, ndarray):
                    if k.ndim == 0:
                        k = k.elem(())
                    else:
                        raise Undecided("mixed basic/advanced index")
                if _py_isinstance(k, int) and not _py_isinstance(k, bool):
                    if k < 0:
                        k = k + n
                elif _py_isinstance(k, SV):
                    k = ite(k < 0, k + n, k) if concrete(k) is None else (
                        concrete(k) + n if concrete(k) < 0 else concrete(k))
                else:
                    raise IndexError("unsupported index %r" % (k,))
                _bounds(k, n)
                plan.append(("fix", k))
            ax += 1
        m_old, inv_old = self.imap, self.inv

        def imap(idx, plan=plan):
            base = []
            for p in plan:
                if p[0] == "fix":
                    base.append(p[1])
                elif p[0] == "full":
                    base.append(idx[p[3]])
                else:
                    base.append(p[1] + idx[p[3]] * p[2] if p[2] != 1 else p[1] + idx[p[3]])
            return m_old(tuple(base))

        nshape = tuple(new_shape)

        def inv(b, plan=plan, nshape=nshape):
            if inv_old is None:
                return None
            ok, own_old = inv_old(b)
            conds = [ok]
            new_idx = [0] * _py_len(nshape)
            for p, o in zip(plan, own_old):
                if p[0] == "fix":
                    conds.append(o == p[1])
                elif p[0] == "full":
                    new_idx[p[3]] = o
                else:
                    if p[2] != 1:
                        raise Undecided("write through a strided view")
                    j = o - p[1]
                    conds.append(j >= 0)
                    conds.append(j < nshape[p[3]])
                    new_idx[p[3]] = j
            return (_and(conds), tuple(new_idx))

        return ndarray(self.buf, nshape, imap, self.dtype, inv if inv_old is not None else None)

    def __getitem__(self, key):
        if _py_isinstance(key, (list,)):
            key = array(key)
        if _py_isinstance(key, ndarray):
            if key.ndim == 0 and not (not key.dtype.symbolic and key.dtype.code == "bool"):
                key = key.elem(())
            else:
                return self._fancy(key)
        if _py_isinstance(key, tuple) and builtins.any(_py_isinstance(k, ndarray) and k.ndim > 0 for k in key):
            raise Undecided("advanced indexing inside a tuple")
        v = self._basic_view(key)
        if v.ndim == 0 and not _index_keeps_array(key):
            return _np_scalar(v.elem(()), self.dtype)
        return v

    def _fancy(self, key):
        kd = key.dtype
        if not kd.symbolic and kd.code == "bool":
            if key.ndim != 1 or self.ndim < 1:
                # full-shape boolean mask on an n-d array flattens
                if key.ndim == self.ndim:
                    count, sel = _rowmap(key)
                    e = self.snapshot()
                    sh = key._shape
                    return ndarray.from_elem(
                        lambda idx: e(_unflatten((sel(idx[0]),), sh)), (count,), self.dtype)
                raise Undecided("boolean mask of different rank")
            count, sel = _rowmap(key)
            e = self.snapshot()
            r = ndarray.from_elem(lambda idx: e((sel(idx[0]),) + tuple(idx[1:])),
                                  (count,) + self._shape[1:], self.dtype)
            r.nonneg = getattr(self, "nonneg", False)
            return r
        if kd.symbolic:
            raise Undecided("index array of symbolic dtype")
        if kd.is_float():
            raise IndexError("arrays used as indices must be of integer (or boolean) type")
        e = self.snapshot()
        ke = key.snapshot()
        n = self._shape[0]
        kn = key.ndim

        key_nonneg = getattr(key, "nonneg", False)

        def el(idx):
            j = ke(tuple(idx[:kn]))
            if not key_nonneg:
                j = _wrap_neg(j, n)
            return e((j,) + tuple(idx[kn:]))

        r = ndarray.from_elem(el, key._shape + self._shape[1:], self.dtype)
        r.nonneg = getattr(self, "nonneg", False)
        return r

    def __setitem__(self, key, value):
        if _py_isinstance(key, ndarray) and key.ndim > 0:
            raise Undecided("assignment through an advanced index")
        view = self._basic_view(key)
        _assign(view, value)

    # ---- operators delegate to ufuncs -------------------------------------------------
    def __add__(self, o):
        return add(self, o)

    def __radd__(self, o):
        return add(o, self)

    def __sub__(self, o):
        return subtract(self, o)

    def __rsub__(self, o):
        return subtract(o, self)

    def __mul__(self, o):
        return multiply(self, o)

    def __rmul__(self, o):
        return multiply(o, self)

    def __truediv__(self, o):
        return divide(self, o)

    def __rtruediv__(self, o):
        return divide(o, self)

    def __pow__(self, o):
        return power(self, o)

    def __neg__(self):
        return negative(self)

    def __abs__(self):
        return absolute(self)

    def __lt__(self, o):
        return less(self, o)

    def __le__(self, o):
        return less_equal(self, o)

    def __gt__(self, o):
        return greater(self, o)

    def __ge__(self, o):
        return greater_equal(self, o)

    def __eq__(self, o):
        return equal(self, o)

    def __ne__(self, o):
        return not_equal(self, o)

    def __and__(self, o):
        return logical_and(self, o)

    def __or__(self, o):
        return logical_or(self, o)

    def __xor__(self, o):
        return logical_xor(self, o)

    def __invert__(self):
        return logical_not(self)

    def __iadd__(self, o):
        return add(self, o, out=self)

    def __isub__(self, o):
        return subtract(self, o, out=self)

    def __imul__(self, o):
        return multiply(self, o, out=self)

    def __itruediv__(self, o):
        return divide(self, o, out=self)


def _np_scalar(val, dt):
    """element read out of an array: a numpy scalar that remembers its dtype"""
    if _py_isinstance(val, SV):
        out = SV(val.t, val.k)
        out.dt = dt
        return out
    return val


def _index_keeps_array(key):
    if not _py_isinstance(key, tuple):
        key = (key,)
    return builtins.any(_py_isinstance(k, slice) or k is Ellipsis or k is None for k in key) or key == ()


def _and(conds):
    ts = []
    for c in conds:
        if c is True:
            continue
        if c is False:
            return False
        ts.append(core.bterm(c))
    if not ts:
        return True
    return SV(z3.And(*ts), "b")


def _norm_bound(b, n):
    """slice bound clipped to [0, n] with negative wrap, as numpy does"""
    cb, cn = concrete(b), concrete(n)
    if _py_isinstance(cb, int) and _py_isinstance(cn, int):
        if cb < 0:
            cb += cn
        return _py_min(_py_max(cb, 0), cn)
    if _py_isinstance(cb, int) and cb == 0:
        return 0
    b = SV.lift(b)
    if core.entails((b >= 0) & (b <= n)):
        return b  # in range under the path condition: no wrap, no clipping
    b = ite(b < 0, b + n, b) if not (_py_isinstance(cb, int) and cb >= 0) else b
    return ite(b < 0, 0, ite(b > n, n, b))


def _ceil_div_len(d, step):
    cd = concrete(d)
    if _py_isinstance(cd, int):
        return _py_max(0, -(-cd // step))
    d = SV.lift(d)
    if step == 1:
        if core.entails(d >= 0):
            return SV(z3.simplify(d.t), "i")
        return ite(d < 0, 0, d)
    return ite(d <= 0, 0, (d + (step - 1)) // step)


ASTYPE_BOOL_LOG = [None]  # contracts may observe the selection masks a function builds with .astype(bool)
WRITE_HOOK = [None]  # race analysis: called with (buffer, inverse map) for every array write
BOUNDS_HOOK = [None]  # numba mode: a contract collects in-bounds obligations instead of IndexError


def _bounds(k, n):
    h = BOUNDS_HOOK[0]
    if h is not None:
        h(k, n)
        return
    # numpy semantics: an integer index outside [0, n) raises IndexError
    ok = (SV.lift(k) >= 0) & (SV.lift(k) < SV.lift(n))
    if not _py_bool(ok):
        raise IndexError("index out of bounds for axis (index %s, extent %s)" % (getattr(k, "t", k), getattr(n, "t", n)))


def _same_extent(a, b):
    if _py_isinstance(a, int) and _py_isinstance(b, int):
        return a == b
    if _py_isinstance(a, int) or _py_isinstance(b, int):
        return False
    return SV.lift(a).t.eq(SV.lift(b).t)


def _unit_axes_plan(old, new):
    """if `new` is `old` with axes of extent 1 inserted or dropped: for every old axis the new axis that
    indexes it (None for a dropped unit axis), else None"""
    is1 = lambda d: _py_isinstance(d, int) and d == 1  # noqa: E731
    plan, k = [], 0
    for d in old:
        if is1(d):
            if k < _py_len(new) and is1(new[k]):
                plan.append(k)
                k += 1
            else:
                plan.append(None)
            continue
        while k < _py_len(new) and is1(new[k]):
            k += 1
        if k >= _py_len(new) or not _same_extent(d, new[k]):
            return None
        plan.append(k)
        k += 1
    while k < _py_len(new):
        if not is1(new[k]):
            return None
        k += 1
    return plan


def _wrap_neg(j, n):
    cj = concrete(j)
    if _py_isinstance(cj, int):
        return cj + n if cj < 0 else cj
    return ite(j < 0, j + n, j)


def _flatten(idx, shape):
    f = 0
    for i, s in zip(idx, shape):
        f = f * s + i
    return f


def _unflatten(flat, shape):
    if _py_isinstance(flat, tuple):
        flat = flat[0]
    out = []
    for s in reversed(shape[1:]):
        out.append(flat % s)
        flat = flat // s
    out.append(flat)
    return tuple(reversed(out)) if shape else ()


def _flatten_f(idx, shape):
    f = 0
    for i, s in zip(reversed(idx), reversed(shape)):
        f = f * s + i
    return f


def _unflatten_f(flat, shape):
    out = []
    for s in shape[:-1]:
        out.append(flat % s)
        flat = flat // s
    out.append(flat)
    return tuple(out) if shape else ()


def _to_bool(v):
    if _py_isinstance(v, SV):
        return v if v.k == "b" else (v != 0)
    if v is NAN:
        return True
    return _py_bool(v)


def _to_num(v):
    if _py_isinstance(v, SV) and v.k == "b":
        return SV(v.num(), "i")
    if _py_isinstance(v, bool):
        return _py_int(v)
    return v


def _trunc(v):
    if _py_isinstance(v, SV):
        return core.trunc(v)
    return _py_int(v)


_rowmap_cache = {}
_SELFN = {}
ROWMAP_LOG = []  # ghost: (mask, count, sel) of every boolean-mask selection, in call order (cleared by the contract)


def _rank_concrete(picks, m):
    cm = concrete(m)
    if _py_isinstance(cm, int):
        return picks.index(cm) if cm in picks else -1
    r = SV.lift(-1)
    for k, pk in enumerate(picks):
        r = core.ite(SV.lift(m) == pk, k, r)
    return r


def _rowmap(mask):
    """row selection of a boolean mask: (count, sel) with sel strictly increasing into the
    True positions.  Determined by the mask object alone (numpy: the rows selected depend only
    on the index object), so every array indexed with the same mask shares it."""
    p = cur()
    key = ("rowmap", id(mask), mask.buf.version, id(p))
    hit = _rowmap_cache.get(key)
    if hit is not None and hit[2] is mask:
        return hit[0], hit[1]
    n = mask.size
    me = mask.snapshot()
    sh = mask._shape
    cn = concrete(n)
    if _py_isinstance(cn, int) and cn <= 64 and _py_len(sh) == 1:
        vals = [me((k,)) for k in _py_range(cn)]
        if builtins.all(_py_isinstance(v, bool) for v in vals):
            picks = [k for k, v in enumerate(vals) if v]
            sel_c = lambda r, picks=picks: _select(picks, r) if picks else 0  # noqa: E731
            sel_c.rank = lambda m, picks=picks: _rank_concrete(picks, m)
            _rowmap_cache[key] = (_py_len(picks), sel_c, mask)
            ROWMAP_LOG.append((mask, _py_len(picks), sel_c))
            return _py_len(picks), sel_c
    probe = me(tuple(SV(z3.Int("probe!%d" % k), "i") for k in _py_range(_py_len(sh))))
    if probe is True and _py_len(sh) == 1:
        # every element is the constant True: all rows selected, in order
        sel_id = lambda r: SV.lift(r)  # noqa: E731
        sel_id.rank = lambda m: SV.lift(m)
        _rowmap_cache[key] = (n, sel_id, mask)
        ROWMAP_LOG.append((mask, n, sel_id))
        return n, sel_id
    # the selection is a function of the mask's contents: COUNT(contents, n), SEL(contents, n, r)
    jm = z3.Int("j!mask")
    # the body is NOT simplified: the simplifier's normal form depends on term creation order, the raw term built
    # by the same code from the same contents is the same term (core.simp keeps lambdas untouched later on)
    body = core.bterm(_to_bool(me(_unflatten((SV(jm, "i"),), sh) if _py_len(sh) > 1 else (SV(jm, "i"),))))
    lam = z3.Lambda([jm], body)
    fs = _SELFN.get("f")
    if fs is None:
        fs = _SELFN["f"] = (z3.Function("np_count", lam.sort(), z3.IntSort(), z3.IntSort()),
                            z3.Function("np_sel", lam.sort(), z3.IntSort(), z3.IntSort(), z3.IntSort()))
    nt = core.term(SV.lift(n))
    count = SV(fs[0](lam, nt), "i")
    ck = ("countax", core.tid(count.t))
    if ck not in p.counter:
        p.counter[ck] = 1
        p.add(z3.And(count.t >= 0, count.t <= nt))

    def sel(r):
        r = SV.lift(r)
        t = fs[1](lam, nt, r.t)
        j = SV(t, "i")
        p2 = cur()
        k2 = ("selax", core.tid(t))
        if k2 not in p2.counter:
            p2.counter[k2] = 1
            inr = z3.And(r.t >= 0, r.t < count.t)
            p2.add(z3.Implies(inr, z3.And(j.t >= 0, j.t < nt)))
            mv = me(_unflatten((j,), sh) if _py_len(sh) > 1 else (j,))
            p2.add(z3.Implies(inr, core.bterm(_to_bool(mv))))
        return j

    f = fs[1]
    sel.fn = f

    def rank(m):
        """ghost inverse of sel: the row at which the True position m is selected.  numpy's boolean selection
        keeps every True position exactly once, in order: mask[m] and 0 <= m < n  =>  0 <= rank < count and
        sel(rank) == m"""
        m = SV.lift(m)
        rf = _SELFN.get("rank")
        if rf is None:
            rf = _SELFN["rank"] = z3.Function("np_rank", lam.sort(), z3.IntSort(), z3.IntSort(), z3.IntSort())
        rt = rf(lam, nt, m.t)
        p3 = cur()
        k3 = ("rankax", core.tid(rt))
        if k3 not in p3.counter:
            mv = me(_unflatten((m,), sh) if _py_len(sh) > 1 else (m,))
            hyp = z3.And(m.t >= 0, m.t < nt, core.bterm(_to_bool(mv)))
            ax = z3.Implies(hyp, z3.And(rt >= 0, rt < count.t, fs[1](lam, nt, rt) == m.t))
            p3.counter[k3] = ax
            p3.add(ax)
        out = SV(rt, "i")
        rank.axiom = p3.counter[k3]  # the instance just used (for explicit lemma hypotheses)
        return out

    sel.rank = rank
    ROWMAP_LOG.append((mask, count, sel))
    _rowmap_cache.clear() if _py_len(_rowmap_cache) > 64 else None
    _rowmap_cache[key] = (count, sel, mask)
    return count, sel


# --------------------------------------------------------------------------------------
# conversion / creation
# --------------------------------------------------------------------------------------
class SymSeq:
    """A sequence of symbolic length (e.g. the tuple struct.unpack returns)."""

    def __init__(self, n, elem, code):
        self.n, self.elem, self.code = n, elem, code

    def __pyvc_len__(self):
        return self.n

    def __iter__(self):
        c = concrete(self.n)
        if _py_isinstance(c, int):
            return (self.elem(i) for i in _py_range(c))
        raise Undecided("iteration over a sequence of symbolic length")

    def __len__(self):
        c = concrete(self.n)
        if _py_isinstance(c, int):
            return c
        raise Undecided("len of symbolic sequence in native code")

    def __getitem__(self, i):
        return self.elem(i)


def asarray(x, dtype=None):
    if _py_isinstance(x, ndarray):
        return x if dtype is None else x.astype(dtype)
    return array(x, dtype=dtype)


def asanyarray(x, dtype=None):
    return asarray(x, dtype)


def array(x, dtype=None, copy=True):
    dt = None if dtype is None else (dtype if _py_isinstance(dtype, _dtype_cls) else _dtype_cls(dtype))
    if _py_isinstance(x, ndarray):
        r = x.copy()
        return r if dt is None else r.astype(dt)
    if _py_isinstance(x, SymSeq):
        e = x.elem
        r = ndarray.from_elem(lambda idx: e(idx[0]), (x.n,), x.code)
        return r if dt is None else r.astype(dt)
    if _is_scalar(x):
        r = ndarray.from_elem(lambda idx, v=x: v, (), _scalar_dtype(x))
        return r if dt is None else r.astype(dt)
    if x is None:
        raise Undecided("np.array(None)")
    if _py_isinstance(x, (list, tuple)):
        items = [it if _py_isinstance(it, ndarray) or _is_scalar(it) else array(it) for it in x]
        n = _py_len(items)
        if n == 0:
            return ndarray.from_elem(lambda idx: 0.0, (0,), dt or "float64")
        if builtins.all(_is_scalar(it) for it in items):
            rdt = _scalar_dtype(items[0])
            for it in items[1:]:
                rdt = _promote(rdt, _scalar_dtype(it))

            def el(idx, items=items):
                return _select(items, idx[0])

            r = ndarray.from_elem(el, (n,), rdt)
            return r if dt is None else r.astype(dt)
        items = [it if _py_isinstance(it, ndarray) else array(it) for it in items]
        sh = items[0]._shape
        rdt = items[0].dtype
        for it in items[1:]:
            rdt = _promote(rdt, it.dtype)
        snaps = [it.snapshot() for it in items]
        shapes = [it._shape for it in items]

        def el2(idx, snaps=snaps, shapes=shapes):
            vals = [s(_bc_index(tuple(idx[1:]), shp, sh)) for s, shp in zip(snaps, shapes)]
            return _select(vals, idx[0])

        r = ndarray.from_elem(el2, (n,) + sh, rdt)
        return r if dt is None else r.astype(dt)
    if hasattr(x, "__array__"):
        return x.__array__()
    raise Undecided("np.array(%r)" % (type(x),))


def _select(items, i):
    """items[i] for a possibly symbolic i"""
    ci = concrete(i)
    if _py_isinstance(ci, int):
        # total: an out-of-range index only occurs under a guard that is false (both sides of an
        # if-then-else over array regions are built eagerly)
        return items[_py_min(_py_max(ci, 0), _py_len(items) - 1)]
    out = items[-1]
    for k in _py_range(_py_len(items) - 2, -1, -1):
        out = _ite_val(SV.lift(i) == k, items[k], out)
    return out


def _ite_val(c, a, b):
    if c is True:
        return a
    if c is False:
        return b
    if a is b:
        return a
    if a is NAN or b is NAN:
        return MaybeNaN.make(c, a, b)
    if _py_isinstance(a, MaybeNaN) or _py_isinstance(b, MaybeNaN):
        return MaybeNaN.make(c, a, b)
    return ite(c, a, b)


class MaybeNaN:
    """element that is NaN under `isnan` and `val` otherwise"""

    def __init__(self, isnan, val):
        self.isnan, self.val = isnan, val

    @staticmethod
    def of(v):
        if v is NAN:
            return MaybeNaN(SV.lift(True), SV.lift(0.0))
        if _py_isinstance(v, MaybeNaN):
            return v
        return MaybeNaN(SV.lift(False), SV.lift(v))

    @staticmethod
    def make(c, a, b):
        a, b = MaybeNaN.of(a), MaybeNaN.of(b)
        c = SV.lift(c)
        return MaybeNaN(ite(c, a.isnan, b.isnan), ite(c, a.val, b.val))


def zeros(shape, dtype=float):
    return full(shape, 0 if _code_of(dtype) not in ("float64", "float32", "float16") else 0.0, dtype=dtype)


def ones(shape, dtype=float):
    return full(shape, 1 if _code_of(dtype) not in ("float64", "float32", "float16") else 1.0, dtype=dtype)


def empty(shape, dtype=float):
    # contents unspecified: fresh uninterpreted values
    p = cur()
    shape = _as_shape(shape)
    f = z3.Function(p.fresh_name("uninit"), *([z3.IntSort()] * _py_max(1, _py_len(shape))), z3.RealSort())

    def el(idx):
        args = [core.term(SV.lift(i)) for i in idx] or [z3.IntVal(0)]
        return SV(f(*args), "r")

    return ndarray.from_elem(el, shape, dtype)


def _as_shape(shape):
    if _py_isinstance(shape, (list, tuple)):
        return tuple(shape)
    return (shape,)


def full(shape=None, fill_value=0.0, dtype=None):
    shape = _as_shape(shape)
    v = NAN if (_py_isinstance(fill_value, float) and fill_value != fill_value) else fill_value
    if dtype is None:
        dtype = _scalar_dtype(fill_value if v is not NAN else 0.0)
    code = _code_of(dtype)
    if code == "bool" and not _py_isinstance(v, (bool, SV)):
        v = _py_bool(v)
    return ndarray.from_elem(lambda idx, v=v: v, shape, dtype)


def zeros_like(a, dtype=None):
    if _is_scalar(a):
        return 0.0 if _scalar_dtype(a).code == "float64" else 0
    return zeros(a.shape, dtype=dtype or a.dtype)


def ones_like(a, dtype=None):
    if _is_scalar(a):
        return 1.0 if _scalar_dtype(a).code == "float64" else 1
    if hasattr(a, "__array_function__") and not _py_isinstance(a, ndarray):
        return a.__array_function__(ones_like, (type(a),), (a,), {})
    return ones(a.shape, dtype=dtype or a.dtype)


ones_like.__name__ = "ones_like"


def arange(*args, dtype=None):
    if _py_len(args) == 1:
        start, stop = 0, args[0]
    else:
        start, stop = args[0], args[1]
    n = stop - start
    cn = concrete(n)
    n = cn if _py_isinstance(cn, int) else n
    r = ndarray.from_elem(lambda idx: start + idx[0], (n,), dtype or "int64")
    cs = concrete(start)
    r.nonneg = _py_isinstance(cs, int) and cs >= 0  # ghost: no negative entries (index arrays need no wrap-around)
    return r


OPAQUE_LINSPACE = [False]  # contracts that do not need the samples' formula keep it hidden (opaque / reveal)
_linspace_fn = z3.Function("np_linspace", z3.RealSort(), z3.RealSort(), z3.IntSort(), z3.IntSort(), z3.RealSort())


def linspace(start, stop, num=50):
    """num evenly spaced samples, endpoints included: start + i*(stop-start)/(num-1)"""
    cn = concrete(num)
    num = cn if _py_isinstance(cn, int) else num

    def formula(i):
        if _py_isinstance(num, int) and num == 1:
            return start * 1.0 if not _py_isinstance(start, SV) else SV(start.real(), "r")
        if not _py_isinstance(num, int):
            return ite(SV.lift(num) == 1, SV.lift(start) * 1.0, start + i * ((stop - start) / ite(SV.lift(num) == 1, 1, num - 1)))
        return start + i * ((stop - start) / (num - 1))

    if OPAQUE_LINSPACE[0] and (_py_isinstance(start, SV) or _py_isinstance(stop, SV) or _py_isinstance(num, SV)):
        st, sp, nm = SV.lift(start).real(), SV.lift(stop).real(), core.term(SV.lift(num))
        cur().counter.setdefault("@linspace", []).append((st, sp, nm, formula))

        def el(idx):
            return SV(_linspace_fn(st, sp, nm, core.term(SV.lift(idx[0]))), "r")

        return ndarray.from_elem(el, (num,), "float64")
    return ndarray.from_elem(lambda idx: formula(idx[0]), (num,), "float64")


def reveal_linspace(i):
    """instantiate the definition of every opaque linspace of this path at index i"""
    p = cur()
    i = SV.lift(i)
    for st, sp, nm, formula in p.counter.get("@linspace", []):
        p.add(_linspace_fn(st, sp, nm, core.term(i)) == SV.lift(formula(i)).real())


_pow10_fn = z3.Function("pow10", z3.RealSort(), z3.RealSort())


def logspace(start, stop, num=50):
    lin = linspace(start, stop, num)
    e = lin.snapshot()
    return ndarray.from_elem(lambda idx: SV(_pow10_fn(SV.lift(e(idx)).real()), "r"), lin.shape, "float64")


def meshgrid(*xs, indexing="xy"):
    if indexing != "ij":
        raise Undecided("meshgrid indexing='xy'")
    xs = [asarray(x) for x in xs]
    shape = tuple(x.shape[0] for x in xs)
    outs = []
    for k, x in enumerate(xs):
        e = x.snapshot()
        outs.append(ndarray.from_elem(lambda idx, e=e, k=k: e((idx[k],)), shape, x.dtype))
    return outs


def broadcast_to(a, shape):
    a = asarray(a)
    e = a.snapshot()
    ash = a._shape
    shape = tuple(shape)
    return ndarray.from_elem(lambda idx: e(_bc_index(idx, ash, shape)), shape, a.dtype)


# --------------------------------------------------------------------------------------
# broadcasting
# --------------------------------------------------------------------------------------
def _bc_shape(shapes):
    nd = _py_max(_py_len(s) for s in shapes)
    out = []
    for ax in _py_range(nd):
        dims = []
        for s in shapes:
            j = ax - (nd - _py_len(s))
            if j >= 0:
                dims.append(s[j])
        d = 1
        for x in dims:
            cx = concrete(x)
            if _py_isinstance(cx, int) and cx == 1:
                continue
            cd = concrete(d)
            if _py_isinstance(cd, int) and cd == 1:
                d = x if cx is None else cx
                continue
            same = SV.lift(x) == SV.lift(d)
            if not _py_bool(same):
                raise ValueError("operands could not be broadcast together")
        out.append(d)
    return tuple(out)


def _bc_index(idx, shape, full_shape):
    """index into an operand of `shape` for result index `idx` of `full_shape`"""
    nd, n = _py_len(full_shape), _py_len(shape)
    out = []
    for j in _py_range(n):
        d = shape[j]
        cd = concrete(d)
        i = idx[j + nd - n]
        cf = concrete(full_shape[j + nd - n])
        if _py_isinstance(cd, int) and cd == 1 and not (_py_isinstance(cf, int) and cf == 1):
            out.append(0)
        else:
            out.append(i)
    return tuple(out)


def _assign(view, value):
    """view[...] = value, writing through to the base buffer"""
    if view.inv is None:
        raise Undecided("write through a non-invertible view")
    if _py_isinstance(value, SymSeq):
        value = array(value)
    if _py_isinstance(value, (list, tuple)):
        value = array(value)
    if hasattr(value, "_array") and not _py_isinstance(value, ndarray):
        value = value._array
    if _py_isinstance(value, ndarray):
        vs = value._shape
        # numpy requires value broadcastable to the target
        if _py_len(vs) > view.ndim:
            raise ValueError("could not broadcast input array")
        for a, b in zip(reversed(vs), reversed(view._shape)):
            ca = concrete(a)
            if _py_isinstance(ca, int) and ca == 1:
                continue
            if not _py_bool(SV.lift(a) == SV.lift(b)):
                raise ValueError("could not broadcast input array from shape into shape")
        ve = value.snapshot()
        vsh = view._shape
        new = lambda own: ve(_bc_index(own, vs, vsh))  # noqa: E731
    else:
        new = lambda own, v=value: v  # noqa: E731
    target_dt = view.dtype
    conv = _caster(target_dt, value.dtype if _py_isinstance(value, ndarray) else _scalar_dtype(value))
    buf = view.buf
    old = buf.elem
    inv = view.inv
    if WRITE_HOOK[0] is not None:
        WRITE_HOOK[0](buf, inv)

    def elem(b):
        ok, own = inv(b)
        if ok is True:
            return conv(new(own))
        if ok is False:
            return old(b)
        return _ite_val(ok, conv(new(own)), old(b))

    buf.write(elem)


def _caster(target, source):
    """C cast performed by an assignment into an array of dtype `target`"""
    if target.symbolic or source.symbolic:
        return lambda v: v
    if target.code == "bool":
        return _to_bool
    if not target.is_float() and source.is_float():
        return _trunc
    if source.code == "bool" and target.code != "bool":
        return _to_num
    return lambda v: v


# --------------------------------------------------------------------------------------
# ufuncs
# --------------------------------------------------------------------------------------
def _nanwrap1(f):
    def g(a):
        if a is NAN:
            return NAN
        if _py_isinstance(a, MaybeNaN):
            return MaybeNaN(a.isnan, SV.lift(f(a.val)))
        return f(a)

    return g


def _nanwrap2(f, cmp=False):
    def g(a, b):
        if a is NAN or b is NAN:
            return False if cmp else NAN
        if _py_isinstance(a, MaybeNaN) or _py_isinstance(b, MaybeNaN):
            a, b = MaybeNaN.of(a), MaybeNaN.of(b)
            isn = a.isnan | b.isnan
            r = SV.lift(f(a.val, b.val))
            if cmp:
                return ~isn & r
            return MaybeNaN(isn, r)
        return f(a, b)

    return g


class ufunc:
    def __init__(self, name, nin, fn, kind):
        self.__name__ = name
        self.nin = nin
        self.fn = fn
        self.kind = kind  # arith | float | cmp | logic | pred

    def __repr__(self):
        return "<ufunc '%s'>" % self.__name__

    def __call__(self, *args, out=None, **kwargs):
        if kwargs:
            extra = set(kwargs) - {"dtype", "where", "casting"}
            if extra:
                raise TypeError("unexpected keyword %r" % (extra,))
        outs = () if out is None else (out if _py_isinstance(out, tuple) else (out,))
        over = [a for a in tuple(args) + outs if _overrides_ufunc(a)]
        if over:
            kw = dict(kwargs)
            if out is not None:
                kw["out"] = outs  # NEP 13: out is always passed as a tuple
            # subclasses before superclasses, otherwise left to right
            over.sort(key=lambda a: -_py_len(type(a).__mro__))
            seen = []
            for a in over:
                if builtins.any(type(a) is t for t in seen):
                    continue
                seen.append(type(a))
                r = a.__array_ufunc__(self, "__call__", *args, **kw)
                if r is not NotImplemented:
                    return r
            raise TypeError("operand type(s) all returned NotImplemented from __array_ufunc__")
        return self._core(args, outs[0] if outs else None)

    def result_dtype(self, ops):
        arrs = [o for o in ops if _py_isinstance(o, ndarray)]
        if self.kind in ("cmp", "logic", "pred"):
            return dtype("bool")
        if arrs:
            dt = arrs[0].dtype
            for a in arrs[1:]:
                dt = _promote(dt, a.dtype)
            for o in ops:
                if not _py_isinstance(o, ndarray):
                    dt = _promote(dt, _weak_scalar_dtype(o, dt))
        else:
            dt = _scalar_dtype(ops[0])
            for o in ops[1:]:
                dt = _promote(dt, _scalar_dtype(o))
        if self.kind == "float":
            dt = _float_result(dt)
        return dt

    def _core(self, args, out):
        if _py_len(args) != self.nin:
            raise TypeError("%s() takes %d positional arguments" % (self.__name__, self.nin))
        ops = [a if (_py_isinstance(a, ndarray) or _is_scalar(a)) else asarray(a) for a in args]
        rdt = self.result_dtype(ops)
        arrs = [o for o in ops if _py_isinstance(o, ndarray)]
        if not arrs and out is None:
            return self.fn(*ops)
        if out is None and builtins.all(o._shape == () for o in arrs):
            # numpy returns a scalar (not a 0-d array) when every operand is 0-d
            vals = [o.elem(()) if _py_isinstance(o, ndarray) else o for o in ops]
            return _np_scalar(SV.lift(self.fn(*vals)) if not _py_isinstance(self.fn(*vals), (NaN, MaybeNaN)) else self.fn(*vals), rdt)
        shapes = [o._shape for o in arrs] + ([out._shape] if out is not None else [])
        shape = _bc_shape(shapes)
        snaps = [(o.snapshot(), o._shape) if _py_isinstance(o, ndarray) else (None, o) for o in ops]
        fn = self.fn
        int_fn = getattr(self, "int_fn", None)
        if int_fn is not None:
            isf = rdt.is_float()
            if isf is False:
                fn = int_fn
            elif isf is not True:
                ffn = fn

                def fn(*vals, ffn=ffn, isf=isf):
                    return _ite_val(isf, ffn(*vals), int_fn(*vals))

        def el(idx):
            vals = [s((_bc_index(idx, shp, shape))) if s is not None else shp for s, shp in snaps]
            return fn(*vals)

        if out is not None:
            if not _py_isinstance(out, ndarray):
                raise TypeError("return arrays must be of ArrayType")
            conv = _out_cast(out.dtype, rdt, self.__name__)
            res = ndarray.from_elem(lambda idx: conv(el(idx)), shape, out.dtype)
            _assign(out._basic_view(()), res)
            return out
        return ndarray.from_elem(el, shape, rdt)


def _out_cast(target, source, name):
    """same-kind casting rule for out=: float result into an integer out raises"""
    if not target.symbolic and not source.symbolic:
        if source.is_float() and not target.is_float():
            raise TypeError("Cannot cast ufunc '%s' output from dtype('%s') to dtype('%s') "
                            "with casting rule 'same_kind'" % (name, source.code, target.code))
        return lambda v: v
    return lambda v: v


def _overrides_ufunc(a):
    return (not _py_isinstance(a, ndarray)) and hasattr(type(a), "__array_ufunc__") and \
        type(a).__array_ufunc__ is not None


def _num(v):
    return _to_num(v)


def _div(a, b):
    a, b = _num(a), _num(b)
    if _py_isinstance(a, SV) or _py_isinstance(b, SV):
        return SV.lift(a) / SV.lift(b)
    if b == 0:
        raise Undecided("concrete division by zero in array arithmetic")
    return a / b


def _powf(a, b):
    return core.power(_num(a), _num(b))


def _sqrtf(a):
    a = _num(a)
    if _py_isinstance(a, SV):
        return core.sqrt(a)
    if _py_isinstance(a, int) and not _py_isinstance(a, bool) and a >= 0 and _math.isqrt(a) ** 2 != a:
        # the root of an integer that is not a perfect square (np.sqrt(ndim)): the mathematical value, not its
        # double rounding (machine arithmetic is treated as mathematical throughout)
        return core.sqrt(a)
    return _math.sqrt(a) if a >= 0 else NAN


_cbrt_fn = z3.Function("cbrt", z3.RealSort(), z3.RealSort())


def _cbrtf(a):
    a = SV.lift(_num(a))
    r = SV(_cbrt_fn(a.real()), "r")
    p = cur()
    p.add(r.t * r.t * r.t == a.real())
    return r


def _absf(a):
    a = _num(a)
    return _py_abs(a)


def _maxf(a, b):
    a, b = _num(a), _num(b)
    if _py_isinstance(a, SV) or _py_isinstance(b, SV):
        return ite(SV.lift(a) >= SV.lift(b), a, b)
    return _py_max(a, b)


def _minf(a, b):
    a, b = _num(a), _num(b)
    if _py_isinstance(a, SV) or _py_isinstance(b, SV):
        return ite(SV.lift(a) <= SV.lift(b), a, b)
    return _py_min(a, b)


def _hypotf(a, b):
    a, b = SV.lift(_num(a)), SV.lift(_num(b))
    return core.sqrt(a * a + b * b)


_log10_fn = z3.Function("log10", z3.RealSort(), z3.RealSort())


def _log10f(a):
    a = SV.lift(_num(a))
    return SV(_log10_fn(a.real()), "r")


def _land(a, b):
    a, b = _to_bool(a), _to_bool(b)
    if _py_isinstance(a, SV) or _py_isinstance(b, SV):
        return SV.lift(a) & SV.lift(b)
    return a and b


def _lor(a, b):
    a, b = _to_bool(a), _to_bool(b)
    if _py_isinstance(a, SV) or _py_isinstance(b, SV):
        return SV.lift(a) | SV.lift(b)
    return a or b


def _lxor(a, b):
    a, b = _to_bool(a), _to_bool(b)
    if _py_isinstance(a, SV) or _py_isinstance(b, SV):
        return SV.lift(a) ^ SV.lift(b)
    return a != b


def _lnot(a):
    a = _to_bool(a)
    if _py_isinstance(a, SV):
        return ~a
    return not a


def _isnan(a):
    if a is NAN:
        return True
    if _py_isinstance(a, MaybeNaN):
        return a.isnan
    return False  # finite-input model: explicit NaN only through the NaN tag


add = ufunc("add", 2, _nanwrap2(lambda a, b: _num(a) + _num(b)), "arith")
subtract = ufunc("subtract", 2, _nanwrap2(lambda a, b: _num(a) - _num(b)), "arith")
multiply = ufunc("multiply", 2, _nanwrap2(lambda a, b: _num(a) * _num(b)), "arith")
divide = ufunc("divide", 2, _nanwrap2(_div), "float")
true_divide = divide
power = ufunc("power", 2, _nanwrap2(_powf), "arith")
maximum = ufunc("maximum", 2, _nanwrap2(_maxf), "arith")
minimum = ufunc("minimum", 2, _nanwrap2(_minf), "arith")
hypot = ufunc("hypot", 2, _nanwrap2(_hypotf), "float")
negative = ufunc("negative", 1, _nanwrap1(lambda a: -_num(a)), "arith")
positive = ufunc("positive", 1, _nanwrap1(lambda a: _num(a)), "arith")
absolute = ufunc("absolute", 1, _nanwrap1(_absf), "arith")
abs = absolute
sqrt = ufunc("sqrt", 1, _nanwrap1(_sqrtf), "float")
square = ufunc("square", 1, _nanwrap1(lambda a: _num(a) * _num(a)), "arith")
cbrt = ufunc("cbrt", 1, _nanwrap1(_cbrtf), "float")
reciprocal = ufunc("reciprocal", 1, _nanwrap1(lambda a: _div(1.0, a)), "arith")
reciprocal.int_fn = _nanwrap1(lambda a: core.trunc(_div(1.0, a)))  # integer dtypes: C integer division 1/x
log10 = ufunc("log10", 1, _nanwrap1(_log10f), "float")
floor = ufunc("floor", 1, _nanwrap1(lambda a: (SV(core.floor(a).real(), "r") if _py_isinstance(a, SV) else float(_math.floor(a)))), "float")
less = ufunc("less", 2, _nanwrap2(lambda a, b: _num(a) < _num(b), cmp=True), "cmp")
less_equal = ufunc("less_equal", 2, _nanwrap2(lambda a, b: _num(a) <= _num(b), cmp=True), "cmp")
greater = ufunc("greater", 2, _nanwrap2(lambda a, b: _num(a) > _num(b), cmp=True), "cmp")
greater_equal = ufunc("greater_equal", 2, _nanwrap2(lambda a, b: _num(a) >= _num(b), cmp=True), "cmp")
equal = ufunc("equal", 2, _nanwrap2(lambda a, b: _num(a) == _num(b), cmp=True), "cmp")
not_equal = ufunc("not_equal", 2, lambda a, b: _lnot(equal.fn(a, b)), "cmp")
logical_and = ufunc("logical_and", 2, _land, "logic")
logical_or = ufunc("logical_or", 2, _lor, "logic")
logical_xor = ufunc("logical_xor", 2, _lxor, "logic")
logical_not = ufunc("logical_not", 1, _lnot, "logic")
isnan = ufunc("isnan", 1, _isnan, "pred")
isfinite = ufunc("isfinite", 1, lambda a: _lnot(_isnan(a)), "pred")
isinf = ufunc("isinf", 1, lambda a: False, "pred")

UFUNCS = {k: v for k, v in list(globals().items()) if _py_isinstance(v, ufunc)}


# --------------------------------------------------------------------------------------
# array functions (NEP 18 dispatch)
# --------------------------------------------------------------------------------------
def _overrides_function(a):
    return (not _py_isinstance(a, ndarray)) and hasattr(type(a), "__array_function__")


def array_function(relevant):
    def deco(f):
        def public(*args, **kwargs):
            rel = relevant(*args, **kwargs)
            over = [a for a in rel if _overrides_function(a)]
            if over:
                types = tuple({type(a) for a in over})
                over.sort(key=lambda a: -_py_len(type(a).__mro__))
                for a in over:
                    r = a.__array_function__(public, types, args, kwargs)
                    if r is not NotImplemented:
                        return r
                raise TypeError("no implementation found for '%s'" % f.__name__)
            return f(*args, **kwargs)

        public.__name__ = f.__name__
        public.__wrapped__ = f
        return public

    return deco


def _first(a, *r, **k):
    out = k.get("out")
    return (a,) + ((out,) if out is not None else ())


def _seq_first(seq, *r, **k):
    return tuple(seq)


_reduce_fns = {}


def minmax_elim(j):
    """instantiate  amin(a) <= a[j] <= amax(a)  (0 <= j < len(a)) for every amin/amax of this path"""
    p = cur()
    j = SV.lift(j)
    for name, val, e, n in p.counter.get("@redfacts", []):
        inr = z3.And(j.t >= 0, core.bterm(j < n))
        v = SV.lift(_num(e((j,))))
        if name == "amin":
            p.add(z3.Implies(inr, core.bterm(val <= v)))
        else:
            p.add(z3.Implies(inr, core.bterm(val >= v)))


def _reduction(name, a, axis, result_dt=None):
    """Reduction as an uninterpreted function of the operand's contents (a z3 lambda).
    Two reductions of element-wise equal operands are equal by congruence."""
    a = asarray(a)
    if axis is not None and a.ndim == 1 and axis in (0, -1):
        axis = None
    e = a.snapshot()
    rdt = result_dt or a.dtype
    if axis is None and a.ndim == 1 and name in ("amin", "amax", "sum"):
        cn = concrete(a._shape[0])
        if _py_isinstance(cn, int) and 0 < cn <= 64:
            vals = [e((k,)) for k in _py_range(cn)]
            if builtins.all(_py_isinstance(v, (int, float)) and not _py_isinstance(v, bool) for v in vals):
                r = {"amin": _py_min, "amax": _py_max, "sum": _py_sum}[name](vals)
                return ndarray.from_elem(lambda idx, r=r: r, (), rdt)
    if axis is None:
        sh = a._shape
        j = z3.Int("j!red")
        body = core.term(SV.lift(_num(_plain(e(_unflatten((SV(j, "i"),), sh) if sh else ())))))
        if body.sort() == z3.IntSort():
            body = z3.ToReal(body)
        lam = z3.Lambda([j], body)
        key = name
        f = _reduce_fns.get(key)
        if f is None:
            f = _reduce_fns[key] = z3.Function("np_" + name, lam.sort(), z3.IntSort(), z3.RealSort())
        n = core.term(SV.lift(a.size))
        val = SV(f(lam, n), "r")
        if name in ("amin", "amax") and _py_len(sh) == 1:
            p_ = cur()
            p_.counter.setdefault("@redfacts", []).append((name, val, e, sh[0]))
            wk = ("minmaxwit", core.tid(val.t))
            if wk not in p_.counter:
                # the extremum of a non-empty array is attained: a witness index (ghost)
                p_.counter[wk] = 1
                w = core.fresh_int("np_%s_at" % name, register=False)
                ew = e((w,))
                if not (ew is NAN or _py_isinstance(ew, MaybeNaN)):
                    nn = core.term(SV.lift(sh[0]))
                    p_.add(z3.Implies(nn >= 1, z3.And(w.t >= 0, w.t < nn, val.t == core.term(SV.lift(_num(ew))))))
        return ndarray.from_elem(lambda idx: val, (), rdt)
    if axis < 0:
        axis += a.ndim
    sh = a._shape
    out_shape = sh[:axis] + sh[axis + 1:]
    f = _reduce_fns.get(name)
    j = z3.Int("j!red")

    def el(idx):
        full = tuple(idx[:axis]) + (SV(j, "i"),) + tuple(idx[axis:])
        probe = e(full)
        if probe is NAN or _py_isinstance(probe, MaybeNaN):
            return _nan_reduce(name, lambda jj: MaybeNaN.of(e(tuple(idx[:axis]) + (jj,) + tuple(idx[axis:]))), sh[axis])
        body = core.term(SV.lift(_num(_plain(probe))))
        if body.sort() == z3.IntSort():
            body = z3.ToReal(body)
        lam = z3.Lambda([j], body)
        ff = _reduce_fns.get(name)
        if ff is None:
            ff = _reduce_fns[name] = z3.Function("np_" + name, lam.sort(), z3.IntSort(), z3.RealSort())
        return SV(ff(lam, core.term(SV.lift(sh[axis]))), "r")

    return ndarray.from_elem(el, out_shape, rdt)


_NANRED = {}
NAN_PROPAGATING = ("sum", "mean", "amin", "amax", "prod", "median", "std")
NAN_SKIPPING = ("nansum", "nanmean", "nanmin", "nanmax")


def _nan_reduce(name, col, n):
    """reduction of a column whose elements may be NaN (col(j) -> MaybeNaN).  numpy: sum/mean/min/max give NaN as
    soon as one element is NaN; nansum treats NaN as 0; nanmean/nanmin/nanmax skip NaN and give NaN for an all-NaN
    column.  Concrete short columns are folded; otherwise the value is an uninterpreted function of the column's
    contents (value lambda, NaN-flag lambda, length)."""
    if name not in NAN_PROPAGATING + NAN_SKIPPING:
        raise Undecided("reduction '%s' over NaN-tagged elements" % name)
    cn = concrete(n)
    if _py_isinstance(cn, int) and 0 < cn <= 16:
        items = [col(k) for k in _py_range(cn)]
        flags = [SV.lift(it.isnan) for it in items]
        vals = [SV.lift(_num(it.val)) for it in items]
        anyn, alln = flags[0], flags[0]
        for f in flags[1:]:
            anyn, alln = anyn | f, alln & f
        if name in ("sum", "mean"):
            t = vals[0]
            for v in vals[1:]:
                t = t + v
            return MaybeNaN(anyn, t if name == "sum" else t / cn)
        if name in ("amin", "amax"):
            t = vals[0]
            for v in vals[1:]:
                t = ite((v < t) if name == "amin" else (v > t), v, t)
            return MaybeNaN(anyn, t)
        if name in ("nansum", "nanmean"):
            t, c = SV.lift(0.0), SV.lift(0)
            for f, v in zip(flags, vals):
                t = t + ite(f, 0.0, v)
                c = c + ite(f, 0, 1)
            if name == "nansum":
                return MaybeNaN(SV.lift(False), t)
            return MaybeNaN(alln, t / ite(c == 0, 1, c))
        if name in ("nanmin", "nanmax"):
            have, t = SV.lift(False), SV.lift(0.0)
            for f, v in zip(flags, vals):
                better = (~f) & ((~have) | ((v < t) if name == "nanmin" else (v > t)))
                t = ite(better, v, t)
                have = have | ~f
            return MaybeNaN(alln, t)
        raise Undecided("reduction '%s' over NaN-tagged elements" % name)
    j = z3.Int("j!red")
    it = col(SV(j, "i"))
    vb = core.term(SV.lift(_num(it.val)))
    if vb.sort() == z3.IntSort():
        vb = z3.ToReal(vb)
    vlam, nlam = z3.Lambda([j], vb), z3.Lambda([j], core.bterm(SV.lift(it.isnan)))
    fs = _NANRED.get(name)
    if fs is None:
        fs = _NANRED[name] = (z3.Function("np_%s_val" % name, vlam.sort(), nlam.sort(), z3.IntSort(), z3.RealSort()),
                              z3.Function("np_%s_isnan" % name, nlam.sort(), z3.IntSort(), z3.BoolSort()))
    nt = core.term(SV.lift(n))
    flag = SV.lift(False) if name == "nansum" else SV(fs[1](nlam, nt), "b")
    return MaybeNaN(flag, SV(fs[0](vlam, nlam, nt), "r"))


def _plain(v):
    if v is NAN or _py_isinstance(v, MaybeNaN):
        raise Undecided("reduction over NaN-tagged elements (handled by the map contract)")
    return v


@array_function(_first)
def sum(a, axis=None, out=None):
    if _py_isinstance(a, ndarray) and axis is None and a.ndim == 1 and not a.dtype.symbolic and a.dtype.code == "bool":
        # the sum of a boolean array is the number of True entries (the count of its row selection)
        cnt, _ = _rowmap(a)
        return _np_scalar(SV.lift(cnt), _dtype_cls("int64"))
    if _py_isinstance(a, (list, tuple)):
        if builtins.all(_is_scalar(x) for x in a):
            t = 0
            for x in a:
                t = t + x
            return t
        a = array(a)
    return _reduction("sum", a, axis)


@array_function(_first)
def prod(a, axis=None):
    a = asarray(a)
    if axis == 0 and a.ndim == 2 and _py_isinstance(concrete(a._shape[0]), int):
        n0 = concrete(a._shape[0])
        e = a.snapshot()

        def el(idx):
            t = _num(e((0,) + tuple(idx)))
            for k in _py_range(1, n0):
                t = t * _num(e((k,) + tuple(idx)))
            return t

        rdt = a.dtype if (a.dtype.symbolic or a.dtype.code != "bool") else dtype("int64")
        return ndarray.from_elem(el, a._shape[1:], rdt)
    return _reduction("prod", a, axis)


@array_function(_first)
def mean(a, axis=None):
    return _reduction("mean", a, axis, _float_result(asarray(a).dtype))


@array_function(_first)
def median(a, axis=None):
    return _reduction("median", a, axis, _float_result(asarray(a).dtype))


@array_function(_first)
def std(a, axis=None):
    return _reduction("std", a, axis, _float_result(asarray(a).dtype))


@array_function(_first)
def amin(a, axis=None):
    return _reduction("amin", a, axis)


@array_function(_first)
def amax(a, axis=None):
    return _reduction("amax", a, axis)


min = amin
max = amax


@array_function(_first)
def nansum(a, axis=None):
    return _reduction("nansum", a, axis)


@array_function(_first)
def nanmean(a, axis=None):
    return _reduction("nanmean", a, axis, _float_result(asarray(a).dtype))


@array_function(_first)
def nanmin(a, axis=None):
    return _reduction("nanmin", a, axis)


@array_function(_first)
def nanmax(a, axis=None):
    return _reduction("nanmax", a, axis)


class _PerPath:
    """np.all/np.any facts of the current path only"""

    def _d(self):
        return cur().counter.setdefault("@qfacts", {})

    def values(self):
        return self._d().values()

    def get(self, k):
        return self._d().get(k)

    def __setitem__(self, k, v):
        self._d()[k] = v


_QFACTS = _PerPath()


def _quant(a, is_all):
    """np.all / np.any over every element: a fresh boolean r with
       all:  not r  =>  some witness element is false ;  r => elem(i) for any i (via all_elim)
       any:  r      =>  some witness element is true  ;  not r => not elem(i) (via any_elim)"""
    a = asarray(a)
    p = cur()
    r = core.fresh_bool("np_all" if is_all else "np_any", register=False)
    e = a.snapshot()
    sh = a._shape
    w = tuple(core.fresh_int("wit%d" % k, 0, register=False) for k in _py_range(_py_len(sh)))
    inr = [core.bterm(wk < d) for wk, d in zip(w, sh)]
    wv = core.bterm(_to_bool(e(w))) if sh or True else None
    rng = z3.And(*inr) if inr else z3.BoolVal(True)
    if is_all:
        p.add(z3.Implies(z3.Not(r.t), z3.And(rng, z3.Not(wv))))
    else:
        p.add(z3.Implies(r.t, z3.And(rng, wv)))
    _QFACTS[core.tid(r.t)] = (r, e, sh, is_all)
    return r


def quant_elim(r, idx):
    """instantiate the universal fact behind an np.all / np.any result at index idx"""
    rec = _QFACTS.get(r.t.get_id())
    if rec is None:
        return
    r0, e, sh, is_all = rec
    v = core.bterm(_to_bool(e(tuple(idx))))
    rng = z3.And(*[z3.And(core.term(SV.lift(i)) >= 0, core.bterm(SV.lift(i) < d)) for i, d in zip(idx, sh)]) if sh else z3.BoolVal(True)
    if is_all:
        cur().add(z3.Implies(z3.And(r0.t, rng), v))
    else:
        cur().add(z3.Implies(z3.And(z3.Not(r0.t), rng), z3.Not(v)))


@array_function(_first)
def any(a, axis=None):
    if axis is not None:
        raise Undecided("np.any(axis=)")
    return _quant(a, False)


@array_function(_first)
def all(a, axis=None):
    if axis is not None:
        raise Undecided("np.all(axis=)")
    return _quant(a, True)


def _shape_preserving(name):
    fns = {}

    def impl(a, axis=None, **kw):
        a = asarray(a)
        if a.ndim != 1:
            raise Undecided("%s on n-d arrays" % name)
        e = a.snapshot()
        j = z3.Int("j!red")
        body = core.term(SV.lift(_num(_plain(e((SV(j, "i"),))))))
        if body.sort() == z3.IntSort():
            body = z3.ToReal(body)
        lam = z3.Lambda([j], body)
        f = fns.get("f")
        if f is None:
            f = fns["f"] = z3.Function("np_" + name, lam.sort(), z3.IntSort(), z3.IntSort(), z3.RealSort())
        n = core.term(SV.lift(a._shape[0]))
        out_n = a._shape[0] - 1 if name == "diff" else a._shape[0]
        return ndarray.from_elem(lambda idx: SV(f(lam, n, core.term(SV.lift(idx[0]))), "r"), (out_n,), a.dtype)

    impl.__name__ = name
    return array_function(_first)(impl)


cumsum = _shape_preserving("cumsum")
sort = _shape_preserving("sort")
diff = _shape_preserving("diff")


_ARGSORT = {}


@array_function(_first)
def argsort(a, axis=-1):
    """the permutation numpy returns is a function of the contents: ARGSORT(contents, n, r),
    with 0 <= ARGSORT < n (instantiated where used); sortedness is not needed by any contract"""
    a = asarray(a)
    if a.ndim != 1:
        raise Undecided("argsort on n-d arrays")
    n = a._shape[0]
    e = a.snapshot()
    j = z3.Int("j!red")
    body = core.term(SV.lift(_num(_plain(e((SV(j, "i"),))))))
    if body.sort() == z3.IntSort():
        body = z3.ToReal(body)
    lam = z3.Lambda([j], body)
    f = _ARGSORT.get("f")
    if f is None:
        f = _ARGSORT["f"] = z3.Function("np_argsort", lam.sort(), z3.IntSort(), z3.IntSort(), z3.IntSort())
    nt = core.term(SV.lift(n))

    def el(idx):
        r = SV.lift(idx[0])
        t = f(lam, nt, r.t)
        p2 = cur()
        k2 = ("argsortax", core.tid(t))
        if k2 not in p2.counter:
            p2.counter[k2] = 1
            p2.add(z3.Implies(z3.And(r.t >= 0, r.t < nt), z3.And(t >= 0, t < nt)))
        return SV(t, "i")

    return ndarray.from_elem(el, (n,), "int64")


@array_function(_seq_first)
def concatenate(seq, axis=0):
    arrs = [asarray(x) for x in seq]
    if not arrs:
        raise ValueError("need at least one array to concatenate")
    if builtins.any(a.ndim == 0 for a in arrs):
        raise ValueError("zero-dimensional arrays cannot be concatenated")
    dt = arrs[0].dtype
    for a in arrs[1:]:
        dt = _promote(dt, a.dtype)
    total = 0
    offs = []
    for a in arrs:
        offs.append(total)
        total = total + a._shape[0]
    snaps = [a.snapshot() for a in arrs]
    rest = arrs[0]._shape[1:]

    def el(idx):
        i = idx[0]
        out = snaps[-1]((i - offs[-1],) + tuple(idx[1:]))
        for k in _py_range(_py_len(arrs) - 2, -1, -1):
            out = _ite_val(SV.lift(i) < offs[k + 1], snaps[k]((i - offs[k],) + tuple(idx[1:])), out)
        return out

    ct = concrete(total)
    return ndarray.from_elem(el, ((ct if _py_isinstance(ct, int) else total),) + rest, dt)


def _where_rel(c, *xy):
    return (c,) + tuple(xy)


@array_function(_where_rel)
def where(c, *xy):
    if not xy:
        c = asarray(c)
        count, sel = _rowmap(c)
        return (ndarray.from_elem(lambda idx: sel(idx[0]), (count,), "int64"),)
    x, y = xy
    ops = [o if _is_scalar(o) else asarray(o) for o in (c, x, y)]
    arrs = [o for o in ops if _py_isinstance(o, ndarray)]
    if not arrs:
        return _ite_val(_to_bool(c), x, y)
    shape = _bc_shape([o._shape for o in arrs])
    snaps = [(o.snapshot(), o._shape) if _py_isinstance(o, ndarray) else (None, o) for o in ops]
    vals_dt = [o.dtype if _py_isinstance(o, ndarray) else None for o in ops[1:]]
    if vals_dt[0] is not None and vals_dt[1] is not None:
        dt = _promote(vals_dt[0], vals_dt[1])
    elif vals_dt[0] is not None or vals_dt[1] is not None:
        adt = vals_dt[0] or vals_dt[1]
        other = ops[2] if vals_dt[0] is not None else ops[1]
        dt = _promote(adt, _weak_scalar_dtype(other, adt))
    else:
        dt = _promote(_scalar_dtype(ops[1]), _scalar_dtype(ops[2]))

    def el(idx):
        vs = [s(_bc_index(idx, shp, shape)) if s is not None else shp for s, shp in snaps]
        return _ite_val(_to_bool(vs[0]), vs[1], vs[2])

    return ndarray.from_elem(el, shape, dt)


def argwhere(a):
    a = asarray(a)
    count, sel = _rowmap(a)
    return ndarray.from_elem(lambda idx: sel(idx[0]), (count, a.ndim), "int64")


def isclose(a, b, rtol=1e-05, atol=1e-08):
    """numpy: |a - b| <= atol + rtol * |b| (finite operands)"""
    d = subtract(a, b)
    return less_equal(absolute(d), add(atol, multiply(rtol, absolute(b))))


def shares_memory(a, b):
    """numpy: True when the two arrays overlap in memory; in the stub views of one buffer do"""
    return asarray(a).buf is asarray(b).buf


def atleast_2d(a):
    a = asarray(a)
    if a.ndim >= 2:
        return a
    if a.ndim == 1:
        return a._basic_view((None, slice(None)))
    return a._basic_view((None, None))


def append(a, v):
    return concatenate([asarray(a).ravel(), asarray(v).ravel()])


def insert(a, i, v):
    raise Undecided("np.insert")


class errstate:
    def __init__(self, **kw):
        pass

    def __enter__(self):
        return self

    def __exit__(self, *a):
        return False


# symbolic array constructors for contracts -------------------------------------------------
def sym_array(name, shape, dt, kind="r"):
    """array of arbitrary contents: elements are an uninterpreted function of the index"""
    p = cur()
    shape = tuple(shape)
    rng = z3.BoolSort() if kind == "b" else (z3.IntSort() if kind == "i" else z3.RealSort())
    f = z3.Function(p.fresh_name(name), *([z3.IntSort()] * _py_max(1, _py_len(shape))), rng)
    p.input_arrays.append((f.name(), f, shape))

    def el(idx):
        args = [core.term(SV.lift(i)) for i in idx] or [z3.IntVal(0)]
        return SV(f(*args), kind)

    a = ndarray.from_elem(el, shape, dt)
    a._sym_fn = f
    return a
