"""Assumed contract of pint (Unit, Quantity, UnitRegistry, DimensionalityError).

A unit is identified by a symbolic *spelling id* `sid`; pint's `Unit.__eq__` is structural, i.e.
equality of spelling ids.  SCALE(sid) > 0 is the factor to the registry's base units and
DIM_k(sid) the exponents of the base dimensions; both are functions of the spelling, so
`u == v` implies equal scale and dimension and nothing follows from `u != v`.
Offset units (degC, degF) are outside the contract.
"""
import fractions
import re

import z3

from .. import core
from ..core import SV, Undecided, concrete, cur

NDIM = 5  # length, mass, time, temperature, current
SCALE = z3.Function("SCALE", z3.IntSort(), z3.RealSort())
DIM = [z3.Function("DIM%d" % k, z3.IntSort(), z3.RealSort()) for k in range(NDIM)]
UMUL = z3.Function("umul", z3.IntSort(), z3.IntSort(), z3.IntSort())
UDIV = z3.Function("udiv", z3.IntSort(), z3.IntSort(), z3.IntSort())
UPOW = z3.Function("upow", z3.IntSort(), z3.RealSort(), z3.IntSort())
DIMLESS_SID = 0


class DimensionalityError(Exception):
    def __init__(self, u1=None, u2=None, *a):
        super().__init__("Cannot convert from %r to %r" % (u1, u2))
        self.units1, self.units2 = u1, u2


class errors:  # `from pint.errors import DimensionalityError`
    DimensionalityError = DimensionalityError


def _once(key):
    p = cur()
    if key in p.counter:
        return False
    p.counter[key] = 1
    return True


class Unit:
    """pint.Unit"""

    def __init__(self, sid, label=None):
        self.sid = sid if isinstance(sid, SV) else SV.lift(sid)
        self.label = label

    # --- abstraction --------------------------------------------------------------------
    def _ax(self):
        c = concrete(self.sid)
        if isinstance(c, int) and c in _CONCRETE:
            _assert_concrete(c)

    @property
    def scale(self):
        self._ax()
        return SV(SCALE(self.sid.t), "r")

    @property
    def dims(self):
        self._ax()
        return [SV(d(self.sid.t), "r") for d in DIM]

    def same_dim(self, other):
        return SV(z3.And(*[a.t == b.t for a, b in zip(self.dims, other.dims)]), "b")

    @property
    def dimensionless(self):
        return SV(z3.And(*[a.t == 0 for a in self.dims]), "b")

    def __repr__(self):
        return "<Unit %s>" % (self.label or z3.simplify(self.sid.t))

    def __str__(self):
        return self.label or "unit"

    def __format__(self, spec):
        return self.label or "unit"

    def __hash__(self):
        c = concrete(self.sid)
        if isinstance(c, int):
            return hash(("unit", c))
        raise TypeError("symbolic unit unhashable")

    # --- pint behaviour -----------------------------------------------------------------
    def __eq__(self, other):
        if isinstance(other, Unit):
            return self.sid == other.sid
        if isinstance(other, str):
            return self == REGISTRY.parse_units(other)
        return False

    def __ne__(self, other):
        r = self.__eq__(other)
        return (not r) if isinstance(r, bool) else ~r

    def __mul__(self, other):
        if isinstance(other, Unit):
            return umul(self, other)
        if isinstance(other, Quantity):
            return Quantity(other.magnitude, umul(self, other.units))
        return Quantity(other, self)

    def __rmul__(self, other):
        if isinstance(other, Unit):
            return umul(other, self)
        return Quantity(other, self)

    def __truediv__(self, other):
        if isinstance(other, Unit):
            return udiv(self, other)
        if isinstance(other, Quantity):
            return Quantity(1 / other.magnitude, udiv(self, other.units))
        return Quantity(1 / other, self)

    def __rtruediv__(self, other):
        if isinstance(other, Unit):
            return udiv(other, self)
        return Quantity(other, upow(self, -1))

    def __pow__(self, k):
        return upow(self, k)


def _concrete_unit(scale, dims, canon):
    """interned concrete unit: same canonical spelling -> same sid"""
    sid = _CANON.get(canon)
    if sid is None:
        sid = _CANON[canon] = len(_CANON)
        _CONCRETE[sid] = (scale, dims, canon)
    u = Unit(sid, label=_canon_label(canon))
    _assert_concrete(sid)
    return u


def _assert_concrete(sid):
    if core.active() and _once(("unitax", sid)):
        scale, dims, _ = _CONCRETE[sid]
        p = cur()
        s = z3.IntVal(sid)
        if isinstance(scale, tuple):  # (rational, pi_power_half) not used
            raise Undecided("irrational unit scale")
        p.add(SCALE(s) == core.rv(scale))
        for d, v in zip(DIM, dims):
            p.add(d(s) == core.rv(v))


_CANON = {(): 0}
_CONCRETE = {0: (fractions.Fraction(1), (fractions.Fraction(0),) * NDIM, ())}


def _canon_label(canon):
    if not canon:
        return "dimensionless"
    return " * ".join("%s ** %s" % (n, e) if e != 1 else n for n, e in canon)


def _info(u):
    c = concrete(u.sid)
    if isinstance(c, int) and c in _CONCRETE:
        return _CONCRETE[c]
    return None


def umul(a, b):
    ia, ib = _info(a), _info(b)
    if ia and ib:
        return _combine(ia, ib, 1)
    if ia and not ia[2]:
        return b
    if ib and not ib[2]:
        return a
    sid = SV(UMUL(a.sid.t, b.sid.t), "i")
    u = Unit(sid, label="(%s*%s)" % (a.label, b.label))
    if _once(("umul", core.tid(a.sid.t), core.tid(b.sid.t))):
        p = cur()
        p.add(SCALE(sid.t) == SCALE(a.sid.t) * SCALE(b.sid.t))
        p.add(SCALE(sid.t) > 0)
        for d in DIM:
            p.add(d(sid.t) == d(a.sid.t) + d(b.sid.t))
        p.add(UMUL(a.sid.t, b.sid.t) == UMUL(b.sid.t, a.sid.t))
    return u


def udiv(a, b):
    ia, ib = _info(a), _info(b)
    if ia and ib:
        return _combine(ia, ib, -1)
    if ib and not ib[2]:
        return a
    sid = SV(UDIV(a.sid.t, b.sid.t), "i")
    u = Unit(sid, label="(%s/%s)" % (a.label, b.label))
    if _once(("udiv", core.tid(a.sid.t), core.tid(b.sid.t))):
        p = cur()
        p.add(SCALE(sid.t) * SCALE(b.sid.t) == SCALE(a.sid.t))
        p.add(SCALE(sid.t) > 0)
        for d in DIM:
            p.add(d(sid.t) == d(a.sid.t) - d(b.sid.t))
        # structural: u/u is the empty container
        p.add(z3.Implies(a.sid.t == b.sid.t, sid.t == DIMLESS_SID))
    _assert_concrete(0)
    return u


def upow(a, k):
    ck = concrete(k)
    if ck is None:
        raise Undecided("unit raised to a symbolic power")
    fk = fractions.Fraction(ck).limit_denominator(1000)
    ia = _info(a)
    if ia:
        scale, dims, canon = ia
        if fk.denominator != 1:
            # rational powers of a concrete scale: exact only for perfect powers
            num = _exact_root(scale ** fk.numerator, fk.denominator) if fk.numerator >= 0 else None
            if fk.numerator < 0:
                num = _exact_root((1 / scale) ** (-fk.numerator), fk.denominator)
            if num is None:
                raise Undecided("irrational scale from unit power")
            nscale = num
        else:
            nscale = scale ** fk.numerator
        ndims = tuple(d * fk for d in dims)
        ncanon = tuple(sorted((n, e * fk) for n, e in canon if e * fk != 0))
        return _concrete_unit(nscale, ndims, ncanon)
    if fk == 1:
        return a
    kt = core.rv(fk)
    sid = SV(UPOW(a.sid.t, kt), "i")
    u = Unit(sid, label="(%s**%s)" % (a.label, fk))
    if _once(("upow", core.tid(a.sid.t), str(fk))):
        p = cur()
        s, sa = SCALE(sid.t), SCALE(a.sid.t)
        p.add(s > 0)
        if fk.denominator == 1 and abs(fk.numerator) <= 6:
            acc = sa
            for _ in range(abs(fk.numerator) - 1):
                acc = acc * sa
            if fk.numerator > 0:
                p.add(s == acc)
            elif fk.numerator < 0:
                p.add(s * acc == 1)
            else:
                p.add(s == 1)
        elif fk.numerator == 1 and fk.denominator <= 4:
            acc = s
            for _ in range(fk.denominator - 1):
                acc = acc * s
            p.add(acc == sa)
        else:
            raise Undecided("unit power %s" % fk)
        for d in DIM:
            p.add(d(sid.t) == d(a.sid.t) * kt)
        if fk == 0:
            p.add(sid.t == DIMLESS_SID)
    return u


def _exact_root(fr, n):
    def iroot(v):
        r = round(v ** (1.0 / n))
        for c in (r - 1, r, r + 1):
            if c >= 0 and c ** n == v:
                return c
        return None

    a, b = iroot(fr.numerator), iroot(fr.denominator)
    if a is None or b is None:
        return None
    return fractions.Fraction(a, b)


def _combine(ia, ib, sign):
    sa, da, ca = ia
    sb, db, cb = ib
    scale = sa * sb if sign > 0 else sa / sb
    dims = tuple(x + sign * y for x, y in zip(da, db))
    m = dict(ca)
    for n, e in cb:
        m[n] = m.get(n, 0) + sign * e
    canon = tuple(sorted((n, e) for n, e in m.items() if e != 0))
    return _concrete_unit(scale, dims, canon)


def sym_unit(name, family=None):
    """an arbitrary (non-offset) unit; `family` ties its dimension to another unit's"""
    sid = core.fresh_int("sid_" + name, 1000, None)
    u = Unit(sid, label=name)
    p = cur()
    p.add(SCALE(sid.t) > 0)
    p.inputs["scale_" + name] = SCALE(sid.t)
    for k, d in enumerate(DIM):
        p.inputs["dim%d_%s" % (k, name)] = d(sid.t)
    _assert_concrete(0)
    if family is not None:
        for d in DIM:
            p.add(d(sid.t) == d(family.sid.t))
    return u


# --------------------------------------------------------------------------------------
class Quantity:
    """pint.Quantity"""

    __array_priority__ = 17

    def __init__(self, magnitude, units=None):
        if isinstance(magnitude, Quantity):
            units = magnitude.units if units is None else units
            magnitude = magnitude.magnitude
        self.magnitude = magnitude
        if units is None:
            units = REGISTRY.dimensionless
        if isinstance(units, str):
            units = REGISTRY.parse_units(units)
        self.units = units

    m = property(lambda self: self.magnitude)
    u = property(lambda self: self.units)

    def __repr__(self):
        return "<Quantity(%r, %r)>" % (self.magnitude, self.units)

    @property
    def shape(self):
        return getattr(self.magnitude, "shape", ())

    @property
    def dtype(self):
        return self.magnitude.dtype

    def to(self, other):
        if isinstance(other, Quantity):
            other = other.units
        if isinstance(other, str):
            other = REGISTRY.parse_units(other)
        if not bool(self.units.same_dim(other)):
            raise DimensionalityError(self.units, other)
        if self.units is other or self.units.sid.t.eq(other.sid.t):
            return Quantity(self.magnitude * 1.0, other)  # the conversion factor between identical units is exactly 1
        return Quantity(self.magnitude * (self.units.scale / other.scale), other)

    def to_base_units(self):
        raise Undecided("to_base_units")

    def __mul__(self, o):
        if isinstance(o, Quantity):
            return Quantity(self.magnitude * o.magnitude, umul(self.units, o.units))
        if isinstance(o, Unit):
            return Quantity(self.magnitude, umul(self.units, o))
        if hasattr(o, "__array_ufunc__") and not isinstance(o, (SV,)) and type(o).__name__ in ("Array", "Vector"):
            return NotImplemented
        return Quantity(self.magnitude * o, self.units)

    def __rmul__(self, o):
        if isinstance(o, Unit):
            return Quantity(self.magnitude, umul(o, self.units))
        return Quantity(o * self.magnitude, self.units)

    def __truediv__(self, o):
        if isinstance(o, Quantity):
            return Quantity(self.magnitude / o.magnitude, udiv(self.units, o.units))
        if isinstance(o, Unit):
            return Quantity(self.magnitude, udiv(self.units, o))
        if type(o).__name__ in ("Array", "Vector"):
            return NotImplemented
        return Quantity(self.magnitude / o, self.units)

    def __rtruediv__(self, o):
        if isinstance(o, Unit):
            return Quantity(1 / self.magnitude, udiv(o, self.units))
        return Quantity(o / self.magnitude, upow(self.units, -1))

    def __pow__(self, k):
        return Quantity(self.magnitude ** k, upow(self.units, k))

    def __neg__(self):
        return Quantity(-self.magnitude, self.units)

    def _same(self, o):
        if isinstance(o, Quantity):
            return o.to(self.units).magnitude
        if not bool(self.units.dimensionless):
            raise DimensionalityError(self.units, "dimensionless")
        return o / self.units.scale

    def __add__(self, o):
        return Quantity(self.magnitude + self._same(o), self.units)

    __radd__ = __add__

    def __sub__(self, o):
        return Quantity(self.magnitude - self._same(o), self.units)

    def __lt__(self, o):
        return self.magnitude < self._same(o)

    def __le__(self, o):
        return self.magnitude <= self._same(o)

    def __gt__(self, o):
        return self.magnitude > self._same(o)

    def __ge__(self, o):
        return self.magnitude >= self._same(o)

    # numpy protocol: the unit laws pint applies for the ufuncs osyris routes through it
    def __array_ufunc__(self, uf, method, *inputs, **kwargs):
        if method != "__call__":
            return NotImplemented
        name = uf.__name__
        mags = [i.magnitude if isinstance(i, Quantity) else i for i in inputs]
        us = [i.units if isinstance(i, Quantity) else REGISTRY.dimensionless for i in inputs]
        if name == "multiply":
            return Quantity(uf(*mags), umul(us[0], us[1]))
        if name in ("divide", "true_divide"):
            return Quantity(uf(*mags), udiv(us[0], us[1]))
        if name == "sqrt":
            return Quantity(uf(*mags), upow(us[0], fractions.Fraction(1, 2)))
        if name == "square":
            return Quantity(uf(*mags), upow(us[0], 2))
        if name == "cbrt":
            return Quantity(uf(*mags), upow(us[0], fractions.Fraction(1, 3)))
        if name == "reciprocal":
            return Quantity(uf(*mags), upow(us[0], -1))
        if name == "power":
            if isinstance(inputs[1], Quantity):
                if not bool(us[1].dimensionless):
                    raise DimensionalityError(us[1], "dimensionless")
            k = mags[1]
            if hasattr(k, "ndim"):
                if k.ndim != 0:
                    # pint refuses an exponent array on a quantity with units
                    raise DimensionalityError(us[0], "dimensionless")
                k = k.elem(())
            return Quantity(uf(*mags), upow(us[0], k))
        if name in ("negative", "positive", "absolute"):
            return Quantity(uf(*mags), us[0])
        if name in ("add", "subtract", "maximum", "minimum", "hypot"):
            other = inputs[1].to(us[0]).magnitude if isinstance(inputs[1], Quantity) else inputs[1]
            return Quantity(uf(mags[0], other), us[0])
        raise Undecided("pint ufunc %s" % name)


class UnitRegistry:
    def __init__(self, system=None, **kw):
        self.system = system
        self._defs = dict(_BASE_UNITS)
        self.dimensionless = _concrete_unit(fractions.Fraction(1), (fractions.Fraction(0),) * NDIM, ())
        global REGISTRY
        REGISTRY = self
        self.defined = []  # raw define() strings, for the C08 catalogue check

    Quantity = Quantity
    Unit = Unit

    def define(self, definition):
        self.defined.append(definition)
        parts = [p.strip() for p in definition.split("=")]
        name, expr, aliases = parts[0], parts[1], parts[2:]
        q = self.parse_expression(expr)
        mag = concrete(q.magnitude) if isinstance(q.magnitude, SV) else q.magnitude
        info = _info(q.units)
        scale = fractions.Fraction(mag) * info[0]
        for n in [name] + aliases:
            self._defs[n] = (scale, info[1])

    # -- parsing of unit expressions (names, numbers, * / ** ^, parentheses) -------------
    def parse_units(self, s):
        return self.parse_expression(s).units

    def __call__(self, s):
        return self.parse_expression(s)

    def parse_expression(self, s):
        if s is None or (isinstance(s, str) and s.strip() == ""):
            return Quantity(1, self.dimensionless)
        if isinstance(s, (int, float, SV)):
            return Quantity(s, self.dimensionless)
        if not isinstance(s, str):
            raise Undecided("unit expression %r" % (s,))
        toks = re.findall(r"\s*(\*\*|\^|[A-Za-z_][A-Za-z_0-9]*|\d+\.?\d*(?:[eE][-+]?\d+)?|\.\d+|[()*/+-])", s)
        if "".join(toks).replace(" ", "") != s.replace(" ", ""):
            raise Undecided("cannot tokenise unit expression %r" % s)
        pos = [0]

        def peek():
            return toks[pos[0]] if pos[0] < len(toks) else None

        def nxt():
            t = peek()
            pos[0] += 1
            return t

        def atom():
            t = nxt()
            if t == "(":
                v = expr()
                if nxt() != ")":
                    raise Undecided("unbalanced unit expression")
                return v
            if t == "-":
                m, u = atom()
                return (-m, u)
            if re.match(r"^[\d.]", t):
                return (_dec(t), None)
            return (fractions.Fraction(1), self._lookup(t))

        def powr():
            m, u = atom()
            while peek() in ("**", "^"):
                nxt()
                em, eu = unary()
                if eu is not None:
                    raise Undecided("unit in exponent")
                m = m ** em if em.denominator == 1 else fractions.Fraction(float(m) ** float(em))
                u = upow(u, em) if u is not None else None
            return (m, u)

        def unary():
            if peek() == "-":
                nxt()
                m, u = powr()
                return (-m, u)
            return powr()

        def expr():
            m, u = unary()
            while peek() in ("*", "/") or (peek() is not None and peek() not in (")", "+", "-")):
                op = nxt() if peek() in ("*", "/") else "*"
                m2, u2 = unary()
                if op == "*":
                    m = m * m2
                    u = u2 if u is None else (u if u2 is None else umul(u, u2))
                else:
                    m = m / m2
                    u = (upow(u2, -1) if u2 is not None else None) if u is None else (
                        u if u2 is None else udiv(u, u2))
            return (m, u)

        m, u = expr()
        if pos[0] != len(toks):
            raise Undecided("trailing tokens in unit expression %r" % s)
        mag = int(m) if m.denominator == 1 else float(m)
        if m.denominator != 1:
            mag = SV(core.rv(m), "r") if core.active() else float(m)
        return Quantity(mag, u if u is not None else self.dimensionless)

    def _lookup(self, name):
        d = self._defs.get(name)
        if d is None:
            # SI prefixes on a known unit
            for pre, f in _PREFIXES.items():
                if name.startswith(pre) and name[len(pre):] in self._defs:
                    s, dims = self._defs[name[len(pre):]]
                    canon_name = _CANON_NAME.get(name[len(pre):], name[len(pre):])
                    return _concrete_unit(s * f, dims, ((pre + canon_name, fractions.Fraction(1)),))
            raise Undecided("unit %r not in the stub registry" % name)
        canon_name = _CANON_NAME.get(name, name)
        return _concrete_unit(d[0], d[1], ((canon_name, fractions.Fraction(1)),))


def _dec(t):
    import decimal

    return fractions.Fraction(decimal.Decimal(t))


F = fractions.Fraction


def _d(L=0, M=0, T=0, K=0, A=0):
    return (F(L), F(M), F(T), F(K), F(A))


# base units of the cgs system: cm, g, s, K ; scale = factor to (cm, g, s, K)
_BASE_UNITS = {
    "dimensionless": (F(1), _d()),
    "cm": (F(1), _d(L=1)), "centimeter": (F(1), _d(L=1)),
    "m": (F(100), _d(L=1)), "meter": (F(100), _d(L=1)), "metre": (F(100), _d(L=1)),
    "km": (F(100000), _d(L=1)), "kilometer": (F(100000), _d(L=1)),
    "mm": (F(1, 10), _d(L=1)),
    "au": (F(1495978707, 1) * 10000, _d(L=1)), "astronomical_unit": (F(1495978707, 1) * 10000, _d(L=1)),
    "g": (F(1), _d(M=1)), "gram": (F(1), _d(M=1)),
    "kg": (F(1000), _d(M=1)), "kilogram": (F(1000), _d(M=1)),
    "s": (F(1), _d(T=1)), "second": (F(1), _d(T=1)), "sec": (F(1), _d(T=1)),
    "minute": (F(60), _d(T=1)), "hour": (F(3600), _d(T=1)),
    "K": (F(1), _d(K=1)), "kelvin": (F(1), _d(K=1)),
    "erg": (F(1), _d(L=2, M=1, T=-2)),
    "J": (F(10**7), _d(L=2, M=1, T=-2)), "joule": (F(10**7), _d(L=2, M=1, T=-2)),
    "W": (F(10**7), _d(L=2, M=1, T=-3)), "watt": (F(10**7), _d(L=2, M=1, T=-3)),
    "N": (F(10**5), _d(L=1, M=1, T=-2)), "newton": (F(10**5), _d(L=1, M=1, T=-2)),
    "dyn": (F(1), _d(L=1, M=1, T=-2)), "dyne": (F(1), _d(L=1, M=1, T=-2)),
    "Pa": (F(10), _d(L=-1, M=1, T=-2)),
    "G": (F(1), _d(L=F(-1, 2), M=F(1, 2), T=-1)), "gauss": (F(1), _d(L=F(-1, 2), M=F(1, 2), T=-1)),
}
_CANON_NAME = {
    "cm": "centimeter", "m": "meter", "metre": "meter", "km": "kilometer", "g": "gram",
    "kg": "kilogram", "s": "second", "sec": "second", "K": "kelvin", "J": "joule", "W": "watt",
    "N": "newton", "dyn": "dyne", "G": "gauss", "au": "astronomical_unit",
    "L_bol0": "bolometric_luminosity", "L_sun": "solar_luminosity", "L_sol": "solar_luminosity",
    "M_earth": "earth_mass", "M_jup": "jupiter_mass", "M_sun": "solar_mass", "M_sol": "solar_mass",
    "R_earth": "earth_radius", "R_jup": "jupiter_radius", "R_sun": "solar_radius",
    "R_sol": "solar_radius", "ar": "radiation_constant",
}
_PREFIXES = {"k": F(1000), "c": F(1, 100), "m": F(1, 1000), "M": F(10**6)}

REGISTRY = None
