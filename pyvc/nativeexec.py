import importlib
import json
import os
import shutil
import sys
import tempfile
import traceback

if __name__ == "__main__":
    target, tier, seed = sys.argv[1], sys.argv[2], int(sys.argv[3])
    home = tempfile.mkdtemp(prefix="native_home_")
    os.environ["HOME"] = home
    try:
        mod, fn = target.split(":")
        r = getattr(importlib.import_module(mod), fn)(tier, seed)
    except Exception as e:
        r = {"status": "error", "detail": "%r\n%s" % (e, traceback.format_exc(limit=10))}
    finally:
        shutil.rmtree(home, ignore_errors=True)
    print("@@RESULT " + json.dumps(r, default=str))
