import importlib
import json
import os
import shutil
import sys
import tempfile
import traceback

if __name__ == "__main__":
    target, tier, seed = sys.argv[1], sys.argv[2], int(sys.argv[3])
    home = tempfile.mkdtemp(prefix="native_home_")
    os.environ["HOME"] = home
    try:
        mod, fn = target.split(":")
        r = getattr(importlib.import_module(mod), fn)(tier, seed)
    except Exception as e:
        # an exception that travelled through the code under test (a frame inside $OSYRIS_SRC) while an oracle was
        # exercising it natively is an observed failure of the real code, with the traceback as the witness; anything
        # else is a defect of the oracle itself (checker error)
        src = os.path.realpath(os.environ.get("OSYRIS_SRC", "/repo/src"))
        frames = traceback.extract_tb(e.__traceback__)
        through = [f for f in frames if os.path.realpath(f.filename).startswith(src)]
        if through:
            import re

            m = re.search(r"[cC](\d\d)", target.split(":")[1]) or re.search(r"[cC](\d\d)", target.split(":")[0])
            prop = ("C" + m.group(1)) if m else "native"
            where = "%s:%d in %s" % (os.path.relpath(through[-1].filename, src), through[-1].lineno, through[-1].name)
            name = "%s.native.unexpected_exception" % prop
            r = {"status": "violation", "cases": 1, "distinct": 1, "kind": "bounded-native",
                 "violations": [{"name": name, "input": {"traceback": traceback.format_exc(limit=12)[-1500:]},
                                 "observed": "the real code raised %r at %s while the native oracle was calling it" % (e, where)}]}
        else:
            r = {"status": "error", "detail": "%r\n%s" % (e, traceback.format_exc(limit=10))}
    finally:
        shutil.rmtree(home, ignore_errors=True)
    print("@@RESULT " + json.dumps(r, default=str))
