"""Registration of verification units (one real function x one case of its contract) and of
call-site summaries (a callee replaced by its contract while a caller is verified)."""
import contextlib
import importlib

from . import core, loader

UNITS = []
SUMMARIES = {}  # name -> (modname, qualname, factory(real) -> replacement)
BOUNDED = []


class UnitDef:
    def __init__(self, prop, name, fn, case, label, targets, uses, replay, max_paths, inline):
        self.prop, self.name, self.fn, self.case, self.label = prop, name, fn, case, label
        self.targets, self.uses, self.replay = targets, uses, replay
        self.max_paths = max_paths
        self.inline = inline

    @property
    def full(self):
        return "%s.%s%s" % (self.prop, self.name, "[%s]" % self.label if self.label else "")


def unit(prop, name, targets=(), uses=(), cases=None, replay=None, max_paths=4000, inline=()):
    """Register `fn(case)` as the verification of `targets` (real functions, "module:qualname")
    under the contract clauses it proves.  `uses` names call-site summaries to install."""

    def deco(fn):
        cs = cases if cases is not None else [None]
        for c in cs:
            label = "" if c is None else (c["label"] if isinstance(c, dict) and "label" in c else _label(c))
            UNITS.append(UnitDef(prop, name, fn, c, label, tuple(targets), tuple(uses), replay, max_paths,
                                 tuple(inline)))
        return fn

    return deco


def _label(c):
    if isinstance(c, (tuple, list)):
        return ",".join(_label(x) for x in c)
    if isinstance(c, dict):
        return ",".join("%s=%s" % (k, _label(v)) for k, v in c.items())
    return getattr(c, "__name__", str(c))


def summary(name, target):
    """Register a call-site summary: `factory(real_function)` returns the replacement that
    proves the callee's precondition and returns its specified result."""

    def deco(factory):
        mod, qual = target.split(":")
        SUMMARIES[name] = (mod, qual, factory)
        return factory

    return deco


def bounded(prop, name, bound):
    def deco(fn):
        BOUNDED.append((prop, name, bound, fn))
        return fn

    return deco


def resolve(target):
    mod, qual = target.split(":")
    m = importlib.import_module(mod)
    obj = m
    parent = None
    for part in qual.split("."):
        parent = obj
        obj = getattr(obj, part)
    return parent, qual.split(".")[-1], obj


@contextlib.contextmanager
def installed(uses):
    """install the named call-site summaries for the duration of one unit"""
    saved = []
    try:
        for name in uses:
            mod, qual, factory = SUMMARIES[name]
            parent, attr, _ = resolve(mod + ":" + qual)
            raw = parent.__dict__[attr] if isinstance(parent, type) else getattr(parent, attr)
            saved.append((parent, attr, raw))
            setattr(parent, attr, factory(raw))
        yield
    finally:
        for parent, attr, raw in reversed(saved):
            setattr(parent, attr, raw)


def run_unit(u):
    """explore one unit; returns a JSON-able dict"""
    loader.install()

    def body():
        u.fn(u.case)

    with installed(u.uses):
        res = core.explore(u.full, body, max_paths=u.max_paths)
    d = res.as_dict()
    d["prop"] = u.prop
    d["unit"] = u.full
    d["targets"] = [dict(loader.function_source(*t.split(":")) or {}, target=t) for t in u.targets]
    d["uses"] = list(u.uses)
    d["inline"] = list(u.inline)
    d["case"] = u.label
    for ob in d["obligations"]:
        ob["name"] = "%s.%s" % (u.full, ob["name"])
    return d


def O():
    """the symbolically loaded osyris package"""
    return loader.load("osyris")


def M(name):
    """a symbolically loaded osyris module by dotted name (osyris.plot is shadowed by the function plot)"""
    loader.install()
    return importlib.import_module(name)
