"""Run a bounded stand-in natively (real numpy/pint/numba, real osyris of $OSYRIS_SRC) in a
subprocess and return its JSON result."""
import json
import os
import subprocess

ROOT = os.path.dirname(os.path.dirname(os.path.abspath(__file__)))
PY = os.path.join(ROOT, ".venv", "bin", "python")


def run(target, tier, seed, timeout=3600, extra_env=None):
    env = dict(os.environ)
    src = os.environ.get("OSYRIS_SRC", "/repo/src")
    env["PYTHONPATH"] = src + os.pathsep + ROOT
    env.pop("PYVC_NO_REEXEC", None)
    if extra_env:
        env.update(extra_env)
    try:
        out = subprocess.run([PY, os.path.join(ROOT, "pyvc", "nativeexec.py"), target, tier, str(seed)],
                             capture_output=True, text=True, timeout=timeout, env=env, cwd=ROOT)
    except subprocess.TimeoutExpired:
        return {"status": "error", "detail": "bounded check timed out"}
    lines = [l for l in out.stdout.splitlines() if l.startswith("@@RESULT ")]
    if not lines:
        return {"status": "error", "detail": (out.stdout + out.stderr)[-3000:]}
    return json.loads(lines[-1][len("@@RESULT "):])
