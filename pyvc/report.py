"""Triage of obligation results, replay, known-findings matching, evidence."""
import fnmatch
import hashlib
import json
import os
import re
import subprocess
import sys
import time

ROOT = os.path.dirname(os.path.dirname(os.path.abspath(__file__)))
PY = os.path.join(ROOT, ".venv", "bin", "python")

ASSUMPTIONS_ALWAYS = [
    "machine floating point treated as real arithmetic (no rounding, overflow, NaN except the explicit NaN tag)",
    "numpy integer dtypes treated as mathematical integers (no wrap-around)",
    "numpy, pint, struct, numba, matplotlib behave as the stubs in pyvc/stubs state (assumed contracts, never proved; "
    "the numpy stub is compared with the real numpy on a catalogue of concrete expressions by checks/crosscheck.py, and "
    "every property's bounded native stand-in runs the real libraries end to end)",
    "numba compiles the Python source of @njit kernels faithfully; prange semantics as documented by numba",
    "CPython executes the extracted module text exactly as it executes the repository file "
    "(extraction changes only imports, a fixed set of builtins and loops with a sidecar invariant)",
]


def _safe(name):
    return re.sub(r"[^A-Za-z0-9_.\-\[\],=]", "_", name)[:150]


def load_known():
    p = os.path.join(ROOT, "known_findings.json")
    if not os.path.exists(p):
        return {"findings": [], "fixed": []}
    with open(p) as f:
        return json.load(f)


def match_known(known, prop, obligation):
    for k in known.get("findings", []):
        if k.get("property") == prop and fnmatch.fnmatchcase(obligation, k.get("obligation", "")):
            return k
    return None


def run_replay(path):
    env = dict(os.environ)
    src = os.environ.get("OSYRIS_SRC", "/repo/src")
    env["PYTHONPATH"] = src + os.pathsep + ROOT
    env.pop("PYVC_NO_REEXEC", None)
    try:
        out = subprocess.run([PY, os.path.join(ROOT, "replay", "run.py"), path], capture_output=True, text=True,
                             timeout=600, env=env, cwd=ROOT)
        return out.returncode, (out.stdout + out.stderr)[-4000:]
    except subprocess.TimeoutExpired:
        return 2, "replay timed out"


def finish(prop, tier, seed, mod, results, extra, t_start, verbose=False):
    from . import api, loader

    known = load_known()
    obligations = []
    errors = []
    functions = {}
    inlined = set()
    uses = set()
    for d in results:
        for t in d.get("targets", []):
            functions[t.get("target")] = t
        for u in d.get("uses", []):
            uses.add(u)
        for i in d.get("inline", []):
            inlined.add(i)
        for e in d.get("errors", []):
            errors.append({"unit": d["unit"], "error": e[:1500]})
        if not d["obligations"] and not d.get("errors"):
            errors.append({"unit": d["unit"], "error": "vacuity: unit generated zero obligations"})
        # vacuity guard: on at least one path that reaches the exit the path condition must not be
        # refutable (z3 answering `unknown` on lambda/quantifier terms means "no contradiction found",
        # the same strength as the proofs themselves)
        if d.get("paths", 0) and d.get("covers", {}).get("exit") not in ("sat", "unknown") and not d.get("errors") \
                and d.get("cut", 0) + d.get("infeasible", 0) < d.get("paths", 0):
            errors.append({"unit": d["unit"], "error": "vacuity: the path condition is contradictory on every path that reaches the exit"})
        for ob in d["obligations"]:
            ob = dict(ob)
            ob["unit"] = d["unit"]
            obligations.append(ob)

    n_ob = len(obligations)
    discharged = [o for o in obligations if o["status"] == "discharged"]
    refuted = [o for o in obligations if o["status"] == "refuted"]
    unknown = [o for o in obligations if o["status"] == "unknown"]

    violations = []
    known_hits = []
    os.makedirs(os.path.join(ROOT, "replays", prop), exist_ok=True)
    unit_by_name = {u.full: u for u in api.UNITS}
    import concurrent.futures

    prepared = []
    # an undecided obligation that carries a candidate counterexample (core.lemma) is replayed like a refuted one; only a
    # failing input reproduced on the real code turns it into a violation
    candidates = [o for o in unknown if isinstance(o.get("model"), dict) and o["model"].get("candidate_from_lemma")]
    seen_cand = set()
    for ob in list(refuted) + candidates:
        k = match_known(known, prop, ob["name"])
        u = unit_by_name.get(ob["unit"])
        rel = os.path.join("replays", prop, _safe(ob["name"]) + ".json")
        rec = {
            "property": prop,
            "obligation": ob["name"],
            "unit": ob["unit"],
            "case": u.label if u else None,
            "status": "refuted by z3 (pc and not clause satisfiable)" if ob["status"] == "refuted" else
                      "undecided by z3; candidate counterexample from the lemma's hypotheses, decided by replay",
            "model": ob.get("model"),
            "path_decisions": ob.get("path"),
            "solver_note": ob.get("note"),
            "tainted": ob.get("tainted"),
            "replay_function": (u.replay.__module__ + ":" + u.replay.__name__) if (u and u.replay) else None,
            "command": "%s replay/run.py %s" % (".venv/bin/python", rel),
            "source": {t.get("target"): t for t in (next((d for d in results if d["unit"] == ob["unit"]), {}).get("targets", []))},
        }
        with open(os.path.join(ROOT, rel), "w") as f:
            json.dump(rec, f, indent=1, default=str)
        prepared.append((ob, k, u, rel, rec))

    def _do(item):
        ob, k, u, rel, rec = item
        if u is None or u.replay is None:
            return None
        return run_replay(os.path.join(ROOT, rel))

    with concurrent.futures.ThreadPoolExecutor(max_workers=16) as ex:
        outs = list(ex.map(_do, prepared))
    for (ob, k, u, rel, rec), out in zip(prepared, outs):
        reproduced = None
        if out is not None:
            rc, text = out
            reproduced = rc == 1
            try:
                with open(os.path.join(ROOT, rel)) as f:
                    rec = json.load(f)
            except Exception:
                pass
            rec.update({"replay_exit": rc, "replay_output": text})
            with open(os.path.join(ROOT, rel), "w") as f:
                json.dump(rec, f, indent=1, default=str)
        ob["replay"] = rel
        ob["reproduced"] = reproduced
        if ob["status"] == "unknown":
            if reproduced:
                unknown.remove(ob)
                if k is not None:
                    known_hits.append((k, ob))
                else:
                    violations.append((ob, rel, True))
            continue
        if ob.get("tainted"):
            unknown.append(ob)
            continue
        if k is not None:
            known_hits.append((k, ob))
        else:
            violations.append((ob, rel, reproduced))

    # bounded stand-ins
    bounded_summ = []
    for r in extra:
        entry = {k: r.get(k) for k in ("name", "status", "bound", "cases", "distinct", "wall", "detail", "samples", "kind")}
        bounded_summ.append(entry)
        if r.get("status") == "error":
            errors.append({"unit": r["name"], "error": (r.get("detail") or "")[:1500]})
        for v in r.get("violations", []) or []:
            name = v.get("name", r["name"])
            k = match_known(known, prop, name)
            rel = os.path.join("replays", prop, _safe(name) + ".json")
            with open(os.path.join(ROOT, rel), "w") as f:
                json.dump({"property": prop, "obligation": name, "bounded": True, "bound": r.get("bound"), **v}, f,
                          indent=1, default=str)
            if k is not None:
                known_hits.append((k, {"name": name}))
            else:
                violations.append(({"name": name, "unit": r["name"]}, rel, True))

    # ---- output -------------------------------------------------------------------------
    seen = set()
    for k, ob in known_hits:
        key = (k.get("obligation"), k.get("what"))
        if key in seen:
            continue
        seen.add(key)
        print("KNOWN-FINDING: property=%s %s — %s" % (prop, k.get("obligation"), k.get("what")))
    for ob in unknown:
        print("UNDECIDED property=%s obligation=%s" % (prop, ob["name"]))
    for e in errors:
        print("UNDECIDED property=%s unit=%s reason=%s" % (prop, e["unit"], e["error"].splitlines()[0][:300]))
    for ob, rel, reproduced in violations:
        tail = "" if reproduced else " no-failing-input-found"
        print("VIOLATION property=%s replay=%s obligation=%s%s" % (prop, rel, ob["name"], tail))

    # ---- evidence -----------------------------------------------------------------------
    level_claimed = getattr(mod, "LEVEL", "other")
    backends = {}
    for o in obligations:
        for b in o.get("backend", []):
            backends[b] = backends.get(b, 0) + 1
    solver_time = round(sum(d.get("solver_time", 0) for d in results), 2)
    samples = [
        {"obligation": o["name"], "status": o["status"], "instances": o.get("instances"), "backend": o.get("backend"),
         "time_s": o.get("time")}
        for o in obligations[:: max(1, len(obligations) // 12)][:14]
    ]
    n_discharged = len(discharged)
    cov = {
        "obligations": n_ob,
        "discharged": n_discharged,
        "refuted": len(refuted),
        "undecided": len(unknown) + len(errors),
        "checker_cmd": "python3 checks/run.py %s --tier %s  (pyvc symbolic execution of /repo/src/osyris; z3 %s, "
                       "cvc5/z3-4.8 on unknown)" % (prop, tier, _z3v()),
        "trusted_base": sorted(set(getattr(mod, "TRUSTED", []))) + ["pyvc/stubs/np.py", "pyvc/stubs/pint.py",
                                                                    "pyvc/stubs/misc.py", "pyvc/core.py (VC generator)"],
        "functions_under_contract": sorted(functions.values(), key=lambda t: t.get("target") or ""),
        "call_site_summaries_used": sorted(uses),
        "inlined_from_real_source": sorted(inlined),
        "units": len(results),
        "paths": sum(d.get("paths", 0) for d in results),
        "backends": backends,
        "solver_time_s": solver_time,
        "bounded": bounded_summ,
        "known_findings_matched": sorted({k.get("obligation") for k, _ in known_hits}),
        "undecided_detail": [e for e in errors][:20] + [{"obligation": o["name"]} for o in unknown][:20],
        "samples": samples,
        "source_sha256": dict(loader.FILE_SHA),
        "explanation": getattr(mod, "EXPLANATION", ""),
        "evaluations": n_ob + sum((r.get("cases") or 0) for r in extra),
        "distinct_nontrivial": n_discharged + sum((r.get("distinct") or 0) for r in extra),
        "rule": "one evaluation per (obligation clause x unit case); distinct = clauses discharged by a solver "
                "(not by the simplifier alone are counted too); bounded cases are added with their own rule",
    }
    level = level_claimed
    if level == "proof" and (n_discharged != n_ob or errors):
        level = "other"
        cov["explanation"] = (cov["explanation"] + " | this run: %d of %d obligations discharged; level reported "
                              "as 'other' for this run" % (n_discharged, n_ob)).strip(" |")
    if level == "other" and not cov["explanation"]:
        cov["explanation"] = "deductive obligations plus bounded stand-ins; see coverage keys"
    ev = {
        "property_id": prop,
        "tier": tier,
        "seed": seed,
        "level": level,
        "coverage": cov,
        "assumptions": ASSUMPTIONS_ALWAYS + list(getattr(mod, "ASSUMPTIONS", [])),
        "wall_s": round(time.time() - t_start, 2),
        "violations": len(violations),
    }
    os.makedirs(os.path.join(ROOT, "evidence"), exist_ok=True)
    with open(os.path.join(ROOT, "evidence", "%s.json" % prop), "w") as f:
        json.dump(ev, f, indent=1, default=str)
    print("%s tier=%s units=%d obligations=%d discharged=%d refuted=%d (known %d) undecided=%d bounded=%d wall=%.1fs"
          % (prop, tier, len(results), n_ob, n_discharged, len(refuted), len(known_hits), len(unknown) + len(errors),
             len(extra), time.time() - t_start))
    if violations:
        return 1
    if n_ob == 0 and not extra:
        print("CHECKER-ERROR property=%s zero obligations generated" % prop)
        return 3
    return 0


def _z3v():
    try:
        import z3

        return z3.get_version_string()
    except Exception:
        return "?"
