#!/bin/sh
# offline: overlay venv = /venv's python 3.12 + repo deps (via .pth) + z3/cvc5/hypothesis/jsonschema wheels
set -e
cd "$(dirname "$0")"
if [ ! -x .venv/bin/python ] || ! .venv/bin/python -c "import z3, numpy, pint, numba" 2>/dev/null; then
  rm -rf .venv
  /venv/bin/python -m venv .venv
  echo "import site; site.addsitedir('/venv/lib/python3.12/site-packages')" > .venv/lib/python3.12/site-packages/_osyris_overlay.pth
  PIP_NO_INDEX=1 .venv/bin/pip install -q --no-index --find-links /opt/veriftools/wheels z3-solver cvc5 hypothesis jsonschema
fi
.venv/bin/python -c "import z3, numpy, pint, numba, jsonschema; print('setup ok: z3', z3.get_version_string())"
