"""Synthesize well-formed RAMSES output directories from an in-memory AMR tree.

This module is *standalone*: it needs only the standard library and numpy and never imports
osyris.  It writes the files that ``osyris.RamsesDataset(nout, path=...).load()`` reads:

``<path>/output_NNNNN/``
    ``info_NNNNN.txt``                 ``key = value`` lines, the ``ordering type`` line and the
                                       ``DOMAIN ind_min ind_max`` table (Hilbert bound keys)
    ``amr_NNNNN.outCCCCC``             AMR tree of cpu C (Fortran unformatted records)
    ``hydro_NNNNN.outCCCCC``           cell variables of cpu C
    ``hydro_file_descriptor.txt``      ``ivar, name, type`` lines (new-style descriptor)
    ``grav_NNNNN.outCCCCC``            optional (``grav=True``)
    ``rt_NNNNN.outCCCCC``              optional (``rt_vars=...``) + ``rt_file_descriptor.txt``
    ``part_NNNNN.outCCCCC``            optional (``particles=...``) + ``part_file_descriptor.txt``
    ``sink_NNNNN.csv``                 optional (``sinks=...``)

Binary layout
-------------
All binary files are sequences of Fortran unformatted records, little endian: a 4-byte int32
byte count, the payload, and the same 4-byte count again.  The record grammar is the one of RAMSES
``output_amr.f90`` / ``output_hydro.f90`` / ``output_poisson.f90`` / ``rt_output_hydro.f90`` /
``output_part.f90``; see :func:`_amr_file`, :func:`_cell_file`, :func:`_part_file`.

Tree model
----------
A tree is a flat ``list[Oct]``.  An :class:`Oct` (a RAMSES "grid") sits at a 1-based ``level``,
has a ``centre`` in box units (``[0, 1)`` per dimension, relative to the origin of the
computational box), is owned by exactly one ``owner`` cpu (1-based), and has ``2**ndim`` cells.
Cell ``ind`` has the offset bits ``iz = ind // 4, iy = (ind - 4 iz) // 2, ix = ind - 2 iy - 4 iz``,
centre ``centre + ((ix, iy, iz) - 0.5) * 0.5**level`` and size ``0.5**level``.  ``son[ind] > 0``
says the cell is refined (a child oct centred on the cell centre exists at ``level + 1``).  A cell
is a *leaf* iff ``son[ind] == 0`` or ``level == lmax``.

File order (what a reader gets back)
------------------------------------
File of cpu C holds, for every level ``l = 1..levelmax`` and every domain
``d = 1..ncpu+nboundary``, one block of grids.  The block ``d == C`` holds the octs *owned* by C at
level ``l`` in the order in which they appear in the ``octs`` list given to :func:`write_output`.
Blocks ``d != C, d <= ncpu`` hold ghost copies (``ghosts[C]`` filtered by ``owner == d``), blocks
``d > ncpu`` hold boundary grids (``boundary_grids[(C, d - ncpu)]``).  Inside a block, cell data
are stored ``ind``-major (``ind`` 0 of all grids, then ``ind`` 1, ...).  A reader that keeps owned
leaf cells therefore returns rows: per cpu file in cpu order, per level, ``ind``-major over the
owned octs, restricted to leaves.  :func:`expected_mesh` produces exactly that.

Ownership and Hilbert keys
--------------------------
``ndim == 3``: the key of a point is the RAMSES 3-D Hilbert key (:func:`hilbert_key`) of
``int(x * 2**bit_length)`` per axis with ``bit_length = levelmax + 1`` (RAMSES ``cmp_ordering``
with ``nx = 1``), the key range is ``[0, 8**(levelmax+1)]``.  Default ``bound_keys`` split that
range evenly, ``bound_keys[c] = total * c // ncpu``; cpu ``c`` (1-based) owns keys in
``[bound_keys[c-1], bound_keys[c])``.  An oct is owned by the cpu of its centre.

``ndim < 3``: a simple monotone key in x is used, ``key = int(x * total)`` with
``total = (2**(levelmax+1))**ndim`` (so that the info-file table has the same range that osyris'
``_get_cpu_list`` assumes, ``dkey = (2**(levelmax+1) // maxdom)**ndim``), i.e. the domains are
slabs in x.  For ``ndim == 1`` this *is* the RAMSES ``hilbert1d`` ordering; for ``ndim == 2`` real
RAMSES would use ``hilbert2d``, which neither this module nor osyris implement.

Fields that osyris skips (``next``, ``prev``, ``father``, ``nbor``, ``flag1``, ``headl`` ...) are
filled with plausible values (linked list in block order, father cell index, zeros) but carry no
guarantee of being what RAMSES would have written.
"""
from __future__ import annotations

import bisect
import math
import os
import random as _random
import re
import struct
from dataclasses import dataclass, field

import numpy as np

__all__ = [
    "Oct",
    "build_tree",
    "hilbert_key",
    "default_bound_keys",
    "point_key",
    "owner_from_keys",
    "cell_offsets",
    "cell_centre",
    "default_hydro_vars",
    "grav_var_names",
    "random_ghosts",
    "random_boundary_grids",
    "validate_tree",
    "write_output",
    "expected_mesh",
    "expected_particles",
    "unit_factor",
    "read_records",
]

POISON = -7.77e33  # value put in ghost / boundary copies made by the random_* helpers


# ----------------------------------------------------------------------------------------------
# Tree description
# ----------------------------------------------------------------------------------------------
@dataclass
class Oct:
    """One grid (oct).

    level   1-based AMR level
    centre  ndim floats in box units (0..1)
    owner   cpu (1-based) that owns the oct
    son     2**ndim ints; > 0 means the cell is refined.  ``build_tree`` stores the 1-based
            position of the child oct in the returned list, which is also the grid index
            (``ind_grid``) written to the file.
    values  per hydro / grav / rt variable name: 2**ndim cell values (index = ``ind``)
    index   grid index written as ``ind_grid`` (0: assigned by the writer)
    parent  (parent grid index, ind) or None; only used to fill the skipped ``father`` record
    """

    level: int
    centre: tuple
    owner: int = 1
    son: list = field(default_factory=list)
    values: dict = field(default_factory=dict)
    index: int = 0
    parent: tuple | None = None


def cell_offsets(ind):
    """(ix, iy, iz) of cell ``ind`` inside its oct (RAMSES / osyris convention)."""
    iz = ind // 4
    iy = (ind - 4 * iz) // 2
    ix = ind - 2 * iy - 4 * iz
    return (ix, iy, iz)


def cell_centre(centre, level, ind, ndim=None):
    """Centre of cell ``ind`` of an oct with the given centre and (1-based) level, box units."""
    ndim = len(centre) if ndim is None else ndim
    dx = 0.5**level
    b = cell_offsets(ind)
    return tuple(centre[d] + (float(b[d]) - 0.5) * dx for d in range(ndim))


def default_hydro_vars(ndim):
    return ("density",) + tuple("velocity_" + c for c in "xyz"[:ndim]) + ("pressure",)


def grav_var_names(ndim):
    """Names osyris gives the variables of a grav file (potential, then ndim accelerations)."""
    return ("grav_potential",) + tuple("grav_acceleration_" + c for c in "xyz"[:ndim])


# ----------------------------------------------------------------------------------------------
# Hilbert keys
# ----------------------------------------------------------------------------------------------
# RAMSES hilbert3d state diagram, one row per state: 8 next states then 8 output digits
# (index = 4*xbit + 2*ybit + zbit).  Same numbers as state_diagram in RAMSES hilbert.f90.
_HILBERT_TABLE = (
    (1, 2, 3, 2, 4, 5, 3, 5, 0, 1, 3, 2, 7, 6, 4, 5),
    (2, 6, 0, 7, 8, 8, 0, 7, 0, 7, 1, 6, 3, 4, 2, 5),
    (0, 9, 10, 9, 1, 1, 11, 11, 0, 3, 7, 4, 1, 2, 6, 5),
    (6, 0, 6, 11, 9, 0, 9, 8, 2, 3, 1, 0, 5, 4, 6, 7),
    (11, 11, 0, 7, 5, 9, 0, 7, 4, 3, 5, 2, 7, 0, 6, 1),
    (4, 4, 8, 8, 0, 6, 10, 6, 6, 5, 1, 2, 7, 4, 0, 3),
    (5, 7, 5, 3, 1, 1, 11, 11, 4, 7, 3, 0, 5, 6, 2, 1),
    (6, 1, 6, 10, 9, 4, 9, 10, 6, 7, 5, 4, 1, 0, 2, 3),
    (10, 3, 1, 1, 10, 3, 5, 9, 2, 5, 3, 4, 1, 6, 0, 7),
    (4, 4, 8, 8, 2, 7, 2, 3, 2, 1, 5, 6, 3, 0, 4, 7),
    (7, 2, 11, 2, 7, 5, 8, 5, 4, 5, 7, 6, 3, 2, 0, 1),
    (10, 3, 2, 6, 10, 3, 4, 4, 6, 1, 7, 0, 5, 2, 4, 3),
)


def hilbert_key(x, y, z, bit_length):
    """RAMSES 3-D Hilbert key of the integer point (x, y, z), ``bit_length`` bits per axis.

    Agrees with ``osyris.io.hilbert._hilbert3d`` (checked in the self-test).  Pure Python ints,
    so there is no overflow for large ``bit_length``.
    """
    x, y, z = int(x), int(y), int(z)
    state = 0
    key = 0
    for i in range(bit_length - 1, -1, -1):
        sdigit = 4 * ((x >> i) & 1) + 2 * ((y >> i) & 1) + ((z >> i) & 1)
        row = _HILBERT_TABLE[state]
        key = (key << 3) | row[8 + sdigit]
        state = row[sdigit]
    return key


def key_range(ndim, levelmax):
    """Upper end of the key range used in the info file."""
    return (2 ** (levelmax + 1)) ** ndim


def default_bound_keys(ndim, ncpu, levelmax):
    total = key_range(ndim, levelmax)
    return [total * c // ncpu for c in range(ncpu + 1)]


def point_key(point, ndim, levelmax):
    """Ordering key of a point given in box units (see module docstring)."""
    if ndim == 3:
        bit_length = levelmax + 1
        scale = 2**bit_length
        ijk = [min(max(int(p * scale), 0), scale - 1) for p in point]
        return hilbert_key(ijk[0], ijk[1], ijk[2], bit_length)
    total = key_range(ndim, levelmax)
    return min(max(int(point[0] * total), 0), total - 1)


def owner_from_keys(point, ndim, levelmax, bound_keys):
    """cpu (1-based) owning ``point``: bound_keys[c-1] <= key < bound_keys[c]."""
    key = point_key(point, ndim, levelmax)
    ncpu = len(bound_keys) - 1
    c = bisect.bisect_right(list(bound_keys), key)
    return min(max(c, 1), ncpu)


# ----------------------------------------------------------------------------------------------
# Tree construction
# ----------------------------------------------------------------------------------------------
def build_tree(
    ndim,
    levelmin,
    levelmax,
    refine=None,
    owner_of=None,
    rng=None,
    *,
    ncpu=1,
    bound_keys=None,
    variables=None,
    value_of=None,
    refine_fraction=0.3,
):
    """Build a tree as a flat list of octs (level by level, parents before children).

    The tree is complete down to ``levelmin`` (every cell of every oct at level < levelmin is
    refined, so the coarsest leaf cells are cells of level-``levelmin`` octs).  For octs at levels
    ``levelmin .. levelmax-1`` the callable ``refine(cell_centre, level) -> bool`` decides for each
    cell whether it is refined (``level`` is the level of the oct holding the cell); octs at
    ``levelmax`` are never refined.  ``refine=None``: refine with probability ``refine_fraction``.

    ``owner_of(oct_centre, level) -> cpu``; ``None``: owner by ordering key of the oct centre
    against ``bound_keys`` (default :func:`default_bound_keys` for ``ncpu``), see module docstring.

    ``variables``: names for which cell values are generated (default
    :func:`default_hydro_vars`); ``value_of(name, cell_centre, level, rng) -> float`` or ``None``
    for random values in ``[1, 2)``.

    ``rng`` needs only a ``.random()`` method (``random.Random`` or ``numpy.random.Generator``).
    """
    if rng is None:
        rng = _random.Random(0)
    if not (1 <= levelmin <= levelmax):
        raise ValueError("need 1 <= levelmin <= levelmax")
    two = 2**ndim
    if variables is None:
        variables = default_hydro_vars(ndim)
    if refine is None:

        def refine(_centre, _level):
            return rng.random() < refine_fraction

    if owner_of is None:
        keys = list(bound_keys) if bound_keys is not None else default_bound_keys(ndim, ncpu, levelmax)

        def owner_of(centre, _level):
            return owner_from_keys(centre, ndim, levelmax, keys)

    def make(level, centre, parent):
        o = Oct(level=level, centre=tuple(float(c) for c in centre), son=[0] * two, parent=parent)
        o.owner = int(owner_of(o.centre, level))
        for name in variables:
            vals = []
            for ind in range(two):
                if value_of is None:
                    vals.append(1.0 + float(rng.random()))
                else:
                    vals.append(float(value_of(name, cell_centre(o.centre, level, ind), level, rng)))
            o.values[name] = vals
        return o

    octs = []
    root = make(1, (0.5,) * ndim, None)
    root.index = 1
    octs.append(root)
    current = [root]
    for level in range(1, levelmax):
        nxt = []
        for o in current:
            for ind in range(two):
                c = cell_centre(o.centre, level, ind)
                if level < levelmin or bool(refine(c, level)):
                    child = make(level + 1, c, (o.index, ind))
                    octs.append(child)
                    child.index = len(octs)
                    o.son[ind] = child.index
                    nxt.append(child)
        current = nxt
    return octs


def _copy_oct(o, poison=False):
    values = {k: ([POISON] * len(v) if poison else list(v)) for k, v in o.values.items()}
    return Oct(level=o.level, centre=tuple(o.centre), owner=o.owner, son=list(o.son), values=values,
               index=o.index, parent=o.parent)


def random_ghosts(octs, ncpu, rng, fraction=0.3, poison=True):
    """dict cpu -> list of copies of other cpus' octs (each taken with probability ``fraction``).

    With ``poison`` the copies carry the value :data:`POISON` in every cell, so a reader that
    wrongly picks up a ghost grid is noticed.
    """
    out = {}
    for cpu in range(1, ncpu + 1):
        cand = [o for o in octs if o.owner != cpu]
        lst = [_copy_oct(o, poison) for o in cand if rng.random() < fraction]
        if not lst and cand and fraction > 0:  # at least one ghost whenever there is a candidate
            lst = [_copy_oct(cand[int(rng.random() * len(cand)) % len(cand)], poison)]
        if lst:
            out[cpu] = lst
    return out


def random_boundary_grids(octs, ncpu, nboundary, rng, fraction=0.15, poison=True):
    """dict (cpu, boundary_index) -> list of (poisoned) oct copies, boundary_index = 1..nboundary."""
    out = {}
    for cpu in range(1, ncpu + 1):
        for b in range(1, nboundary + 1):
            lst = [_copy_oct(o, poison) for o in octs if rng.random() < fraction]
            if not lst and octs and fraction > 0:
                lst = [_copy_oct(octs[int(rng.random() * len(octs)) % len(octs)], poison)]
            if lst:
                out[(cpu, b)] = lst
    return out


def validate_tree(octs, ndim):
    """Return a list of problems (empty: the list of octs is a consistent, complete tree)."""
    two = 2**ndim
    problems = []
    by_pos = {}
    for o in octs:
        if len(o.centre) != ndim:
            problems.append(f"oct at level {o.level}: centre has {len(o.centre)} components")
            continue
        if len(o.son) != two:
            problems.append(f"oct {o.centre} level {o.level}: son has {len(o.son)} entries")
            continue
        k = (o.level, tuple(o.centre))
        if k in by_pos:
            problems.append(f"duplicate oct {k}")
        by_pos[k] = o
    has_parent = set()
    for o in octs:
        if len(o.centre) != ndim or len(o.son) != two:
            continue
        for ind in range(two):
            k = (o.level + 1, cell_centre(o.centre, o.level, ind))
            if o.son[ind] > 0:
                if k not in by_pos:
                    problems.append(f"refined cell {ind} of oct {o.centre} level {o.level} has no child oct")
                has_parent.add(k)
            elif k in by_pos:
                problems.append(f"leaf cell {ind} of oct {o.centre} level {o.level} has a child oct")
                has_parent.add(k)
    for k in by_pos:
        if k[0] > 1 and k not in has_parent:
            problems.append(f"oct {k} has no parent cell")
    if (1, (0.5,) * ndim) not in by_pos:
        problems.append("no level-1 root oct at the box centre")
    return problems


# ----------------------------------------------------------------------------------------------
# Fortran records
# ----------------------------------------------------------------------------------------------
_DTYPES = {"i": "<i4", "d": "<f8", "f": "<f4", "b": "<i1", "h": "<i2", "q": "<i8", "l": "<i8"}


def _rec_bytes(payload):
    m = struct.pack("<i", len(payload))
    return m + payload + m


def _rec(kind, values):
    """One record holding ``values`` as type ``kind`` (struct / RAMSES descriptor letter)."""
    arr = np.asarray(values, dtype=_DTYPES[kind]).ravel()
    return _rec_bytes(arr.tobytes())


def _rec_i(*values):
    return _rec("i", values)


def _rec_d(*values):
    return _rec("d", values)


def read_records(data):
    """Split the bytes of a Fortran unformatted file into payloads; checks both markers.

    Independent of the writer's grammar: only the record framing is assumed.
    """
    out = []
    pos = 0
    n = len(data)
    while pos < n:
        if pos + 4 > n:
            raise ValueError(f"truncated record marker at byte {pos}")
        (m,) = struct.unpack_from("<i", data, pos)
        if m < 0 or pos + 8 + m > n:
            raise ValueError(f"bad record length {m} at byte {pos}")
        payload = data[pos + 4 : pos + 4 + m]
        (m2,) = struct.unpack_from("<i", data, pos + 4 + m)
        if m2 != m:
            raise ValueError(f"record at byte {pos}: head marker {m} != tail marker {m2}")
        out.append(payload)
        pos += 8 + m
    return out


# ----------------------------------------------------------------------------------------------
# Units (mirror of osyris.config.defaults.configure_units, magnitudes only)
# ----------------------------------------------------------------------------------------------
def _unit_library(unit_l, unit_d, unit_t):
    density = unit_d
    velocity = unit_l / unit_t
    magnetic_field = math.sqrt(4.0 * math.pi * unit_d * (unit_l / unit_t) ** 2)
    momentum = density * velocity
    acceleration = unit_l / unit_t**2
    energy = unit_d * ((unit_l / unit_t) ** 2)
    time = unit_t
    length = unit_l
    mass = density * length**3
    return [
        ("density", density),
        ("velocity", velocity),
        ("velocity_*", velocity),
        ("momentum", momentum),
        ("momentum_*", momentum),
        ("magnetic_field", magnetic_field),
        ("B_left", magnetic_field),
        ("B_left_*", magnetic_field),
        ("B_right", magnetic_field),
        ("B_right_*", magnetic_field),
        ("B_field", magnetic_field),
        ("B_field_*", magnetic_field),
        ("B_*_left", magnetic_field),
        ("B_*_right", magnetic_field),
        ("acceleration", acceleration),
        ("grav_acceleration", acceleration),
        ("grav_acceleration_*", acceleration),
        ("grav_potential", velocity**2),
        ("energy", energy),
        ("internal_energy", energy),
        ("thermal_pressure", energy),
        ("pressure", energy),
        ("radiative_energy", energy),
        ("radiative_energy_*", energy),
        ("time", time),
        ("length", length),
        ("x", length),
        ("y", length),
        ("z", length),
        ("position", length),
        ("position_*", length),
        ("dx", length),
        ("mass", mass),
        ("temperature", 1.0),
    ]


def unit_factor(name, unit_l=1.0, unit_d=1.0, unit_t=1.0):
    """Factor by which osyris (default config) multiplies a raw variable called ``name``.

    Mirrors ``configure_units`` of osyris' ``config/defaults.py`` and the lookup rule of
    ``UnitsLibrary.__getitem__`` (exact name first, then the first ``*`` pattern that matches as a
    prefix regex, else 1).  A user config in ``~/.osyris`` may of course differ.
    """
    lib = _unit_library(float(unit_l), float(unit_d), float(unit_t))
    for key, val in lib:
        if key == name:
            return float(val)
    for key, val in lib:
        if "*" in key and re.match(key.replace("*", ".+"), name):
            return float(val)
    return 1.0


# ----------------------------------------------------------------------------------------------
# File bodies
# ----------------------------------------------------------------------------------------------
def _blocks_for_cpu(cpu, octs, ncpu, nboundary, levelmax, ghosts, boundary_grids):
    """dict (level, domain) -> list[Oct] for the files of ``cpu`` (domain 1-based)."""
    blocks = {(l, d): [] for l in range(1, levelmax + 1) for d in range(1, ncpu + nboundary + 1)}
    for o in octs:
        if o.owner == cpu:
            blocks[(o.level, cpu)].append(o)
    for g in (ghosts or {}).get(cpu, []):
        if g.owner == cpu:
            raise ValueError(f"ghost oct {g.centre} in the file of cpu {cpu} is owned by that cpu")
        if not (1 <= g.owner <= ncpu):
            raise ValueError(f"ghost oct {g.centre}: owner {g.owner} outside 1..{ncpu}")
        blocks[(g.level, g.owner)].append(g)
    for b in range(1, nboundary + 1):
        for g in (boundary_grids or {}).get((cpu, b), []):
            blocks[(g.level, ncpu + b)].append(g)
    return blocks


def _values_of(o, name, two, strict):
    v = o.values.get(name)
    if v is None:
        if strict:
            raise ValueError(f"oct {o.centre} level {o.level} has no values for variable {name!r}")
        return [0.0] * two
    if len(v) != two:
        raise ValueError(f"oct {o.centre} level {o.level}: variable {name!r} has {len(v)} values, need {two}")
    return v


def _amr_file(cpu, blocks, *, ndim, ncpu, nboundary, levelmax, ngridmax, ngrid_current, boxlen, noutput,
              nout, tout, aout, time, dtold, dtnew, nstep, nstep_coarse, cosmo, nx, key_bytes, bound_keys,
              owner_of_index, coarse_son, centre_cell):
    two = 2**ndim
    ncoarse = nx[0] * nx[1] * nx[2]
    ndom = ncpu + nboundary
    xbound = [float(n // 2) for n in nx]
    out = []
    w = out.append
    # ---- header
    w(_rec_i(ncpu))
    w(_rec_i(ndim))
    w(_rec_i(nx[0], nx[1], nx[2]))
    w(_rec_i(levelmax))
    w(_rec_i(ngridmax))
    w(_rec_i(nboundary))
    w(_rec_i(ngrid_current))
    w(_rec_d(boxlen))
    w(_rec_i(noutput, nout, nout + 1))  # noutput, iout, ifout
    w(_rec("d", tout))
    w(_rec("d", aout))
    w(_rec_d(time))
    w(_rec("d", dtold))
    w(_rec("d", dtnew))
    w(_rec_i(nstep, nstep_coarse))
    w(_rec_d(0.0, 0.0, 0.0))  # einit, mass_tot_0, rho_tot
    w(_rec_d(cosmo["omega_m"], cosmo["omega_l"], cosmo["omega_k"], cosmo["omega_b"], cosmo["H0"],
             cosmo["aexp"], boxlen))  # ..., h0, aexp_ini, boxlen_ini
    w(_rec_d(cosmo["aexp"], 0.0, cosmo["aexp"], 0.0, 0.0))  # aexp, hexp, aexp_old, epot_tot_int, epot_tot_old
    w(_rec_d(0.0))  # mass_sph

    def first(lst):
        return lst[0].index if lst else 0

    def last(lst):
        return lst[-1].index if lst else 0

    # Fortran arrays (ncpu, nlevelmax): cpu index runs fastest
    w(_rec("i", [first(blocks[(l, c)]) for l in range(1, levelmax + 1) for c in range(1, ncpu + 1)]))
    w(_rec("i", [last(blocks[(l, c)]) for l in range(1, levelmax + 1) for c in range(1, ncpu + 1)]))
    w(_rec("i", [len(blocks[(l, c)]) for l in range(1, levelmax + 1) for c in range(1, ncpu + 1)]))
    numbtot = []
    for l in range(1, levelmax + 1):
        counts = [len(blocks[(l, c)]) for c in range(1, ncpu + 1)]
        tot = sum(counts)
        numbtot += [tot, min(counts), max(counts), tot // ncpu] + [0] * 6
    w(_rec("i", numbtot))
    if nboundary > 0:
        bl = [(l, ncpu + b) for l in range(1, levelmax + 1) for b in range(1, nboundary + 1)]
        w(_rec("i", [first(blocks[k]) for k in bl]))
        w(_rec("i", [last(blocks[k]) for k in bl]))
        w(_rec("i", [len(blocks[k]) for k in bl]))
    used = sum(len(v) for v in blocks.values())
    w(_rec_i(used + 1 if used < ngridmax else 0, ngridmax if used < ngridmax else 0,
             max(ngridmax - used, 0), used, used))  # headf, tailf, numbf, used_mem, used_mem_tot
    w(_rec_bytes(b"hilbert".ljust(128)))
    if key_bytes == 8:
        w(_rec("d", [float(k) for k in bound_keys]))
    else:  # e.g. 16: quad precision keys (QUADHILBERT); content is not interpreted by osyris
        w(_rec_bytes(b"".join(struct.pack("<d", float(k)).ljust(key_bytes, b"\0") for k in bound_keys)))
    w(_rec("i", coarse_son))  # son of coarse cells
    w(_rec("i", [0] * ncoarse))  # flag1
    w(_rec("i", [1] * ncoarse))  # cpu_map
    # ---- body
    for l in range(1, levelmax + 1):
        for d in range(1, ndom + 1):
            lst = blocks[(l, d)]
            g = len(lst)
            if g == 0:
                continue
            ids = [o.index for o in lst]
            w(_rec("i", ids))  # ind_grid
            w(_rec("i", ids[1:] + [0]))  # next
            w(_rec("i", [0] + ids[:-1]))  # prev
            for k in range(ndim):
                w(_rec("d", [o.centre[k] + xbound[k] for o in lst]))  # xg in coarse-grid units
            father = []
            for o in lst:
                if o.parent is None:
                    father.append(centre_cell + 1 if l == 1 else 0)  # level 1: the coarse cell
                else:
                    father.append(ncoarse + o.parent[1] * ngridmax + o.parent[0])
            w(_rec("i", father))
            for _ in range(2 * ndim):
                w(_rec("i", [0] * g))  # nbor
            for ind in range(two):
                w(_rec("i", [o.son[ind] for o in lst]))  # son
            for ind in range(two):
                w(_rec("i", [owner_of_index.get(o.son[ind], o.owner) if o.son[ind] > 0 else o.owner
                             for o in lst]))  # cpu_map
            for ind in range(two):
                w(_rec("i", [0] * g))  # flag1
    return b"".join(out)


def _cell_file(kind, blocks, names, *, ndim, ncpu, nboundary, levelmax, gamma, cpu):
    """hydro / grav / rt file: header, then (ilevel, ncache[, data]) for every (level, domain)."""
    two = 2**ndim
    out = []
    w = out.append
    if kind == "grav":
        w(_rec_i(ncpu))
        w(_rec_i(ndim + 1))
        w(_rec_i(levelmax))
        w(_rec_i(nboundary))
    else:  # hydro, rt
        w(_rec_i(ncpu))
        w(_rec_i(len(names)))
        w(_rec_i(ndim))
        w(_rec_i(levelmax))
        w(_rec_i(nboundary))
        w(_rec_d(gamma))
    for l in range(1, levelmax + 1):
        for d in range(1, ncpu + nboundary + 1):
            lst = blocks[(l, d)]
            g = len(lst)
            w(_rec_i(l))
            w(_rec_i(g))
            if g == 0:
                continue
            cols = {name: [_values_of(o, name, two, strict=(d == cpu)) for o in lst] for name in names}
            for ind in range(two):
                for name in names:
                    w(_rec("d", [v[ind] for v in cols[name]]))
    return b"".join(out)


_NP_TO_TYPE = {"float64": "d", "float32": "f", "int32": "i", "int8": "b", "int16": "h", "int64": "q"}


def _part_file(data, names, types, *, ndim, ncpu, nsink):
    n = len(np.asarray(data[names[0]])) if (names and data) else 0
    out = [_rec_i(ncpu), _rec_i(ndim), _rec_i(n), _rec_i(1, 2, 3, 4), _rec_i(0), _rec_d(0.0), _rec_d(0.0),
           _rec_i(nsink)]  # ncpu ndim npart localseed nstar_tot mstar_tot mstar_lost nsink
    for name in names:
        arr = np.asarray(data[name]) if data else np.zeros(0)
        if len(arr) != n:
            raise ValueError(f"particle variable {name!r} has {len(arr)} entries, expected {n}")
        out.append(_rec(types[name], arr))
    return b"".join(out)


def _fmt_e(x, digits=16):
    # RAMSES writes E23.15; one more digit makes every double (and every key < 2**53) round-trip
    return f"{float(x):.{digits}E}"


def _info_text(*, ncpu, ndim, levelmin, levelmax, ngridmax, nstep_coarse, boxlen, time, cosmo, unit_l, unit_d,
               unit_t, bound_keys):
    lines = [
        f"ncpu        ={ncpu:11d}",
        f"ndim        ={ndim:11d}",
        f"levelmin    ={levelmin:11d}",
        f"levelmax    ={levelmax:11d}",
        f"ngridmax    ={ngridmax:11d}",
        f"nstep_coarse={nstep_coarse:11d}",
        "",
        f"boxlen      =  {_fmt_e(boxlen)}",
        f"time        =  {_fmt_e(time)}",
        f"aexp        =  {_fmt_e(cosmo['aexp'])}",
        f"H0          =  {_fmt_e(cosmo['H0'])}",
        f"omega_m     =  {_fmt_e(cosmo['omega_m'])}",
        f"omega_l     =  {_fmt_e(cosmo['omega_l'])}",
        f"omega_k     =  {_fmt_e(cosmo['omega_k'])}",
        f"omega_b     =  {_fmt_e(cosmo['omega_b'])}",
        f"unit_l      =  {_fmt_e(unit_l)}",
        f"unit_d      =  {_fmt_e(unit_d)}",
        f"unit_t      =  {_fmt_e(unit_t)}",
        "",
        "ordering type=  hilbert",
        "",
        "   DOMAIN   ind_min                 ind_max",
    ]
    for c in range(ncpu):
        lines.append(f"{c + 1:8d} {_fmt_e(bound_keys[c]):>24s} {_fmt_e(bound_keys[c + 1]):>24s}")
    return "\n".join(lines) + "\n"


def _descriptor_text(names, types, version_comment):
    lines = [f"# version:  1", f"# {version_comment}", "# ivar, variable_name, variable_type"]
    for i, name in enumerate(names):
        lines.append(f"{i + 1:3d}, {name}, {types[name]}")
    return "\n".join(lines) + "\n"


# ----------------------------------------------------------------------------------------------
# write_output
# ----------------------------------------------------------------------------------------------
def write_output(
    path,
    nout,
    octs,
    *,
    ndim,
    ncpu,
    levelmin,
    levelmax,
    boxlen=1.0,
    unit_l=1.0,
    unit_d=1.0,
    unit_t=1.0,
    nboundary=0,
    noutput=1,
    hydro_vars=None,
    grav=False,
    rt_vars=None,
    ghosts=None,
    boundary_grids=None,
    bound_keys=None,
    particles=None,
    particle_types=None,
    sinks=None,
    sink_units=None,
    time=0.0,
    nx=(1, 1, 1),
    gamma=1.4,
    ngridmax=None,
    dtold=None,
    dtnew=None,
    nstep_coarse=0,
    key_bytes=8,
    validate=True,
):
    """Write ``<path>/output_<nout:05d>/`` and return a description of what was written.

    octs            the tree (list of :class:`Oct`); every oct is written once as an owned grid in
                    the file of ``oct.owner``; the order inside a (cpu, level) block is the order
                    in this list.  Octs with ``index == 0`` get ``index = position + 1``.
    hydro_vars      names for ``hydro_file_descriptor.txt`` (default density, velocity_*, pressure;
                    at least 2, osyris cannot parse a one-line descriptor)
    grav            also write ``grav_*`` files from ``values["grav_potential"]``,
                    ``values["grav_acceleration_x"]`` ...
    rt_vars         names for ``rt_file_descriptor.txt`` / ``rt_*`` files (at least 2)
    ghosts          dict cpu -> list[Oct] written in that cpu's files under the *owner's* domain
                    (``oct.owner != cpu``); missing values are written as 0
    boundary_grids  dict (cpu, boundary_index 1..nboundary) -> list[Oct] written under domain
                    ``ncpu + boundary_index``
    bound_keys      ncpu+1 ints for the info-file domain table (default
                    :func:`default_bound_keys`); written as floats with 17 significant digits
                    (keys below 2**53 are exact; larger ones are rounded like in real info files)
    particles       dict cpu -> dict var -> array (same variables, same order for every cpu; cpus
                    not listed get an empty part file).  Descriptor types from the numpy dtype
                    (float64 d, float32 f, int32 i, int8 b, int16 h, int64 q) unless given in
                    ``particle_types`` (dict var -> letter)
    sinks           dict column -> values, or column -> (unit_string, values); unit strings are in
                    the code-unit form of the RAMSES csv (``1``, ``m``, ``l``, ``l t**-1`` ...),
                    also accepted via ``sink_units`` (dict column -> unit string, default ``1``).
                    An empty dict / zero rows writes an empty file (the only zero-sink form osyris
                    accepts).
    nx              coarse grid; the computational box is the coarse cell ``nx // 2`` and the file
                    stores ``xg = centre + nx // 2`` (this is what osyris subtracts again)
    key_bytes       bytes per key in the binary ``bound_key`` record (8: double, 16: quad)
    validate        raise if ``octs`` is not a consistent tree (:func:`validate_tree`)

    Returns a dict with (among others) ``outdir``, ``files``, ``bound_keys``, ``hydro_vars``,
    ``grav_vars``, ``rt_vars``, ``dtold``, ``dtnew``, ``gamma``, ``nleaf`` and
    ``cpus[cpu] = {"owned": [Oct, ...] (file order), "blocks": [(level, domain, [Oct, ...]), ...],
    "nleaf": int}``.
    """
    two = 2**ndim
    nx = tuple(int(n) for n in nx)
    if len(nx) != 3:
        raise ValueError("nx must have 3 entries")
    if ndim not in (1, 2, 3):
        raise ValueError("ndim must be 1, 2 or 3")
    hydro_vars = tuple(hydro_vars) if hydro_vars is not None else default_hydro_vars(ndim)
    if len(hydro_vars) < 2:
        raise ValueError("need at least 2 hydro variables")
    if len(set(hydro_vars)) != len(hydro_vars):
        raise ValueError("duplicate hydro variable names")
    rt_vars = tuple(rt_vars) if rt_vars else ()
    if rt_vars and len(rt_vars) < 2:
        raise ValueError("need at least 2 rt variables")
    grav_vars = grav_var_names(ndim) if grav else ()
    octs = list(octs)
    for pos, o in enumerate(octs):
        if o.index <= 0:
            o.index = pos + 1
        if not (1 <= o.level <= levelmax):
            raise ValueError(f"oct {o.centre}: level {o.level} outside 1..{levelmax}")
        if not (1 <= o.owner <= ncpu):
            raise ValueError(f"oct {o.centre}: owner {o.owner} outside 1..{ncpu}")
        if len(o.centre) != ndim or len(o.son) != two:
            raise ValueError(f"oct {o.centre}: need {ndim} centre components and {two} son entries")
    if validate:
        problems = validate_tree(octs, ndim)
        if problems:
            raise ValueError("inconsistent tree: " + "; ".join(problems[:5]))
    for (cpu, b) in (boundary_grids or {}):
        if not (1 <= cpu <= ncpu and 1 <= b <= nboundary):
            raise ValueError(f"boundary_grids key {(cpu, b)} outside cpu 1..{ncpu}, boundary 1..{nboundary}")
    for cpu in (ghosts or {}):
        if not (1 <= cpu <= ncpu):
            raise ValueError(f"ghosts key {cpu} outside 1..{ncpu}")
    if bound_keys is None:
        bound_keys = default_bound_keys(ndim, ncpu, levelmax)
    bound_keys = [int(k) for k in bound_keys]
    if len(bound_keys) != ncpu + 1:
        raise ValueError("bound_keys needs ncpu + 1 entries")
    if ngridmax is None:
        ngridmax = max(2 * len(octs), 16)
    dtold = [0.5 ** (l + 3) for l in range(levelmax)] if dtold is None else [float(v) for v in dtold]
    dtnew = [0.75 * 0.5 ** (l + 3) for l in range(levelmax)] if dtnew is None else [float(v) for v in dtnew]
    if len(dtold) != levelmax or len(dtnew) != levelmax:
        raise ValueError("dtold / dtnew need levelmax entries")
    tout = [float(time) + 0.1 * i for i in range(noutput)]
    aout = [1.0 + 0.1 * i for i in range(noutput)]
    cosmo = dict(aexp=1.0, H0=1.0, omega_m=1.0, omega_l=0.0, omega_k=0.0, omega_b=0.0)

    num = str(int(nout)).zfill(5)
    outdir = os.path.join(path, "output_" + num)
    os.makedirs(outdir, exist_ok=True)
    files = []

    def put(name, content):
        fn = os.path.join(outdir, name)
        mode = "wb" if isinstance(content, (bytes, bytearray)) else "w"
        with open(fn, mode) as f:
            f.write(content)
        files.append(fn)

    put(f"info_{num}.txt",
        _info_text(ncpu=ncpu, ndim=ndim, levelmin=levelmin, levelmax=levelmax, ngridmax=ngridmax,
                   nstep_coarse=nstep_coarse, boxlen=boxlen, time=time, cosmo=cosmo, unit_l=unit_l, unit_d=unit_d,
                   unit_t=unit_t, bound_keys=bound_keys))
    put("hydro_file_descriptor.txt", _descriptor_text(hydro_vars, {n: "d" for n in hydro_vars}, "hydro variables"))
    if rt_vars:
        put("rt_file_descriptor.txt", _descriptor_text(rt_vars, {n: "d" for n in rt_vars}, "rt variables"))

    owner_of_index = {o.index: o.owner for o in octs}
    coarse_son = [0] * (nx[0] * nx[1] * nx[2])
    centre_cell = (nx[0] // 2) + nx[0] * ((nx[1] // 2) + nx[1] * (nx[2] // 2))
    roots = [o for o in octs if o.level == 1]
    if roots:
        coarse_son[centre_cell] = roots[0].index

    # sinks
    nsink = 0
    if sinks is not None:
        cols, units_row, data = [], [], []
        for name, val in sinks.items():
            if isinstance(val, tuple) and len(val) == 2 and isinstance(val[0], str):
                unit, values = val
            else:
                unit, values = (sink_units or {}).get(name, "1"), val
            if "," in name or "," in unit:
                raise ValueError("sink column names / units must not contain commas")
            cols.append(name)
            units_row.append(unit.strip())
            data.append(list(values))
        nsink = len(data[0]) if data else 0
        if any(len(c) != nsink for c in data):
            raise ValueError("sink columns differ in length")
        if nsink == 0:
            text = ""
        else:
            rows = [" # " + ",".join(cols), " # " + ",".join(units_row)]
            for r in range(nsink):
                rows.append(",".join(_sink_number(c[r]) for c in data))
            text = "\n".join(rows) + "\n"
        put(f"sink_{num}.csv", text)

    # particles
    part_names, part_types = (), {}
    if particles is not None:
        first_cpu = next(iter(particles.values()), None) if particles else None
        part_names = tuple(first_cpu.keys()) if first_cpu else ()
        for cpu, data in particles.items():
            if not (1 <= cpu <= ncpu):
                raise ValueError(f"particles key {cpu} outside 1..{ncpu}")
            if tuple(data.keys()) != part_names:
                raise ValueError("all cpus need the same particle variables in the same order")
        for name in part_names:
            if particle_types and name in particle_types:
                part_types[name] = particle_types[name]
            else:
                dt = str(np.asarray(first_cpu[name]).dtype)
                if dt not in _NP_TO_TYPE:
                    raise ValueError(f"particle variable {name!r}: no descriptor type for dtype {dt}")
                part_types[name] = _NP_TO_TYPE[dt]
            if part_types[name] not in _DTYPES:
                raise ValueError(f"unsupported particle type {part_types[name]!r}")
        if len(part_names) < 2:
            raise ValueError("need at least 2 particle variables")
        put("part_file_descriptor.txt", _descriptor_text(part_names, part_types, "particle fields"))

    result_cpus = {}
    nleaf_total = 0
    for cpu in range(1, ncpu + 1):
        blocks = _blocks_for_cpu(cpu, octs, ncpu, nboundary, levelmax, ghosts, boundary_grids)
        ngrid_current = sum(len(v) for v in blocks.values())
        put(f"amr_{num}.out{cpu:05d}",
            _amr_file(cpu, blocks, ndim=ndim, ncpu=ncpu, nboundary=nboundary, levelmax=levelmax, ngridmax=ngridmax,
                      ngrid_current=ngrid_current, boxlen=boxlen, noutput=noutput, nout=int(nout), tout=tout,
                      aout=aout, time=time, dtold=dtold, dtnew=dtnew, nstep=nstep_coarse, nstep_coarse=nstep_coarse,
                      cosmo=cosmo, nx=nx, key_bytes=key_bytes, bound_keys=bound_keys,
                      owner_of_index=owner_of_index, coarse_son=coarse_son, centre_cell=centre_cell))
        common = dict(ndim=ndim, ncpu=ncpu, nboundary=nboundary, levelmax=levelmax, gamma=gamma, cpu=cpu)
        put(f"hydro_{num}.out{cpu:05d}", _cell_file("hydro", blocks, hydro_vars, **common))
        if grav:
            put(f"grav_{num}.out{cpu:05d}", _cell_file("grav", blocks, grav_vars, **common))
        if rt_vars:
            put(f"rt_{num}.out{cpu:05d}", _cell_file("rt", blocks, rt_vars, **common))
        if particles is not None:
            put(f"part_{num}.out{cpu:05d}",
                _part_file(particles.get(cpu), part_names, part_types, ndim=ndim, ncpu=ncpu, nsink=nsink))
        owned = [o for l in range(1, levelmax + 1) for o in blocks[(l, cpu)]]
        nleaf = sum(1 for o in owned for ind in range(two) if not (o.son[ind] > 0 and o.level < levelmax))
        nleaf_total += nleaf
        result_cpus[cpu] = {
            "owned": owned,
            "blocks": [(l, d, list(blocks[(l, d)])) for l in range(1, levelmax + 1)
                       for d in range(1, ncpu + nboundary + 1)],
            "nleaf": nleaf,
        }

    return {
        "outdir": outdir,
        "path": path,
        "nout": int(nout),
        "files": files,
        "ndim": ndim,
        "ncpu": ncpu,
        "nboundary": nboundary,
        "noutput": noutput,
        "levelmin": levelmin,
        "levelmax": levelmax,
        "boxlen": boxlen,
        "unit_l": unit_l,
        "unit_d": unit_d,
        "unit_t": unit_t,
        "nx": nx,
        "time": time,
        "gamma": gamma,
        "dtold": dtold,
        "dtnew": dtnew,
        "ngridmax": ngridmax,
        "bound_keys": bound_keys,
        "hydro_vars": hydro_vars,
        "grav_vars": grav_vars,
        "rt_vars": rt_vars,
        "part_vars": part_names,
        "part_types": part_types,
        "nsink": nsink,
        "cpus": result_cpus,
        "nleaf": nleaf_total,
    }


def _sink_number(v):
    if isinstance(v, (int, np.integer)):
        return str(int(v))
    return repr(float(v))


# ----------------------------------------------------------------------------------------------
# Expected results
# ----------------------------------------------------------------------------------------------
def expected_mesh(
    octs,
    *,
    ndim,
    ncpu,
    levelmax,
    boxlen=1.0,
    unit_l=1.0,
    unit_d=1.0,
    unit_t=1.0,
    hydro_vars=None,
    grav=False,
    rt_vars=None,
    lmax=None,
    nx=(1, 1, 1),
    cpu_list=None,
    apply_units=True,
):
    """Arrays a full load should return, in the row order of the files (see module docstring).

    Keys: ``level``, ``cpu`` (int), ``dx``, ``position_x`` .. (``ndim`` of them), every hydro
    variable, the grav variables if ``grav`` and the rt variables.  Rows: for cpu in ``cpu_list``
    (default 1..ncpu), for level in 1..lmax, the cells of the octs owned by that cpu at that level
    in ``octs`` order, ``ind``-major, restricted to leaves (``son == 0`` or ``level == lmax``).

    With ``apply_units`` values are multiplied by :func:`unit_factor` of the variable (``dx`` and
    positions also by ``boxlen``), following the operation order of the osyris readers so that the
    result is bit-identical for unit factors of 1.
    """
    two = 2**ndim
    lmax = levelmax if lmax is None else lmax
    names = list(hydro_vars if hydro_vars is not None else default_hydro_vars(ndim))
    if grav:
        names += list(grav_var_names(ndim))
    names += list(rt_vars or ())
    xbound = [float(int(n) // 2) for n in nx]

    def fac(name):
        return unit_factor(name, unit_l, unit_d, unit_t) if apply_units else 1.0

    cols = {k: [] for k in ["level", "cpu", "dx"] + ["position_" + c for c in "xyz"[:ndim]] + names}
    cpus = list(cpu_list) if cpu_list is not None else list(range(1, ncpu + 1))
    for cpu in cpus:
        for level in range(1, lmax + 1):
            lst = [o for o in octs if o.owner == cpu and o.level == level]
            if not lst:
                continue
            dxcell = 0.5**level
            for ind in range(two):
                b = cell_offsets(ind)
                for o in lst:
                    if o.son[ind] > 0 and level < lmax:
                        continue
                    cols["level"].append(level)
                    cols["cpu"].append(cpu)
                    cols["dx"].append(dxcell * boxlen * fac("dx"))
                    for k in range(ndim):
                        xg = o.centre[k] + xbound[k]
                        xc = (float(b[k]) - 0.5) * dxcell
                        cols["position_" + "xyz"[k]].append((xg + xc - xbound[k]) * boxlen * fac("position_" + "xyz"[k]))
                    for name in names:
                        cols[name].append(_values_of(o, name, two, True)[ind] * fac(name))
    out = {}
    for k, v in cols.items():
        out[k] = np.array(v, dtype=np.int64 if k in ("level", "cpu") else np.float64)
    return out


def expected_particles(particles, ncpu, *, unit_l=1.0, unit_d=1.0, unit_t=1.0, cpu_list=None, apply_units=True):
    """Particle arrays concatenated over cpus in cpu order (times :func:`unit_factor`)."""
    cpus = list(cpu_list) if cpu_list is not None else list(range(1, ncpu + 1))
    first = next(iter(particles.values()), None) if particles else None
    names = list(first.keys()) if first else []
    out = {}
    for name in names:
        f = unit_factor(name, unit_l, unit_d, unit_t) if apply_units else 1.0
        pieces = [np.asarray(particles[c][name]) * f for c in cpus if c in particles]
        out[name] = np.concatenate(pieces) if pieces else np.zeros(0)
    return out
