#!/usr/bin/env python
"""Replay a refuted obligation against the real code:  replay/run.py <replay file.json>

Runs under .venv/bin/python with the *real* numpy/pint/numba and the osyris sources of
$OSYRIS_SRC (default /repo/src).  HOME points at a scratch directory so that
~/.osyris/config_osyris.py is regenerated from the tree's defaults.py.
Exit 1: the violated clause is false on the real code (reproduced); 0: not reproduced; 2: error.
"""
import importlib
import json
import os
import shutil
import sys
import tempfile

ROOT = os.path.dirname(os.path.dirname(os.path.abspath(__file__)))


def main():
    path = sys.argv[1]
    with open(path) as f:
        rec = json.load(f)
    src = os.environ.get("OSYRIS_SRC", "/repo/src")
    sys.path.insert(0, ROOT)
    sys.path.insert(0, src)
    home = tempfile.mkdtemp(prefix="replay_home_")
    os.environ["HOME"] = home
    try:
        fn = rec.get("replay_function")
        if not fn:
            print("no replay function for this obligation")
            return 0
        modname, fname = fn.split(":")
        mod = importlib.import_module(modname)
        f = getattr(mod, fname)
        import osyris  # the real one

        assert os.path.realpath(osyris.__file__).startswith(os.path.realpath(src)), osyris.__file__
        out = f(rec.get("case"), rec.get("model") or {}, rec)
        rec["replay"] = out
        with open(path, "w") as g:
            json.dump(rec, g, indent=1, default=str)
        print(json.dumps(out, default=str)[:2000])
        return 1 if out.get("reproduced") else 0
    except Exception as e:
        import traceback

        traceback.print_exc()
        return 2
    finally:
        shutil.rmtree(home, ignore_errors=True)


if __name__ == "__main__":
    sys.exit(main())
