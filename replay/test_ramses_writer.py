#!/usr/bin/env python
"""Self-test of replay/ramses_writer.py: write synthetic RAMSES outputs, load them with osyris.

Run as a script (prints a summary, exit status 0 iff everything passed) or under pytest:

    /verif/.venv/bin/python /verif/replay/test_ramses_writer.py

The test gives osyris a private scratch HOME (osyris writes ~/.osyris/config_osyris.py on import
and a stale copy there would shadow the tree's defaults.py) unless osyris is already imported, and
takes the osyris sources from $OSYRIS_SRC (default /repo/src).  All output goes to scratch
directories /tmp/rw_* that are removed again.
"""
import atexit
import contextlib
import io
import os
import random
import re
import shutil
import struct
import sys
import tempfile
import traceback

import numpy as np

HERE = os.path.dirname(os.path.abspath(__file__))
sys.path.insert(0, HERE)

_had_osyris = "osyris" in sys.modules
if not _had_osyris:
    _home = tempfile.mkdtemp(prefix="rw_home_", dir="/tmp")
    os.environ["HOME"] = _home
    atexit.register(shutil.rmtree, _home, ignore_errors=True)
    _src = os.environ.get("OSYRIS_SRC", "/repo/src")
    if _src not in sys.path:
        sys.path.insert(0, _src)

import ramses_writer as rw  # noqa: E402

assert _had_osyris or "osyris" not in sys.modules, "ramses_writer must not import osyris"

import osyris  # noqa: E402
from osyris.io import hilbert as osyris_hilbert  # noqa: E402

LEVELMIN, LEVELMAX = 2, 4
BYTE_SIZE = {"b": 1, "i": 4, "d": 8, "n": 8, "s": 1, "q": 8, "l": 8}
RT_VARS = ("photon_density_1", "photon_flux_1_x", "photon_flux_1_y", "photon_flux_1_z")


# ----------------------------------------------------------------------------------------------
# helpers
# ----------------------------------------------------------------------------------------------
@contextlib.contextmanager
def scratch():
    d = tempfile.mkdtemp(prefix="rw_out_", dir="/tmp")
    try:
        yield d
    finally:
        shutil.rmtree(d, ignore_errors=True)


def load(nout, path, **kwargs):
    buf = io.StringIO()
    with contextlib.redirect_stdout(buf):
        ds = osyris.RamsesDataset(nout, path=path).load(**kwargs)
    return ds


def column(group, name):
    """Values of a scalar column, looking inside the Vector osyris may have merged it into."""
    if name in group.keys():
        return np.asarray(group[name].values)
    m = re.fullmatch(r"(.*)_([xyz])", name)
    assert m, f"{name} not in {list(group.keys())}"
    vec = group[m.group(1)]
    return np.asarray(getattr(vec, m.group(2)).values)


def sink_column(group, name):
    if name in group.keys():
        return np.asarray(group[name].values)
    if name in "xyz":
        return np.asarray(getattr(group["position"], name).values)
    return np.asarray(getattr(group[name[:-1]], name[-1]).values)


def same(got, want, exact, what):
    got = np.asarray(got)
    want = np.asarray(want)
    assert got.shape == want.shape, f"{what}: shape {got.shape} != {want.shape}"
    if exact:
        ok = np.array_equal(got, want)
    else:
        ok = np.allclose(got, want, rtol=1e-12, atol=0.0)
    if not ok:
        bad = np.flatnonzero(~np.isclose(got, want, rtol=1e-12, atol=0.0))
        raise AssertionError(f"{what}: {len(bad)} of {len(want)} rows differ, first at {bad[:5]}: "
                             f"{got[bad[:3]]} != {want[bad[:3]]}")


def reader_end_positions(ds):
    """(name, position reached, file size) for every binary reader after a load (last cpu read)."""
    out = []
    for name, reader in ds.loader.readers.items():
        if getattr(reader, "bytes", None) is None or not reader.initialized:
            continue
        pos = sum(reader.offsets[k] * BYTE_SIZE[k] for k in reader.offsets)
        out.append((name, pos, len(reader.bytes)))
    return out


def make_particles(ndim, ncpu, rng, skip_cpu=None):
    nprng = np.random.default_rng(rng.randrange(1 << 30))
    parts = {}
    ident = 1
    for cpu in range(1, ncpu + 1):
        if cpu == skip_cpu:
            continue
        n = rng.randrange(0, 9)
        d = {}
        for c in "xyz"[:ndim]:
            d["position_" + c] = nprng.random(n)
        for c in "xyz"[:ndim]:
            d["velocity_" + c] = nprng.normal(size=n)
        d["mass"] = nprng.random(n) + 0.5
        d["identity"] = np.arange(ident, ident + n, dtype=np.int32)
        d["levelp"] = nprng.integers(1, LEVELMAX + 1, size=n, dtype=np.int32)
        d["family"] = nprng.integers(-5, 6, size=n, dtype=np.int8)
        d["tag"] = nprng.integers(0, 3, size=n, dtype=np.int8)
        ident += n
        parts[cpu] = d
    return parts


SINK_UNITS = {"id": "1", "msink": "m", "x": "l", "y": "l", "z": "l", "vx": "l t**-1", "vy": "l t**-1",
              "vz": "l t**-1", "tform": "t"}


def make_sinks(n, rng):
    s = {"id": list(range(1, n + 1))}
    for k in ("msink", "x", "y", "z", "vx", "vy", "vz", "tform"):
        s[k] = [rng.random() + 0.1 for _ in range(n)]
    return s


def sink_factor(name, ul, ud, ut):
    u = SINK_UNITS[name]
    return {"1": 1.0, "m": ud * ul**3, "l": ul, "t": ut, "l t**-1": ul * ut**-1}[u]


# ----------------------------------------------------------------------------------------------
# an independent, purely sequential reader of the amr + hydro files, written from the format
# description (record by record, no offset arithmetic), used as a second opinion next to osyris
# ----------------------------------------------------------------------------------------------
def spec_read(info, cpu, kind="hydro", nvar=None):
    num = str(info["nout"]).zfill(5)
    ndim, ncpu, lmax = info["ndim"], info["ncpu"], info["levelmax"]
    two = 2**ndim
    with open(os.path.join(info["outdir"], f"amr_{num}.out{cpu:05d}"), "rb") as f:
        recs = rw.read_records(f.read())
    it = iter(recs)

    def ints():
        b = next(it)
        return list(struct.unpack(f"<{len(b) // 4}i", b))

    def dbls():
        b = next(it)
        return list(struct.unpack(f"<{len(b) // 8}d", b))

    assert ints() == [ncpu] and ints() == [ndim]
    nx = ints()
    assert len(nx) == 3
    assert ints() == [lmax]
    ints()  # ngridmax
    (nboundary,) = ints()
    ints()  # ngrid_current
    (boxlen,) = dbls()
    noutput, _iout, _ifout = ints()
    assert len(dbls()) == noutput and len(dbls()) == noutput
    assert len(dbls()) == 1
    dtold, dtnew = dbls(), dbls()
    assert len(dtold) == lmax and len(dtnew) == lmax
    assert len(ints()) == 2
    assert [len(dbls()) for _ in range(4)] == [3, 7, 5, 1]
    ints(), ints()  # headl taill
    numbl = np.array(ints()).reshape(lmax, ncpu)  # [level, cpu]
    assert len(ints()) == 10 * lmax
    numb = numbl
    if nboundary > 0:
        ints(), ints()
        numbb = np.array(ints()).reshape(lmax, nboundary)
        numb = np.concatenate([numbl, numbb], axis=1)
    assert len(ints()) == 5
    assert next(it).rstrip() == b"hilbert"
    key_rec = next(it)
    assert len(key_rec) % (ncpu + 1) == 0
    ncoarse = nx[0] * nx[1] * nx[2]
    assert [len(ints()) for _ in range(3)] == [ncoarse] * 3

    with open(os.path.join(info["outdir"], f"{kind}_{num}.out{cpu:05d}"), "rb") as f:
        hrecs = rw.read_records(f.read())
    hit = iter(hrecs)
    nhead = 4 if kind == "grav" else 6
    head = [next(hit) for _ in range(nhead)]
    assert struct.unpack("<i", head[0]) == (ncpu,)
    if kind == "grav":
        nvar = ndim + 1
    else:
        (nvar_file,) = struct.unpack("<i", head[1])
        assert nvar is None or nvar == nvar_file
        nvar = nvar_file

    rows = []  # (level, xg tuple, ind, son, [values])
    for l in range(1, lmax + 1):
        for d in range(1, ncpu + nboundary + 1):
            g = int(numb[l - 1, d - 1])
            assert struct.unpack("<i", next(hit)) == (l,)
            assert struct.unpack("<i", next(hit)) == (g,)
            if g == 0:
                continue
            assert all(len(ints()) == g for _ in range(3))
            xg = [dbls() for _ in range(ndim)]
            assert all(len(x) == g for x in xg)
            assert all(len(ints()) == g for _ in range(1 + 2 * ndim))
            son = [ints() for _ in range(two)]
            assert all(len(ints()) == g for _ in range(2 * two))
            vals = [[struct.unpack(f"<{g}d", next(hit)) for _ in range(nvar)] for _ in range(two)]
            if d != cpu:
                continue
            for ind in range(two):
                for k in range(g):
                    rows.append((l, tuple(xg[a][k] for a in range(ndim)), ind, son[ind][k],
                                 [vals[ind][v][k] for v in range(nvar)]))
    assert next(it, None) is None, "amr file has trailing records"
    assert next(hit, None) is None, f"{kind} file has trailing records"
    return dict(rows=rows, nx=nx, boxlen=boxlen, dtold=dtold, dtnew=dtnew, nboundary=nboundary)


# ----------------------------------------------------------------------------------------------
# one full write / load / compare cycle
# ----------------------------------------------------------------------------------------------
def run_case(ndim, ncpu, nboundary, noutput, seed, *, units=(1.0, 1.0, 1.0), grav=False, rt_vars=None,
             nsinks=None, with_particles=True, nx=(1, 1, 1), boxlen=1.0, key_bytes=8, nout=None,
             owner_random=False):
    rng = random.Random(seed)
    ul, ud, ut = units
    exact = units == (1.0, 1.0, 1.0)
    hydro_vars = rw.default_hydro_vars(ndim)
    variables = hydro_vars + (rw.grav_var_names(ndim) if grav else ()) + tuple(rt_vars or ())
    owner_of = (lambda c, l: rng.randrange(1, ncpu + 1)) if owner_random else None
    octs = rw.build_tree(ndim, LEVELMIN, LEVELMAX, None, owner_of, rng, ncpu=ncpu, variables=variables,
                         refine_fraction=0.3)
    assert rw.validate_tree(octs, ndim) == []
    ghosts = rw.random_ghosts(octs, ncpu, rng, fraction=0.35)
    bgrids = rw.random_boundary_grids(octs, ncpu, nboundary, rng, fraction=0.2)
    particles = make_particles(ndim, ncpu, rng, skip_cpu=(2 if ncpu > 2 and seed % 2 else None)) \
        if with_particles else None
    sinks = make_sinks(nsinks, rng) if nsinks is not None else None
    nout = nout if nout is not None else rng.randrange(1, 400)
    kw = dict(ndim=ndim, ncpu=ncpu, levelmax=LEVELMAX, boxlen=boxlen, unit_l=ul, unit_d=ud, unit_t=ut, nx=nx)
    with scratch() as path:
        info = rw.write_output(path, nout, octs, levelmin=LEVELMIN, nboundary=nboundary, noutput=noutput,
                               hydro_vars=hydro_vars, grav=grav, rt_vars=rt_vars, ghosts=ghosts,
                               boundary_grids=bgrids, particles=particles, sinks=sinks, sink_units=SINK_UNITS,
                               time=0.25, gamma=1.6, key_bytes=key_bytes, **kw)
        # -- every binary file is a clean sequence of Fortran records
        for fn in info["files"]:
            if ".out" in os.path.basename(fn):
                with open(fn, "rb") as f:
                    rw.read_records(f.read())
        ds = load(nout, path)
        ends = reader_end_positions(ds)
        assert osyris_hilbert._read_bound_key(ds.meta["infofile"], ncpu) == info["bound_keys"]
        second = [spec_read(info, cpu, "hydro", len(hydro_vars)) for cpu in range(1, ncpu + 1)]
        second_grav = [spec_read(info, cpu, "grav") for cpu in range(1, ncpu + 1)] if grav else None
        second_rt = [spec_read(info, cpu, "rt", len(rt_vars)) for cpu in range(1, ncpu + 1)] if rt_vars else None

    want = rw.expected_mesh(octs, hydro_vars=hydro_vars, grav=grav, rt_vars=rt_vars, **kw)
    two = 2**ndim
    nleaf = sum(1 for o in octs for ind in range(two) if o.son[ind] == 0 or o.level == LEVELMAX)
    mesh = ds["mesh"]
    assert info["nleaf"] == nleaf == len(want["level"]), (info["nleaf"], nleaf, len(want["level"]))
    assert ds.meta["ncells"] == nleaf, (ds.meta["ncells"], nleaf)
    # the leaves tile the box exactly once
    assert abs(sum((0.5 ** int(l)) ** ndim for l in want["level"]) - 1.0) < 1e-12
    for name, arr in want.items():
        got = column(mesh, name)
        same(got, arr, exact or name in ("level", "cpu"), f"mesh[{name}]")
    # file order reported by the writer == order of expected_mesh
    order = [o for cpu in range(1, ncpu + 1) for o in info["cpus"][cpu]["owned"]]
    assert [id(o) for o in order] == [id(o) for cpu in range(1, ncpu + 1) for l in range(1, LEVELMAX + 1)
                                      for o in octs if o.owner == cpu and o.level == l]
    # the readers consumed the last cpu's files to the last byte
    for name, pos, size in ends:
        assert pos == size, f"reader {name}: stopped at byte {pos} of {size}"
    names_read = {n for n, _, _ in ends}
    assert {"amr", "hydro"} <= names_read
    assert ("grav" in names_read) == bool(grav) and ("rt" in names_read) == bool(rt_vars)
    # header values that osyris extracts
    same(ds.meta["dtold"], info["dtold"], True, "dtold")
    same(ds.meta["dtnew"], info["dtnew"], True, "dtnew")
    assert ds.meta["gamma"] == 1.6
    for key in ("ncpu", "ndim", "levelmin", "levelmax", "boxlen", "unit_l", "unit_d", "unit_t"):
        assert ds.meta[key] == info[key], (key, ds.meta[key], info[key])
    assert ds.meta["ordering type"] == "hilbert"
    assert np.isclose(ds.meta["time"].magnitude, 0.25 * ut, rtol=1e-14)
    # second opinion: the sequential record reader sees the same leaf cells in the same order
    xb = [float(n // 2) for n in nx]
    for label, sec, names in (("hydro", second, hydro_vars), ("grav", second_grav, rw.grav_var_names(ndim)),
                              ("rt", second_rt, rt_vars)):
        if sec is None:
            continue
        raw = rw.expected_mesh(octs, hydro_vars=hydro_vars, grav=grav, rt_vars=rt_vars, apply_units=False,
                               **dict(kw, boxlen=1.0))
        rows = [(cpu + 1, r) for cpu, s in enumerate(sec) for r in s["rows"]
                if not (r[3] > 0 and r[0] < LEVELMAX)]
        assert len(rows) == nleaf, (label, len(rows), nleaf)
        assert [c for c, _ in rows] == list(raw["cpu"]) and [r[0] for _, r in rows] == list(raw["level"])
        for a in range(ndim):
            pos = [r[1][a] + (rw.cell_offsets(r[2])[a] - 0.5) * 0.5 ** r[0] - xb[a] for _, r in rows]
            same(pos, raw["position_" + "xyz"[a]], True, f"second reader position {a}")
        for v, name in enumerate(names):
            same([r[4][v] for _, r in rows], raw[name], True, f"second reader {label} {name}")
        assert all(s["nx"] == list(nx) and s["nboundary"] == nboundary for s in sec)
    # particles
    if with_particles:
        wantp = rw.expected_particles(particles, ncpu, unit_l=ul, unit_d=ud, unit_t=ut)
        ntot = len(wantp["mass"])
        assert ds.meta["nparticles"] == ntot
        if ntot > 0:
            for name, arr in wantp.items():
                same(column(ds["part"], name), arr, exact, f"part[{name}]")
        else:
            assert len(ds["part"].keys()) == 0 or all(len(column(ds["part"], n)) == 0 for n in wantp)
    else:
        assert "part" not in ds.groups or len(ds["part"].keys()) == 0
    # sinks
    if nsinks is not None:
        assert info["nsink"] == nsinks
        for name, vals in sinks.items():
            got = sink_column(ds["sink"], name)
            same(got, np.array(vals, dtype=float) * sink_factor(name, ul, ud, ut), exact, f"sink[{name}]")
    else:
        assert "sink" not in ds.groups
    return dict(nleaf=nleaf, nocts=len(octs), nghost=sum(len(v) for v in ghosts.values()),
                nbound=sum(len(v) for v in bgrids.values()))


# ----------------------------------------------------------------------------------------------
# tests
# ----------------------------------------------------------------------------------------------
NOTES = []


def note(msg):
    NOTES.append(msg)


def test_hilbert_key_agrees_with_osyris():
    rng = random.Random(1)
    n = 0
    for bit_length in (1, 2, 3, 5, 8, 12, 21):
        m = 2**bit_length
        pts = [(0, 0, 0), (m - 1, m - 1, m - 1), (m - 1, 0, 0), (0, m - 1, 0), (0, 0, m - 1)]
        pts += [(rng.randrange(m), rng.randrange(m), rng.randrange(m)) for _ in range(60)]
        for (x, y, z) in pts:
            assert rw.hilbert_key(x, y, z, bit_length) == int(osyris_hilbert._hilbert3d(x, y, z, bit_length))
            n += 1
    # exhaustive for small cubes: the key is a bijection onto 0..8**b-1 and consecutive keys are
    # face neighbours (the defining property of the Hilbert curve)
    for b in (1, 2, 3):
        m = 2**b
        inv = {}
        for x in range(m):
            for y in range(m):
                for z in range(m):
                    k = rw.hilbert_key(x, y, z, b)
                    assert k == int(osyris_hilbert._hilbert3d(x, y, z, b))
                    inv[k] = (x, y, z)
        assert sorted(inv) == list(range(8**b))
        for k in range(8**b - 1):
            assert sum(abs(p - q) for p, q in zip(inv[k], inv[k + 1])) == 1
    note(f"{n} random points + exhaustive b<=3")


def test_matrix():
    n = 0
    leaves = 0
    nghost = 0
    nbound = 0
    seed = 100
    for ndim in (1, 2, 3):
        for ncpu in (1, 3):
            for nboundary in (0, 2):
                for noutput in (1, 4):
                    seed += 1
                    nsinks = (1, 3)[seed % 2]
                    try:
                        r = run_case(ndim, ncpu, nboundary, noutput, seed, nsinks=nsinks)
                    except Exception as e:
                        raise AssertionError(f"case ndim={ndim} ncpu={ncpu} nboundary={nboundary} "
                                             f"noutput={noutput} seed={seed}: {type(e).__name__}: {e}") from e
                    n += 1
                    leaves += r["nleaf"]
                    nghost += r["nghost"]
                    nbound += r["nbound"]
                    assert (r["nghost"] > 0) == (ncpu > 1) and (r["nbound"] > 0) == (nboundary > 0), r
    note(f"{n} cases (ndim x ncpu x nboundary x noutput), {leaves} leaf cells compared, "
         f"{nghost} ghost and {nbound} boundary grids skipped")


def test_units():
    r = run_case(3, 3, 2, 2, 7, units=(3.0e18, 1e-24, 3.0e13), nsinks=3, grav=True, boxlen=4.0)
    run_case(2, 3, 0, 1, 8, units=(3.0e18, 1e-24, 3.0e13), nsinks=1, boxlen=0.5)
    run_case(1, 2, 2, 3, 9, units=(2.0, 3.0, 5.0), nsinks=2)
    note(f"unit_l=3e18 unit_d=1e-24 unit_t=3e13 boxlen=4, rtol 1e-12; {r['nleaf']} leaves (3-D)")


def test_grav():
    for ndim in (1, 2, 3):
        run_case(ndim, 3, 2 * (ndim % 2), 2, 20 + ndim, grav=True)
    note("grav files, ndim 1 2 3")


def test_rt():
    run_case(3, 3, 2, 2, 31, rt_vars=RT_VARS)
    run_case(3, 1, 0, 1, 32, rt_vars=RT_VARS, grav=True)
    run_case(2, 2, 0, 1, 33, rt_vars=RT_VARS[:3])
    run_case(1, 2, 1, 1, 34, rt_vars=RT_VARS[:2])
    note("rt files + descriptor (with and without grav)")


def test_no_particles_no_sinks_random_owner():
    for ndim in (1, 2, 3):
        run_case(ndim, 4, 1, 2, 40 + ndim, with_particles=False, owner_random=True)
    note("no part / sink files; owners scattered at random over 4 cpus")


def test_coarse_grid_and_quad_keys():
    run_case(3, 3, 2, 2, 51, nx=(3, 3, 3), nsinks=1)
    run_case(2, 2, 2, 1, 52, nx=(3, 3, 1))
    run_case(1, 2, 2, 1, 53, nx=(3, 1, 1))
    run_case(3, 2, 0, 1, 54, key_bytes=16)
    note("nx=3 (xbound=1) in 1/2/3-D, 16-byte bound keys")


def test_empty_sink_file_and_nout_padding():
    rng = random.Random(5)
    octs = rw.build_tree(3, 1, 2, None, None, rng, ncpu=2)
    with scratch() as path:
        info = rw.write_output(path, 7, octs, ndim=3, ncpu=2, levelmin=1, levelmax=2, sinks={})
        assert os.path.basename(info["outdir"]) == "output_00007"
        assert os.path.getsize(os.path.join(info["outdir"], "sink_00007.csv")) == 0
        ds = load(7, path)
        assert len(ds["sink"].keys()) == 0
        assert ds.meta["ncells"] == info["nleaf"]
        ds2 = load(-1, path)  # nout = -1: last output in the directory
        assert ds2.meta["ncells"] == info["nleaf"]
    note("empty sink file, output_00007, nout=-1")


def test_default_owner_matches_bound_keys_and_osyris_cpu_list():
    """Owners come from Hilbert keys against the info-file table; osyris' cpu list for a
    sub-domain (computed from the same table) is used to load a subset of the cpus."""
    rng = random.Random(77)
    ndim, ncpu = 3, 16
    octs = rw.build_tree(ndim, LEVELMIN, LEVELMAX, None, None, rng, ncpu=ncpu)
    keys = rw.default_bound_keys(ndim, ncpu, LEVELMAX)
    assert keys[0] == 0 and keys[-1] == 8 ** (LEVELMAX + 1)
    for o in octs:
        ijk = [int(c * 2 ** (LEVELMAX + 1)) for c in o.centre]
        k = int(osyris_hilbert._hilbert3d(ijk[0], ijk[1], ijk[2], LEVELMAX + 1))
        assert keys[o.owner - 1] <= k < keys[o.owner], (o.centre, o.owner, k)
    assert len({o.owner for o in octs}) >= 4  # some of the 16 cpus own nothing: empty files are fine
    kw = dict(ndim=ndim, ncpu=ncpu, levelmax=LEVELMAX)
    lim = 0.24
    with scratch() as path:
        info = rw.write_output(path, 3, octs, levelmin=LEVELMIN, ghosts=rw.random_ghosts(octs, ncpu, rng), **kw)
        sel = {"mesh": {"position_x": lambda v: v > osyris.Array(1.0 - lim, unit="cm"),
                        "position_y": lambda v: v < osyris.Array(lim, unit="cm"),
                        "position_z": lambda v: v < osyris.Array(lim, unit="cm")}}
        ds = load(3, path, select=sel)
        cpu_list = list(ds.loader.readers["amr"].cpu_list)
    assert 0 < len(cpu_list) < ncpu, cpu_list
    part = rw.expected_mesh(octs, cpu_list=cpu_list, **kw)

    def inside(m):
        return (m["position_x"] > 1.0 - lim) & (m["position_y"] < lim) & (m["position_z"] < lim)

    keep = inside(part)
    for name, arr in part.items():
        same(column(ds["mesh"], name), arr[keep], True, f"selected mesh[{name}]")
    full = rw.expected_mesh(octs, **kw)
    nall = int(np.sum(inside(full)))
    note((f"osyris cpu_list {cpu_list} of {ncpu}; {int(keep.sum())} selected cells loaded, "
            f"{nall} exist in the whole tree" + ("" if nall == keep.sum() else " (osyris list misses some)")))


def test_writer_rejects_malformed_input():
    rng = random.Random(3)
    octs = rw.build_tree(2, 2, 3, None, None, rng, ncpu=2)
    bad = 0
    with scratch() as path:
        for mutate in ("orphan", "ghost_owner", "one_var", "missing_value", "owner_range"):
            o2 = [rw.Oct(o.level, o.centre, o.owner, list(o.son), {k: list(v) for k, v in o.values.items()},
                         o.index, o.parent) for o in octs]
            kw = dict(ndim=2, ncpu=2, levelmin=2, levelmax=3)
            if mutate == "orphan":
                o2[0].son[0] = 0
            elif mutate == "ghost_owner":
                kw["ghosts"] = {1: [next(o for o in o2 if o.owner == 1)]}
            elif mutate == "one_var":
                kw["hydro_vars"] = ("density",)
            elif mutate == "missing_value":
                del o2[1].values["pressure"]
            elif mutate == "owner_range":
                o2[1].owner = 3
            try:
                rw.write_output(path, 1, o2, **kw)
            except ValueError:
                bad += 1
    assert bad == 5, bad
    note("5 malformed inputs rejected with ValueError")


TESTS = [
    test_hilbert_key_agrees_with_osyris,
    test_matrix,
    test_units,
    test_grav,
    test_rt,
    test_no_particles_no_sinks_random_owner,
    test_coarse_grid_and_quad_keys,
    test_empty_sink_file_and_nout_padding,
    test_default_owner_matches_bound_keys_and_osyris_cpu_list,
    test_writer_rejects_malformed_input,
]


def main():
    failed = 0
    print(f"osyris from {os.path.dirname(osyris.__file__)}; HOME={os.environ.get('HOME')}")
    for t in TESTS:
        try:
            del NOTES[:]
            t()
            print(f"PASS {t.__name__}: {'; '.join(NOTES)}")
        except Exception:
            failed += 1
            print(f"FAIL {t.__name__}")
            traceback.print_exc()
    print(f"SUMMARY: {len(TESTS) - failed} passed, {failed} failed")
    left = [d for d in os.listdir("/tmp") if d.startswith("rw_out_")]
    if left:
        print("scratch directories left behind:", left)
    return 1 if failed else 0


if __name__ == "__main__":
    sys.exit(main())
