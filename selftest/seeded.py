#!/usr/bin/env python3
"""Run the registered checks against the seeded property-breaking changes in /verif/seeded.
For each seeded/<id>/patch.diff: copy /repo/src+test to a scratch dir, apply the patch, (optionally) run the
pinned tests and the demonstration, run the check of the property with OSYRIS_SRC pointing at the
scratch copy, record exit code / first VIOLATION lines.  usage: seeded.py [ids...] [--verify]"""
import json
import os
import shutil
import subprocess
import sys
import tempfile

ROOT = os.path.dirname(os.path.dirname(os.path.abspath(__file__)))
PY = "/venv/bin/python"


def run_one(sid, verify=False):
    d = os.path.join(ROOT, "seeded", sid)
    meta = json.load(open(os.path.join(d, "meta.json")))
    tmp = tempfile.mkdtemp(prefix="seeded_")
    out = {"id": sid, "property": meta["property"]}
    try:
        for attempt in range(8):  # concurrent runs contend for git's worktree lock
            r0 = subprocess.run(["git", "-C", "/repo", "worktree", "add", "-q", "--detach", os.path.join(tmp, "wt"), "HEAD"],
                                capture_output=True, text=True)
            if r0.returncode == 0:
                break
            import time

            time.sleep(1.5 + attempt)
        else:
            out["error"] = "git worktree add failed: " + r0.stderr[:200]
            return out
        wt = os.path.join(tmp, "wt")
        r = subprocess.run(["git", "-C", wt, "apply", os.path.join(d, "patch.diff")], capture_output=True, text=True)
        if r.returncode != 0:
            out["error"] = "patch does not apply: " + r.stderr[:300]
            return out
        env = dict(os.environ, HOME=os.path.join(tmp, "home"), PYTHONPATH=os.path.join(wt, "src"), MPLBACKEND="Agg")
        os.makedirs(env["HOME"], exist_ok=True)
        if verify:
            t = subprocess.run([PY, "-m", "pytest", "-q", "-p", "no:cacheprovider", "test"], cwd=wt, env=env, capture_output=True, text=True)
            out["tests"] = t.stdout.strip().splitlines()[-1] if t.stdout.strip() else t.stderr[-200:]
            demo = os.path.join(d, meta.get("demo", "demo.py"))
            dm = subprocess.run([PY, demo], cwd=tmp, env=env, capture_output=True, text=True)
            out["demo_on_mutant_exit"] = dm.returncode
            out["demo_on_mutant_says"] = "FAIL" if "FAIL" in dm.stdout else ("PASS" if "PASS" in dm.stdout else "?")
            env0 = dict(env, PYTHONPATH="/repo/src")
            d0 = subprocess.run([PY, demo], cwd=tmp, env=env0, capture_output=True, text=True)
            out["demo_on_clean_exit"] = d0.returncode
            out["demo_on_clean_says"] = "FAIL" if "FAIL" in d0.stdout else ("PASS" if "PASS" in d0.stdout else "?")
        props = meta.get("checks", [meta["property"]])
        out["checks"] = {}
        for prop in props:
            envc = dict(os.environ, OSYRIS_SRC=os.path.join(wt, "src"))
            c = subprocess.run([sys.executable, os.path.join(ROOT, "checks", "run.py"), prop], capture_output=True, text=True, env=envc, cwd=ROOT)
            lines = [l for l in c.stdout.splitlines() if l.startswith("VIOLATION")]
            und = [l for l in c.stdout.splitlines() if l.startswith("UNDECIDED")]
            out["checks"][prop] = {"exit": c.returncode, "violations": len(lines), "first": [l[:230] for l in lines[:3]],
                                   "undecided": len(und), "summary": c.stdout.strip().splitlines()[-1][:200] if c.stdout.strip() else c.stderr[-300:]}
        return out
    finally:
        subprocess.run(["git", "-C", "/repo", "worktree", "remove", "--force", os.path.join(tmp, "wt")], capture_output=True)
        shutil.rmtree(tmp, ignore_errors=True)


if __name__ == "__main__":
    args = [a for a in sys.argv[1:] if not a.startswith("--")]
    verify = "--verify" in sys.argv
    ids = args or sorted(os.listdir(os.path.join(ROOT, "seeded")))
    res = []
    for sid in ids:
        if not os.path.exists(os.path.join(ROOT, "seeded", sid, "meta.json")):
            continue
        r = run_one(sid, verify)
        res.append(r)
        print(json.dumps(r))
    caught = sum(1 for r in res if any(c["exit"] == 1 for c in r.get("checks", {}).values()))
    print("caught %d of %d" % (caught, len(res)))
