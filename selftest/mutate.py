#!/usr/bin/env python3
"""Apply one textual edit to a scratch copy of /repo/src and run a check against it.
usage: mutate.py <Cxx> <relative file under src/osyris> <old> <new> [--expect 0|1]
The scratch copy lives under $TMPDIR and is removed afterwards."""
import os
import shutil
import subprocess
import sys
import tempfile

ROOT = os.path.dirname(os.path.dirname(os.path.abspath(__file__)))


def run(prop, rel, old, new, quiet=False):
    tmp = tempfile.mkdtemp(prefix="osyris_mut_")
    try:
        shutil.copytree("/repo/src", os.path.join(tmp, "src"), ignore=shutil.ignore_patterns("__pycache__", "*.egg-info"))
        p = os.path.join(tmp, "src", "osyris", rel)
        s = open(p).read()
        if old not in s:
            print("PATTERN NOT FOUND:", old)
            return 99, ""
        open(p, "w").write(s.replace(old, new, 1))
        env = dict(os.environ, OSYRIS_SRC=os.path.join(tmp, "src"))
        out = subprocess.run([sys.executable, os.path.join(ROOT, "checks", "run.py"), prop], capture_output=True,
                             text=True, env=env, cwd=ROOT)
        return out.returncode, out.stdout + out.stderr
    finally:
        shutil.rmtree(tmp, ignore_errors=True)


if __name__ == "__main__":
    prop, rel, old, new = sys.argv[1:5]
    rc, out = run(prop, rel, old, new)
    lines = [l for l in out.splitlines() if l.startswith(("VIOLATION", "UNDECIDED", "C", "CHECKER"))]
    print("\n".join(lines[:8]))
    print("... exit", rc)
