"""Native oracles for the plotting kernels and functions (C05, C03, C11, C18, C19)."""
import math
import random


def floor_bin_oracle(np, x, y, values, xmin, xmax, nx, ymin, ymax, ny):
    dx, dy = (xmax - xmin) / nx, (ymax - ymin) / ny
    out = np.zeros((values.shape[0], ny, nx))
    counts = np.zeros((ny, nx), dtype=np.int64)
    for i in range(len(x)):
        if not (math.isfinite(x[i]) and math.isfinite(y[i])):
            continue
        bx, by = math.floor((x[i] - xmin) / dx), math.floor((y[i] - ymin) / dy)
        if 0 <= bx < nx and 0 <= by < ny:
            out[:, by, bx] += values[:, i]
            counts[by, bx] += 1
    return out, counts


def hist2d_case(seed, threads=None, n=None):
    import numba
    import numpy as np
    from osyris.plot.utils import hist2d

    rng = np.random.default_rng(seed)
    kind = seed % 6
    n = int(rng.integers(0, 400)) if n is None else n
    nx, ny = int(rng.integers(1, 9)), int(rng.integers(1, 9))
    xmin, xmax, ymin, ymax = 0.0, float(rng.integers(1, 5)), -1.0, float(rng.integers(0, 4)) + 0.5
    dx, dy = (xmax - xmin) / nx, (ymax - ymin) / ny
    x = rng.uniform(xmin - 2 * dx, xmax + 2 * dx, n)
    y = rng.uniform(ymin - 2 * dy, ymax + 2 * dy, n)
    if kind == 1 and n:  # everything in one bin
        x[:] = xmin + 0.5 * dx
        y[:] = ymin + 0.5 * dy
    if kind == 2 and n:  # values just outside / on the limits
        x[: n // 2] = rng.choice([xmin - 0.5 * dx, xmin - 1e-9, xmin, xmax, xmax - 1e-12, xmax + 0.5 * dx], n // 2)
        y[: n // 2] = ymin + 0.5 * dy
    if kind == 3 and n:
        y[: n // 2] = rng.choice([ymin - 0.25 * dy, ymin, ymax, ymax + 0.5 * dy], n // 2)
    if kind == 4 and n > 3:
        x[0], x[1], y[2] = np.nan, np.inf, -np.inf
    values = rng.integers(1, 5, size=(int(rng.integers(1, 4)), n)).astype(float)
    if threads:
        numba.set_num_threads(threads)
    out, counts = hist2d(x, y, values, xmin, xmax, nx, ymin, ymax, ny)
    eo, ec = floor_bin_oracle(np, x, y, values, xmin, xmax, nx, ymin, ymax, ny)
    if not np.array_equal(counts, ec):
        bad = np.argwhere(counts != ec)[0]
        return {"what": "counts differ at bin %s: %d vs %d (kind %d)" % (bad.tolist(), counts[tuple(bad)], ec[tuple(bad)], kind),
                "input": {"seed": seed, "n": n, "nx": nx, "ny": ny, "limits": [xmin, xmax, ymin, ymax]}}
    if not np.allclose(out, eo):
        return {"what": "sums differ (kind %d): total %s vs %s" % (kind, out.sum(), eo.sum()),
                "input": {"seed": seed, "n": n, "nx": nx, "ny": ny}}
    return None


def race_case(npts=6000000, threads=16):
    """many points into very few bins: an exact integer-valued sum must come out exactly"""
    import numba
    import numpy as np
    from osyris.plot.utils import hist2d

    rng = np.random.default_rng(5)
    x = rng.uniform(0, 1, npts)
    y = rng.uniform(0, 1, npts)
    values = np.ones((2, npts))
    numba.set_num_threads(min(threads, numba.config.NUMBA_NUM_THREADS))
    worst = None
    for rep in range(3):
        out, counts = hist2d(x, y, values, 0.0, 1.0, 2, 0.0, 1.0, 2)
        if out.sum() != 2 * npts or counts.sum() != npts:
            worst = {"what": "lost updates with %d threads: sum(out)=%s expected %s; sum(counts)=%s expected %s"
                             % (threads, out.sum(), 2 * npts, counts.sum(), npts),
                     "input": {"npts": npts, "bins": "2x2", "threads": threads}}
            break
    numba.set_num_threads(1)
    out1, counts1 = hist2d(x, y, values, 0.0, 1.0, 2, 0.0, 1.0, 2)
    numba.set_num_threads(numba.config.NUMBA_NUM_THREADS)
    if worst is None and (out1.sum() != 2 * npts):
        worst = {"what": "single thread sum wrong", "input": {}}
    return worst


def threads_disjoint_case(seed):
    """at most one point per bin: no two iterations touch the same cell, so every thread count must give
    the exact histogram (independent of the data race on shared bins)"""
    import numba
    import numpy as np
    from osyris.plot.utils import hist2d

    rng = np.random.default_rng(seed)
    nx, ny = int(rng.integers(3, 12)), int(rng.integers(3, 12))
    cells = rng.permutation(nx * ny)[: int(rng.integers(1, nx * ny + 1))]
    x = (cells % nx + 0.5) / nx
    y = (cells // nx + 0.5) / ny
    values = rng.integers(1, 9, size=(2, len(cells))).astype(float)
    eo, ec = floor_bin_oracle(np, x, y, values, 0.0, 1.0, nx, 0.0, 1.0, ny)
    for th in (2, 3, 4, 7, 16):
        numba.set_num_threads(min(th, numba.config.NUMBA_NUM_THREADS))
        out, counts = hist2d(x, y, values, 0.0, 1.0, nx, 0.0, 1.0, ny)
        if not np.array_equal(counts, ec) or not np.array_equal(out, eo):
            numba.set_num_threads(numba.config.NUMBA_NUM_THREADS)
            return {"what": "%d threads, %d points in distinct bins: counts add up to %s, not %d" % (th, len(cells), counts.sum(), len(cells)),
                    "input": {"seed": seed, "points": int(len(cells)), "threads": th}}
    numba.set_num_threads(numba.config.NUMBA_NUM_THREADS)
    return None


def replay_hist2d(case, model, rec):
    for s in range(120):
        r = hist2d_case(1000 + s)
        if r:
            return {"reproduced": True, "input": r["input"], "observed": r["what"]}
    return {"reproduced": False}


def replay_hist2d_race(case, model, rec):
    r = race_case()
    if r:
        return {"reproduced": True, "input": r["input"], "observed": r["what"]}
    return {"reproduced": False, "note": "no lost update observed in 3 runs of 6e6 points / 4 bins / 16 threads"}


def histogram2d_case(seed):
    import numpy as np
    import osyris
    from osyris import Array, histogram2d
    from osyris.core import Layer

    import numba

    numba.set_num_threads(1)  # semantics of histogram2d; schedule independence is checked on the kernel
    rng = np.random.default_rng(seed)
    n = int(rng.integers(1, 300))
    kind = seed % 9
    x = rng.uniform(1.0, 100.0, n)
    y = rng.uniform(-5.0, 5.0, n)
    if kind == 1:
        x[:] = 3.0  # degenerate range
    if kind == 2 and n > 2:
        y[0], y[1] = np.nan, np.inf
    res = int(rng.integers(1, 12))
    w = rng.integers(1, 6, n).astype(float)
    logx = kind == 3
    xa, ya, wa = Array(values=x.copy(), unit="m"), Array(values=y.copy(), unit="s"), Array(values=w.copy(), unit="K", name="w")
    kw = {}
    explicit = kind in (4, 5)
    if explicit:
        kw = dict(xmin=10.0, xmax=60.0, ymin=-2.0, ymax=2.5)
    if kind == 5:  # limits given as quantities in another unit of the same dimension
        kw = dict(xmin=1000.0 * osyris.units("cm"), xmax=0.06 * osyris.units("km"), ymin=-2.0 * osyris.units("s"),
                  ymax=2.5 * osyris.units("s"))
    partial = None
    if kind in (6, 7, 8):
        # only some of the four limits are given: they are used as given, the automatic ones still enclose the data
        partial = [{"xmax": 150.0, "ymin": -7.0}, {"ymax": 2.5}, {"xmin": 20.0, "xmax": 70.0, "ymin": -9.0}][kind - 6]
        kw = dict(partial)
    out = histogram2d(xa, ya, Layer(wa, operation="sum"), Layer(wa, operation="mean"), resolution=res, plot=False, logx=logx, **kw)
    out0 = histogram2d(xa, ya, resolution=res, plot=False, logx=logx, **kw)
    xs = np.log10(x) if logx else x
    fin = np.isfinite(xs) & np.isfinite(y)
    # reconstruct the range from the returned centres
    def rng_of(c):
        c = np.log10(c) if (logx and c is out.x) else c
        if len(c) == 1:
            return None
        d = c[1] - c[0]
        return c[0] - d / 2, c[-1] + d / 2
    rx, ry = rng_of(out.x), rng_of(out.y)
    if rx is None or ry is None:
        return None
    if partial is not None:
        got_rng = {"xmin": rx[0], "xmax": rx[1], "ymin": ry[0], "ymax": ry[1]}
        for k, v in partial.items():
            if not math.isclose(got_rng[k], v, rel_tol=1e-9, abs_tol=1e-9):
                return {"what": "%s=%s was given but the histogram range has %s=%.6g" % (k, v, k, got_rng[k]),
                        "input": {"seed": seed, "given": partial}}
        inside = fin.copy()
        for k, v in partial.items():
            c = xs if k[0] == "x" else y
            inside &= (c < v) if k.endswith("max") else (c >= v)
        total = int(np.ma.filled(out0.layers[0]["data"], 0.0).sum())
        on_edge = int(sum(np.isclose((xs if k[0] == "x" else y)[fin], v).sum() for k, v in partial.items()))
        if on_edge == 0 and total != int(inside.sum()):
            return {"what": "limits %s given, the others automatic: %d points binned, %d lie inside the given limits" % (partial, total, inside.sum()),
                    "input": {"seed": seed, "given": partial}}
    if logx:
        # centres of log-spaced bins are arithmetic means of the edges: the range cannot be read back
        # from them; check conservation and mask consistency only
        got = np.ma.filled(out0.layers[0]["data"], 0.0)
        if not explicit and int(got.sum()) != int(fin.sum()):
            return {"what": "log axis: %d binned of %d finite" % (got.sum(), fin.sum()), "input": {"seed": seed}}
        if not np.array_equal(np.ma.getmaskarray(out0.layers[0]["data"]), got == 0):
            return {"what": "log axis: mask is not 'bin empty'", "input": {"seed": seed}}
        return None
    eo, ec = floor_bin_oracle(np, xs, y, np.array([w, w]), rx[0], rx[1], res, ry[0], ry[1], res)
    cnt_layer = out0.layers[0]["data"]
    # points within rounding of a bin edge may legitimately fall either side: compare totals and tolerate
    # edge cases by requiring agreement on counts up to the number of near-edge points
    dx, dy = (rx[1] - rx[0]) / res, (ry[1] - ry[0]) / res
    fx = (xs[fin] - rx[0]) / dx
    fy = (y[fin] - ry[0]) / dy
    near = int((np.abs(fx - np.round(fx)) < 1e-9).sum() + (np.abs(fy - np.round(fy)) < 1e-9).sum())
    got_counts = np.ma.filled(cnt_layer, 0.0)
    if near == 0:
        if not np.array_equal(got_counts, ec.astype(float)):
            return {"what": "default layer is not the per-bin count (kind %d)" % kind, "input": {"seed": seed}}
        if not np.array_equal(np.ma.getmaskarray(cnt_layer), ec == 0):
            return {"what": "mask is not 'bin empty'", "input": {"seed": seed}}
        s_layer, m_layer = out.layers[0]["data"], out.layers[1]["data"]
        if not np.allclose(np.ma.filled(s_layer, 0.0), eo[0]):
            return {"what": "sum layer differs", "input": {"seed": seed}}
        with np.errstate(all="ignore"):
            em = np.where(ec > 0, eo[1] / np.maximum(ec, 1), 0.0)
        if not np.allclose(np.ma.filled(m_layer, 0.0), em):
            return {"what": "mean layer differs", "input": {"seed": seed}}
        # one Layer object without an operation of its own, reused in two calls whose call-level operation differs
        lay = Layer(wa)
        first_op, second_op = ("sum", "mean") if seed % 2 else ("mean", "sum")
        histogram2d(xa, ya, lay, operation=first_op, resolution=res, plot=False, **kw)
        o2 = histogram2d(xa, ya, lay, operation=second_op, resolution=res, plot=False, **kw)
        want2 = em if second_op == "mean" else eo[0]
        if not np.allclose(np.ma.filled(o2.layers[0]["data"], 0.0), want2):
            return {"what": "Layer reused after a call with operation=%r: the %r histogram differs from sum%s per bin" % (
                first_op, second_op, "/count" if second_op == "mean" else ""), "input": {"seed": seed, "reused_layer": True}}
    if not explicit and partial is None and near == 0 and int(got_counts.sum()) != int(fin.sum()):
        return {"what": "automatic limits lose points: %d binned of %d finite (kind %d)" % (got_counts.sum(), fin.sum(), kind),
                "input": {"seed": seed}}
    if not np.array_equal(xa.values, x, equal_nan=True) or not np.array_equal(ya.values, y, equal_nan=True):
        return {"what": "inputs modified", "input": {"seed": seed}}
    return None


def replay_histogram2d(case, model, rec):
    for s in range(100):
        try:
            r = histogram2d_case(500 + s)
        except Exception as e:
            r = {"what": "exception %r" % (e,), "input": {"seed": 500 + s}}
        if r:
            return {"reproduced": True, "input": r["input"], "observed": r["what"]}
    return {"reproduced": False}


def sweep_c05(tier, seed):
    viol, cases = [], 0
    nk = 150 if tier == "quick" else 3000
    for threads in (1, 4, 16):
        for s in range(nk // 3):
            cases += 1
            r = hist2d_case(seed * 7919 + s, threads=threads)
            if r:
                # one thread: the sequential semantics; several threads: schedule independence
                name = "C05.native.kernel" if threads == 1 else "C05.native.race.small"
                r["input"]["threads"] = threads
                viol.append({"name": name, "input": r["input"], "observed": r["what"]})
                break
    for s in range(20 if tier == "quick" else 300):
        cases += 1
        r = threads_disjoint_case(seed * 31 + s)
        if r:
            viol.append({"name": "C05.native.threads_distinct_bins", "input": r["input"], "observed": r["what"]})
            break
    r = race_case(npts=6000000 if tier == "quick" else 30000000)
    cases += 1
    if r:
        viol.append({"name": "C05.native.race", "input": r["input"], "observed": r["what"]})
    for s in range(nk // 2):
        cases += 1
        try:
            r = histogram2d_case(seed * 104729 + s)
        except Exception as e:
            r = {"what": "exception %r" % (e,), "input": {"seed": seed * 104729 + s}}
        if r:
            viol.append({"name": "C05.native.histogram2d", "input": r["input"], "observed": r["what"]})
            break
    first = {}
    for v in viol:
        first.setdefault(v["name"], v)
    return {"status": "violation" if viol else "ok", "cases": cases, "distinct": cases, "violations": list(first.values()),
            "samples": [{"kernel_seed": seed * 7919}, {"race": "6e6 points, 2x2 bins, 16 threads"}], "kind": "bounded-native"}


# --------------------------------------------------------------------------------------
# C18: orientation basis
# --------------------------------------------------------------------------------------
def basis_errors(np, b, want_n=None, right_handed=False, tol=1e-9):
    def c(v):
        return np.array([float(v.x.values), float(v.y.values), float(v.z.values)])

    n, u, v = c(b.n), c(b.u), c(b.v)
    bad = []
    for name, w in (("n", n), ("u", u), ("v", v)):
        if not np.isfinite(w).all() or abs(np.dot(w, w) - 1) > tol:
            bad.append("|%s|^2 = %r" % (name, float(np.dot(w, w))))
    for (a, x), (bb, y) in (((("n", n)), ("u", u)), (("n", n), ("v", v)), (("u", u), ("v", v))):
        if abs(np.dot(x, y)) > tol:
            bad.append("%s.%s = %r" % (a, bb, float(np.dot(x, y))))
    if want_n is not None:
        w = np.array(want_n, dtype=float)
        w = w / np.linalg.norm(w) if np.linalg.norm(w) > 0 and np.isfinite(np.linalg.norm(w)) else w / np.abs(w).max() / np.linalg.norm(w / np.abs(w).max())
        if np.linalg.norm(np.cross(n, w)) > 1e-7 or np.dot(n, w) <= 0:
            bad.append("n %s not parallel to request %s" % (n, w))
    if right_handed and np.linalg.norm(np.cross(u, v) - n) > 1e-7:
        bad.append("u x v != n")
    return bad


def replay_basis(case, model, rec):
    import numpy as np
    import osyris
    from osyris import Vector, VectorBasis
    from osyris.plot.direction import get_direction

    vals = [model.get("n" + c) for c in "xyz"]
    cands = []
    if all(isinstance(v, (int, float)) for v in vals) and any(vals):
        cands.append(vals)
    cands += [[1, 0, 0], [0, 1, 0], [0, 0, 1], [1, 1, 0], [1, 2, 3], [-1, 0.5, 2], [0, 0, -2], [3, -4, 0], [1e-3, 2, -7]]
    for v in cands:
        b = VectorBasis(n=Vector(*v, unit="m"))
        bad = basis_errors(np, b, want_n=v, right_handed=True)
        if bad:
            return {"reproduced": True, "input": {"normal": v}, "observed": bad}
    for d in ["x", "y", "z", "X", "xyz", "zyx", "YXZ", "zYx", "yzx", "xzy"]:
        b = get_direction(d)
        ax = {"x": [1, 0, 0], "y": [0, 1, 0], "z": [0, 0, 1]}
        bad = basis_errors(np, b, want_n=ax[d.lower()[0]], right_handed=len(d) == 1)
        if len(d) == 3:
            for nm, k in (("u", 1), ("v", 2)):
                w = getattr(b, nm)
                got = [float(w.x.values), float(w.y.values), float(w.z.values)]
                if got != [float(t) for t in ax[d.lower()[k]]]:
                    bad.append("%s of %r is %s" % (nm, d, got))
        if bad:
            return {"reproduced": True, "input": {"direction": d}, "observed": bad}
    return {"reproduced": False}


def replay_normalize(case, model, rec):
    import numpy as np
    from osyris import Vector
    from osyris.core.vector import normalize

    units = ["cm/m", "percent"] if "scaled" in (case or "") else ["m", "dimensionless", "km"]
    for u in units:
        r = normalize(Vector(3.0, 4.0, 12.0, unit=u))
        n2 = float(r.x.values) ** 2 + float(r.y.values) ** 2 + float(r.z.values) ** 2
        if abs(n2 - 1) > 1e-9:
            return {"reproduced": True, "input": {"vector": [3.0, 4.0, 12.0], "unit": u},
                    "observed": "normalised components %s, |.|^2 = %r" % ([float(r.x.values), float(r.y.values), float(r.z.values)], n2)}
    return {"reproduced": False}


def top_side_case(seed):
    import numpy as np
    import osyris
    from osyris import Array, Vector
    from osyris.plot.direction import get_direction

    rng = np.random.default_rng(seed)
    n = int(rng.integers(20, 200))
    axis = rng.normal(size=3)
    axis /= np.linalg.norm(axis)
    pos = rng.normal(size=(n, 3)) * 2.0
    vel = np.cross(axis, pos) + rng.normal(size=(n, 3)) * 0.05
    mass = rng.uniform(0.5, 2.0, n)
    o = rng.normal(size=3) * 0.1
    data = {"position": Vector(*[Array(values=pos[:, k].copy(), unit="m") for k in range(3)]),
            "velocity": Vector(*[Array(values=vel[:, k].copy(), unit="m/s") for k in range(3)]),
            "mass": Array(values=mass.copy(), unit="kg")}
    origin = Vector(*[Array(values=o[k], unit="m") for k in range(3)])
    dx = 6.0 * osyris.units("m")
    R = 0.25 * (6.0 + 6.0)
    r = pos - o
    sel = np.linalg.norm(r, axis=1) < R
    if not sel.any():
        return None
    L = (mass[sel, None] * np.cross(r[sel], vel[sel])).sum(axis=0)
    import contextlib
    import io

    with contextlib.redirect_stdout(io.StringIO()):
        top = get_direction("top", data=data, dx=dx, dy=dx, origin=origin)
        side = get_direction("SIDE", data=data, dx=dx, dy=dx, origin=origin)
    bad = basis_errors(np, top, want_n=L, right_handed=True)
    bad += ["side: " + b for b in basis_errors(np, side)]
    sn = np.array([float(side.n.x.values), float(side.n.y.values), float(side.n.z.values)])
    if abs(np.dot(sn, L / np.linalg.norm(L))) > 1e-7:
        bad.append("side: angular momentum not in the image plane")
    return bad or None


def replay_top_side(case, model, rec):
    for s in range(40):
        bad = top_side_case(77 + s)
        if bad:
            return {"reproduced": True, "input": {"seed": 77 + s}, "observed": bad}
    return {"reproduced": False}


def sweep_c18(tier, seed):
    import numpy as np
    from osyris import Vector, VectorBasis

    rng = np.random.default_rng(seed)
    viol, cases = [], 0
    r = replay_basis("", {}, {})
    cases += 20
    if r["reproduced"]:
        viol.append({"name": "C18.native.basis", "input": r["input"], "observed": r["observed"]})
    nr = 300 if tier == "quick" else 5000
    for k in range(nr):
        cases += 1
        v = rng.normal(size=3)
        if k % 7 == 0:
            v[2] = 0.0
        if k % 11 == 0:
            v[int(rng.integers(0, 3))] = 0.0
        if not v.any():
            continue
        b = VectorBasis(n=Vector(*v.tolist(), unit=["m", "cm", "km", "dimensionless"][k % 4]))
        bad = basis_errors(np, b, want_n=v, right_handed=True)
        if bad:
            viol.append({"name": "C18.native.basis", "input": {"normal": v.tolist()}, "observed": bad})
            break
    # axis-aligned normals of small (not underflowing) length
    for ex in (1e-3, 1e-9, 1e-12, 1e-30, 1e30):
        for v in ([0.0, 0.0, ex], [0.0, ex, 0.0], [ex, 0.0, 0.0], [0.0, 0.0, -ex], [ex, ex, 0.0]):
            cases += 1
            with np.errstate(all="ignore"):
                b = VectorBasis(n=Vector(*v, unit="m"))
                bad = basis_errors(np, b, want_n=v, right_handed=True)
            if bad:
                viol.append({"name": "C18.native.axis_aligned_small", "input": {"normal": v}, "observed": bad[:3]})
                break
    # magnitudes: tiny / huge components (overflow and underflow of intermediates)
    for ex in (1e-300, 1e-200, 1e-160, 1e-100, 1e-30, 1e30, 1e100, 1e160, 1e200):
        for v in ([1.0, 0.0, ex], [ex, 1.0, 1.0], [1.0, ex, 0.0], [ex, ex, ex], [1.0, 1.0, ex]):
            cases += 1
            with np.errstate(all="ignore"):
                b = VectorBasis(n=Vector(*v, unit="m"))
                bad = basis_errors(np, b, want_n=v, right_handed=True)
            if bad:
                viol.append({"name": "C18.native.magnitude", "input": {"normal": v}, "observed": bad[:3]})
                break
    # one direction Vector reused and changed in place between calls (the basis depends on its CURRENT components)
    for k in range(6 if tier == "quick" else 60):
        cases += 1
        v = rng.normal(size=3) + 0.1
        d = Vector(*v.tolist(), unit="m")
        VectorBasis(n=d)
        d.norm  # noqa: B018
        hx, hz = d.x, d.z
        hx += hx
        hz *= -0.5
        now = [float(d.x.values), float(d.y.values), float(d.z.values)]
        bad = basis_errors(np, VectorBasis(n=d), want_n=now, right_handed=True)
        if bad:
            viol.append({"name": "C18.native.direction_reused", "input": {"normal": v.tolist(), "then": now}, "observed": bad[:3]})
            break
    for s in range(10 if tier == "quick" else 200):
        cases += 1
        bad = top_side_case(seed * 31 + s)
        if bad:
            viol.append({"name": "C18.native.top_side", "input": {"seed": seed * 31 + s}, "observed": bad})
            break
    first = {}
    for v in viol:
        first.setdefault(v["name"], v)
    return {"status": "violation" if viol else "ok", "cases": cases, "distinct": cases, "violations": list(first.values()),
            "samples": [{"normal": [1.0, 0.0, 1e-200]}, {"direction": "zYx"}], "kind": "bounded-native"}
