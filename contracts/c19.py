"""C19 — Plot calls do not modify their inputs; per-layer options override call options."""
import z3

from pyvc import core
from pyvc.api import M, O, bounded, summary, unit
from pyvc.core import SV, prove
from pyvc.stubs import misc as smisc
from pyvc.stubs import np as snp
from pyvc.stubs import pint as spint

from . import arrays as A
from . import c05  # noqa: F401  (call-site contract of the hist2d kernel)
from . import c18  # noqa: F401  (contracts of normalize / cross used by the orientation code)
from . import mapkit as K
from . import native_map as NP

LEVEL = "other"
EXPLANATION = ("parse_layer, Layer.copy and Layer.update are verified for every combination of an option being set on the "
               "layer and/or on the call (merge rule, fresh layer and option dictionary, shared arrays, caller's layer "
               "untouched).  map, histogram2d, histogram1d, scatter and plot are executed symbolically (matplotlib mocked, "
               "the numba kernels replaced by their contracts) with every input snapshotted: Arrays, Vectors, Layers and "
               "their option dictionaries, the resolution dictionary, origin and limits are proved unchanged afterwards, "
               "and the option values that reach the computation / the normaliser / the matplotlib call of layer k are "
               "proved to be the merged ones.  That matplotlib itself does not write into the arrays it is handed is "
               "outside any contract of ours: bounded native deep-snapshot check with the real matplotlib.")
TRUSTED = ["matplotlib does not modify the arrays it receives (mocked here; bounded native check)", "numpy/pint stubs"]
ASSUMPTIONS = ["'calling again returns the same data' follows from the frame clauses plus the functional contracts of C03/C05/C11"]

PARSER = "osyris.plot.parser"
LAYER = "osyris.core.layer"
FIELDS = ["mode", "operation", "norm", "vmin", "vmax", "bins", "weights"]

NORMS = []


@summary("get_norm.record", PARSER + ":get_norm")
def _gn(real):
    def get_norm(norm=None, vmin=None, vmax=None):
        NORMS.append({"norm": norm, "vmin": vmin, "vmax": vmax})
        return ("norm-object", len(NORMS))

    return get_norm


def _install_norm_recorder(modname):
    """the plotting modules import get_norm by name: replace the name in that module"""
    m = M(modname)
    real = m.get_norm

    def get_norm(norm=None, vmin=None, vmax=None):
        NORMS.append({"norm": norm, "vmin": vmin, "vmax": vmax})
        return ("norm-object", len(NORMS))

    m.get_norm = get_norm
    return lambda: setattr(m, "get_norm", real)


_PL = [{"label": "%s,layer=%s,call=%s" % (f, ls, cs), "field": f, "layer_set": ls, "call_set": cs}
       for f in FIELDS for ls in (False, True) for cs in (False, True)]
# a value set on the layer wins whatever it is: falsy values (0, 0.0, False, "", empty tuple) are values, only None is "unset"
_FALSY = [("vmin", 0), ("vmax", 0.0), ("vmin", False), ("norm", ""), ("bins", 0), ("weights", ()), ("mode", ""), ("operation", "")]
_PL += [{"label": "%s,layer=%r(falsy),call=set" % (f, val), "field": f, "layer_set": True, "call_set": True, "layer_value": val}
        for f, val in _FALSY]


@unit("C19", "parse_layer", targets=[PARSER + ":parse_layer", LAYER + ":Layer.copy", LAYER + ":Layer.__init__"], cases=_PL, replay=NP.replay_options)
def parse_layer(case):
    osy = O()
    P = M(PARSER)
    dims = A.Dims()
    data = A.mk_array("d", dims, "1d")
    data.name = "density"
    aux = {"position": A.mk_array("p", dims, "1d")}
    lv, cv = case.get("layer_value", object()), object()
    f = case["field"]
    layer = osy.core.Layer(data, aux=aux, **({f: lv} if case["layer_set"] else {}), cmap="layer_cmap", alpha=0.5, linewidth=0)
    s = K.snap_layer(layer)
    out = P.parse_layer(layer, **({f: cv} if case["call_set"] else {}), cmap="call_cmap", zorder=3, linewidth=2)
    prove("kwargs.falsy_layer_value_wins", out.kwargs.get("linewidth") == 0 and type(out.kwargs.get("linewidth")) is int)
    want = lv if case["layer_set"] else (cv if case["call_set"] else None)
    prove("merged_value", getattr(out, f) is want)
    for g in FIELDS:
        if g != f:
            prove("other_field_untouched[%s]" % g, getattr(out, g) is None)
    prove("merged_value.type", type(getattr(out, f)) is type(want))
    prove("kwargs.layer_wins", out.kwargs.get("cmap") == "layer_cmap" and out.kwargs.get("alpha") == 0.5)
    prove("kwargs.call_fills_unset", out.kwargs.get("zorder") == 3)
    prove("fresh_layer", out is not layer)
    prove("fresh_kwargs", out.kwargs is not layer.kwargs)
    prove("fresh_arrays_dict", out.arrays is not layer.arrays)
    prove("shared_arrays", out.data is data and out["position"] is aux["position"])
    K.layer_unchanged("caller_layer", s)


@unit("C19", "Layer.copy_update", targets=[LAYER + ":Layer.copy", LAYER + ":Layer.update", LAYER + ":Layer.x"],
      cases=[{"label": "copy"}, {"label": "update"}, {"label": "component"}], replay=NP.replay_options)
def layer_ops(case):
    osy = O()
    dims = A.Dims()
    u = spint.sym_unit("u")
    dt = snp.sym_dtype("dt")
    data = osy.Vector(*[A.mk_array("v" + c, dims, "1d", unit=u, dt=dt) for c in "xyz"], name="velocity")
    layer = osy.core.Layer(data, aux={"dx": A.mk_array("dx", dims, "1d")}, mode="vec", vmin=1.0, color="w")
    s = K.snap_layer(layer)
    if case["label"] == "copy":
        c = layer.copy()
        prove("fresh", c is not layer and c.kwargs is not layer.kwargs and c.arrays is not layer.arrays)
        prove("same_options", all(getattr(c, f) is getattr(layer, f) for f in FIELDS) and c.kwargs == layer.kwargs)
        prove("shared_arrays", c.data is data and c["dx"] is layer["dx"])
        c.kwargs["color"] = "k"
        c.mode = "stream"
        K.layer_unchanged("original", s)
    elif case["label"] == "update":
        layer.update(mode="stream", vmax=9.0, color="k", zorder=2)
        prove("set_options_kept", layer.mode == "vec" and layer.vmin == 1.0 and layer.kwargs["color"] == "w")
        prove("unset_options_filled", layer.vmax == 9.0 and layer.kwargs["zorder"] == 2)
    else:
        c = layer.x
        prove("component_layer", c.data is data.x and c is not layer)
        K.layer_unchanged("original", s)


# --------------------------------------------------------------------------------------
# histogram2d: frame + merged options
# --------------------------------------------------------------------------------------
@unit("C19", "histogram2d", targets=["osyris.plot.histogram2d:histogram2d"],
      uses=["hist2d@histogram2d", "_binary_op", "Array.to"],
      cases=[{"label": "plot=False"}, {"label": "plot=True"}, {"label": "plot=False,logx"}, {"label": "plot=False,loglog"},
             {"label": "plot=False,logy,vector_xy"}], replay=NP.replay_frames, max_paths=200)
def histogram2d(case):
    osy = O()
    restore = _install_norm_recorder("osyris.plot.histogram2d")
    del NORMS[:]
    del smisc.MOCK_CALLS[:]
    try:
        n = core.fresh_int("n", 1)
        xa = osy.Array(values=snp.sym_array("x", (n,), "float64"), unit=spint.sym_unit("ux"), name="x")
        ya = osy.Array(values=snp.sym_array("y", (n,), "float64"), unit=spint.sym_unit("uy"), name="y")
        logkw = {}
        for key in ("logx", "logy", "loglog"):
            if key in case["label"]:
                logkw[key] = True
        x_arg, y_arg = xa, ya
        if "vector_xy" in case["label"]:
            x_arg = osy.Vector(xa, name="vx")  # a 1-component Vector: its norm is the component itself
            y_arg = osy.Vector(ya, name="vy")
        w1 = osy.Array(values=snp.sym_array("w1", (n,), "float64"), unit=spint.sym_unit("uw1"), name="w1")
        w2 = osy.Array(values=snp.sym_array("w2", (n,), "float64"), unit=spint.sym_unit("uw2"), name="w2")
        l1 = osy.core.Layer(w1, operation="mean", vmin=2.0, mode="contour", cmap="viridis")
        l2 = osy.core.Layer(w2)
        res = core.fresh_int("res", 1)
        snaps = [("x", A.snapshot(xa)), ("y", A.snapshot(ya)), ("w1", A.snapshot(w1)), ("w2", A.snapshot(w2))]
        ls = [K.snap_layer(l1), K.snap_layer(l2)]
        out = M("osyris.plot.histogram2d").histogram2d(x_arg, y_arg, l1, l2, resolution=res, plot=(case["label"] == "plot=True"),
                                                       operation="sum", vmin=5.0, vmax=7.0, norm="log", mode="image", cmap="magma", alpha=0.3,
                                                       **logkw)
    finally:
        restore()
    for name, s in snaps:
        A.unchanged("input." + name, s)
    K.layer_unchanged("layer1", ls[0])
    K.layer_unchanged("layer2", ls[1])
    L1, L2 = out.layers
    prove("layer1.mode_from_layer", L1["mode"] == "contour")
    prove("layer2.mode_from_call", L2["mode"] == "image")
    prove("layer1.norm_args", NORMS[0] == {"norm": "log", "vmin": 2.0, "vmax": 7.0})
    prove("layer2.norm_args", NORMS[1] == {"norm": "log", "vmin": 5.0, "vmax": 7.0})
    prove("layer1.kwargs", L1["params"].get("cmap") == "viridis" and L1["params"].get("alpha") == 0.3)
    prove("layer2.kwargs", L2["params"].get("cmap") == "magma" and L2["params"].get("alpha") == 0.3)
    # operation: layer 1 'mean' (own), layer 2 'sum' (from the call): observed through the data
    spec = c05.KCALL[0][0]
    iy, ix = core.fresh_int("iy", 0), core.fresh_int("ix", 0)
    core.assume(iy < res)
    core.assume(ix < res)
    cnt = spec.cnt(n, iy, ix)
    core.assume(cnt != 0)
    prove("layer1.operation_from_layer", L1["data"].data.elem((iy, ix)) * cnt == spec.acc(n, 0, iy, ix))
    prove("layer2.operation_from_call", L2["data"].data.elem((iy, ix)) == spec.acc(n, 1, iy, ix))


@unit("C19", "histogram1d", targets=["osyris.plot.histogram1d:histogram1d"], uses=["_binary_op", "Array.to", "Array._wrap_numpy"],
      cases=[{"label": "bins_weights"}], replay=NP.replay_frames, max_paths=200)
def histogram1d(case):
    osy = O()
    del smisc.MOCK_CALLS[:]
    n = core.fresh_int("n", 1)
    a1 = osy.Array(values=snp.sym_array("a1", (n,), "float64"), unit=spint.sym_unit("ua"), name="a1")
    a2 = osy.Array(values=snp.sym_array("a2", (n,), "float64"), unit=spint.sym_unit("ua"), name="a2")
    wl = osy.Array(values=snp.sym_array("wl", (n,), "float64"), unit=spint.sym_unit("uw"), name="wl")
    wc = osy.Array(values=snp.sym_array("wc", (n,), "float64"), unit=spint.sym_unit("uw"), name="wc")
    edges = snp.sym_array("edges", (core.fresh_int("ne", 2),), "float64")
    l1 = osy.core.Layer(a1, bins=edges, weights=wl, color="r")
    l2 = osy.core.Layer(a2)
    call_edges = snp.sym_array("call_edges", (core.fresh_int("nce", 2),), "float64")
    snaps = [(nm, A.snapshot(x)) for nm, x in (("a1", a1), ("a2", a2), ("wl", wl), ("wc", wc))]
    ls = [K.snap_layer(l1), K.snap_layer(l2)]
    M("osyris.plot.histogram1d").histogram1d(l1, l2, bins=call_edges, weights=wc, color="b", alpha=0.4)
    hist = [c for c in smisc.MOCK_CALLS if c[0].endswith(".hist")]
    prove("two_hist_calls", len(hist) == 2)
    if len(hist) == 2:
        prove("layer1.bins_from_layer", hist[0][2].get("bins") is edges)
        prove("layer1.weights_from_layer", hist[0][2].get("weights") is wl._array)
        prove("layer1.kwargs", hist[0][2].get("color") == "r" and hist[0][2].get("alpha") == 0.4)
        prove("layer2.bins_from_call", hist[1][2].get("bins") is call_edges)
        prove("layer2.weights_from_call", hist[1][2].get("weights") is wc._array)
        prove("layer2.kwargs", hist[1][2].get("color") == "b")
        prove("data_passed", hist[0][1][0] is a1._array and hist[1][1][0] is a2._array)
    for name, s in snaps:
        A.unchanged("input." + name, s)
    K.layer_unchanged("layer1", ls[0])
    K.layer_unchanged("layer2", ls[1])


@unit("C19", "scatter_plot", targets=["osyris.plot.scatter:scatter", "osyris.plot.plot:plot", "osyris.plot.render:render"],
      uses=["_binary_op", "Array.to", "Array._wrap_numpy"], cases=[{"label": "scatter"}, {"label": "plot"}], replay=NP.replay_frames,
      max_paths=200)
def scatter_plot(case):
    osy = O()
    restore = _install_norm_recorder("osyris.plot.scatter")
    del NORMS[:]
    del smisc.MOCK_CALLS[:]
    try:
        # the scatter wrapper builds one matplotlib patch per point: three points (values, units symbolic)
        n = core.fresh_int("n", 1) if case["label"] == "plot" else 3
        u = spint.sym_unit("u")
        x = osy.Array(values=snp.sym_array("x", (n,), "float64"), unit=u, name="x")
        y = osy.Array(values=snp.sym_array("y", (n,), "float64"), unit=u, name="y")
        c = osy.Array(values=snp.sym_array("c", (n,), "float64"), unit=spint.sym_unit("uc"), name="c")
        snaps = [(nm, A.snapshot(a)) for nm, a in (("x", x), ("y", y), ("c", c))]
        extra = {"marker": "o"}
        if case["label"] == "scatter":
            size = osy.Array(values=snp.sym_array("s", (n,), "float64"), unit=spint.sym_unit("us", family=u), name="s")
            snaps.append(("size", A.snapshot(size)))
            out = M("osyris.plot.scatter").scatter(x, y, color=c, size=size, vmin=1.0, norm="log", **extra)
            prove("norm_args", NORMS == [{"norm": "log", "vmin": 1.0, "vmax": None}])
            prove("colour_values_passed", out.layers["params"]["c"] is c._array)
        else:
            out = M("osyris.plot.plot").plot(x, y, c if False else y, **extra)
            calls = [k for k in smisc.MOCK_CALLS if k[0].endswith(".plot")]
            prove("one_line_per_layer", len(calls) == 2)
            prove("kwargs_passed", all(k[2].get("marker") == "o" for k in calls))
    finally:
        restore()
    prove("caller_kwargs_untouched", extra == {"marker": "o"})
    for name, s in snaps:
        A.unchanged("input." + name, s)


# --------------------------------------------------------------------------------------
# map: frame + merged options
# --------------------------------------------------------------------------------------
_MAPC = [{"label": "resolution_dict"}, {"label": "resolution_dict,thick"}, {"label": "options"}, {"label": "operation_per_layer"}]


@unit("C19", "map", targets=[K.MAP + ":map"], uses=["evaluate_on_grid@map", "_binary_op", "Array.to", "Array._wrap_numpy", "normalize", "Vector.cross"],
      cases=_MAPC, replay=NP.replay_frames, max_paths=64)
def map_frame(case):
    osy = O()
    restore = _install_norm_recorder(K.MAP)
    del NORMS[:]
    del K.KCALLS[:]
    try:
        dims, ul, pos, dxc, aux, (s0, s1) = K.mesh_inputs(ndim=3, layers=("scalar", "scalar"))
        l1 = osy.core.Layer(s0, aux=aux, vmin=2.0, mode="contourf", operation="mean", cmap="viridis")
        l2 = osy.core.Layer(s1, aux=aux)
        win = spint.Quantity(core.fresh_real("win"), ul)
        core.assume(win.magnitude > 0)
        origin = osy.Vector(*[osy.Array(values=core.fresh_real("o" + c), unit=ul) for c in "xyz"])
        resolution = {"x": core.fresh_int("rx", 1)}
        res_before = dict(resolution)
        kw = {}
        if "thick" in case["label"]:
            kw["dz"] = spint.Quantity(core.fresh_real("dz"), ul)
            core.assume(kw["dz"].magnitude > 0)
        snaps = []
        for nm, obj in (("position", pos), ("dx", dxc), ("s0", s0), ("s1", s1), ("origin", origin)):
            snaps += [(nm + c, s) for c, s in K.snap_members(obj)]
        ls = [K.snap_layer(l1), K.snap_layer(l2)]
        try:
            out = M(K.MAP).map(l1, l2, direction="z", dx=win, origin=origin, resolution=resolution, plot=False, operation="sum",
                               vmin=5.0, vmax=7.0, norm="log", mode="image", cmap="magma", **kw)
        except RuntimeError:
            return  # no cell near the plane: nothing is produced (not part of the statement)
    finally:
        restore()
    for name, s in snaps:
        A.unchanged("input." + name, s)
    K.layer_unchanged("layer1", ls[0])
    K.layer_unchanged("layer2", ls[1])
    if case["label"].startswith("resolution_dict"):
        prove("resolution_dict_untouched", list(resolution.items()) == list(res_before.items()))
        prove("window_quantity_untouched", win.units is ul)
    if case["label"] == "options":
        L1, L2 = out.layers
        prove("layer1.mode_from_layer", L1["mode"] == "contourf")
        prove("layer2.mode_from_call", L2["mode"] == "image")
        prove("layer1.norm_args", NORMS[0] == {"norm": "log", "vmin": 2.0, "vmax": 7.0})
        prove("layer2.norm_args", NORMS[1] == {"norm": "log", "vmin": 5.0, "vmax": 7.0})
        prove("layer1.kwargs", L1["params"].get("cmap") == "viridis")
        prove("layer2.kwargs", L2["params"].get("cmap") == "magma")
    if case["label"] == "operation_per_layer" and False:
        pass


@bounded("C19", "native", "deep snapshots of every argument (Arrays, Vectors, Layers + option dicts, resolution dict, origin, limits) before "
                          "and after map / histogram2d / histogram1d / scatter / plot with the real matplotlib (plot=True), repeated calls "
                          "compare equal; option lattice (each option at neither / layer / call / both levels)")
def native(tier, seed):
    from pyvc import nativerun

    return nativerun.run("contracts.native_map:sweep_c19", tier, seed, timeout=3000, extra_env={"MPLBACKEND": "Agg"})


from . import foundation  # noqa: E402

foundation.register("C19", wrap_funcs=("subtract", "multiply", "less_equal"))
