"""Bounded native stand-in for C17."""
from . import native_arrays as N


def sweep(tier, seed):
    viol, cases, distinct = [], 0, set()
    for op in N.IOPS:
        for dtype in ("float64", "float32", "int32", "int64"):
            if "int" in dtype and op == "__itruediv__":
                continue
            for kind in ("Array", "number_float", "ndarray", "Quantity"):
                for alias in (("disjoint", "same", "view") if kind == "Array" else ("disjoint",)):
                    for ux, uy in (("m", "cm"), ("m", "m"), ("m", "s")):
                        if kind in ("number_float", "ndarray") and op in ("__iadd__", "__isub__"):
                            ux, uy = "dimensionless", "dimensionless"
                        cases += 1
                        distinct.add((op, dtype, kind, alias, ux, uy))
                        ok, detail = N.inplace_oracle(op, dtype, kind, alias, ux, uy)
                        if not ok:
                            viol.append({"name": "C17.native.inplace[%s,%s,%s]" % (op, kind, alias),
                                         "input": [op, dtype, kind, alias, ux, uy], "observed": detail})
    for op in N.IOPS:
        for n in (1, 2, 3):
            for kind in ("Vector", "Array", "number_float", "OwnComponent"):
                cases += 1
                distinct.add((op, n, kind))
                if kind == "number_float" and op in ("__iadd__", "__isub__"):
                    continue
                r = N.replay_inplace_vector("%s,nvec=%d,%s" % (op, n, kind), {}, {})
                if r["reproduced"]:
                    viol.append({"name": "C17.native.vector[%s,%s]" % (op, kind), "input": [op, n, kind], "observed": r.get("observed")})
    for t in ("Array", "Vector"):
        for how in ("copy", "__copy__", "__deepcopy__"):
            cases += 1
            distinct.add((t, how))
            r = N.replay_copy("%s,%s" % (t, how), {}, {})
            if r["reproduced"]:
                viol.append({"name": "C17.native.copy[%s,%s]" % (t, how), "input": [t, how], "observed": r["observed"]})
    for c in ("slice", "step"):
        cases += 1
        distinct.add(("view", c))
        r = N.replay_view(c, {}, {})
        if r["reproduced"]:
            viol.append({"name": "C17.native.view[%s]" % c, "input": c, "observed": r["observed"]})
    for c in ("Datagroup.copy", "Datagroup.deepcopy", "Dataset.copy", "Dataset.deepcopy"):
        cases += 1
        distinct.add(("container", c))
        r = N.replay_container_copy(c, {}, {})
        if r["reproduced"]:
            viol.append({"name": "C17.native.container[%s]" % c, "input": c, "observed": r["observed"]})
    first = {}
    for v in viol:
        first.setdefault(v["name"], v)
    return {"status": "violation" if viol else "ok", "cases": cases, "distinct": len(distinct),
            "violations": list(first.values()), "samples": [list(map(str, s)) for s in list(distinct)[:3]],
            "kind": "bounded-native"}
