"""Shared pieces for the map contracts (C03, C11, C19): the call-site contract of the numba kernel
evaluate_on_grid, input builders and frame snapshots."""
import z3

from pyvc import core
from pyvc.api import M, O, summary
from pyvc.core import SV, prove
from pyvc.stubs import misc as smisc
from pyvc.stubs import np as snp
from pyvc.stubs import pint as spint

from . import arrays as A

MAP = "osyris.plot.map"
PU = "osyris.plot.utils"

KCALLS = []
LAST = z3.Function("last_hit", z3.IntSort(), z3.IntSort(), z3.IntSort(), z3.IntSort(), z3.IntSort())  # (ncells seen, k, j, i)


class KernelCall:
    """one call of evaluate_on_grid: its arguments and the ghost 'last containing cell' function"""

    def __init__(self, kw):
        self.kw = kw
        self.gp = kw["grid_positions_in_original_basis"]
        self.nz, self.ny, self.nx = self.gp.shape[:3]
        self.values = kw["cell_values"]
        self.sizes = kw["cell_sizes"]
        self.orig = [kw["cell_positions_in_original_basis_" + c] for c in "xyz"]
        self.new = [kw["cell_positions_in_new_basis_" + c] for c in "xyz"]
        self.ncells = self.new[0].shape[0]

    def contains(self, n, k, j, i):
        """the kernel's containment test, in its own arguments: |gp[k,j,i,d] - c_d[n]| <= size[n] for every axis"""
        t = []
        for d in range(3):
            if self.orig[d] is None:
                continue
            diff = self.gp.elem((k, j, i, d)) - self.orig[d].elem((n,))
            s = self.sizes.elem((n,))
            t.append(core.bterm((diff <= s) & (-diff <= s)))
        return SV(z3.And(*t), "b")

    def last(self, k, j, i, upto=None):
        """ghost: the last cell n < upto whose test succeeds at pixel (k,j,i), or -1"""
        full = upto is None
        upto = self.ncells if upto is None else upto
        t = LAST(core.term(SV.lift(upto)), core.term(SV.lift(k)), core.term(SV.lift(j)), core.term(SV.lift(i)))
        h = SV(t, "i")
        if full:
            p = core.cur()
            key = ("lastax", core.tid(t))
            if key not in p.counter:
                p.counter[key] = 1
                p.add(z3.And(t >= -1, t < core.term(SV.lift(self.ncells))))
                # what "last containing cell" means, instantiated at this pixel
                p.add(z3.Implies(t >= 0, core.bterm(self.contains(h, k, j, i))))
        return h


@summary("evaluate_on_grid@map", MAP + ":evaluate_on_grid")
def _kernel_summary(real):
    """call-site contract of the kernel (discharged against its body in C03.evaluate_on_grid): a pixel holds
    NaN when no cell passes the containment test there, otherwise the values of the last such cell"""
    def evaluate_on_grid(**kw):
        kc = KernelCall(kw)
        KCALLS.append(kc)
        nl = kc.values.shape[0]
        vals = kc.values.snapshot()

        def el(idx):
            l, k, j, i = idx
            h = kc.last(k, j, i)
            return snp.MaybeNaN(h < 0, SV.lift(vals((l, h))))

        kc.out = snp.ndarray.from_elem(el, (nl, kc.nz, kc.ny, kc.nx), "float64")
        return kc.out

    return evaluate_on_grid


def last_elim(kc, n, k, j, i):
    """instantiate the other half of the ghost's meaning for cell n: if n passes the test at the pixel then
    some cell >= n is the last hit (in particular the pixel is not NaN)"""
    h = kc.last(k, j, i)
    ax = z3.Implies(z3.And(core.term(SV.lift(n)) >= 0, core.bterm(SV.lift(n) < kc.ncells), core.bterm(kc.contains(n, k, j, i))),
                    h.t >= core.term(SV.lift(n)))
    core.cur().add(ax)
    return ax


# --------------------------------------------------------------------------------------
def mesh_inputs(ndim=3, layers=("scalar",), unit_len=None):
    """a mesh of arbitrary cells: positions, sizes and layer data with symbolic values and units"""
    osy = O()
    dims = A.Dims()
    core.assume(dims.n >= 1)
    ul = unit_len if unit_len is not None else spint.sym_unit("ulen")
    core.assume(~ul.dimensionless)
    dt = snp.dtype("float64")
    pos = osy.Vector(*[A.mk_array("p" + c, dims, "1d", unit=ul, dt=dt) for c in "xyz"[:ndim]])
    dxc = A.mk_array("dx", dims, "1d", unit=ul, dt=dt)
    aux = {"position": pos, "dx": dxc}
    out = []
    for k, kind in enumerate(layers):
        if kind == "scalar":
            a = A.mk_array("s%d" % k, dims, "1d", dt=dt)
            a.name = "scalar%d" % k
            out.append(a)
        else:
            uv = spint.sym_unit("uvec%d" % k)
            v = osy.Vector(*[A.mk_array("w%d%s" % (k, c), dims, "1d", unit=uv, dt=dt) for c in "xyz"[:ndim]], name="vector%d" % k)
            out.append(v)
    return dims, ul, pos, dxc, aux, out


def snap_layer(layer):
    return {"obj": layer, "attrs": {k: getattr(layer, k) for k in ("mode", "operation", "norm", "vmin", "vmax", "bins", "weights", "key")},
            "kwargs": layer.kwargs, "kwargs_items": dict(layer.kwargs), "arrays": layer.arrays, "arrays_items": dict(layer.arrays)}


def layer_unchanged(tag, s):
    L = s["obj"]
    for k, v in s["attrs"].items():
        prove("%s.attr[%s]" % (tag, k), getattr(L, k) is v or getattr(L, k) == v)
    prove(tag + ".kwargs_object", L.kwargs is s["kwargs"])
    prove(tag + ".kwargs_items", list(L.kwargs.items()) == list(s["kwargs_items"].items()) and all(L.kwargs[k] is v for k, v in s["kwargs_items"].items()))
    prove(tag + ".arrays_object", L.arrays is s["arrays"])
    prove(tag + ".arrays_items", list(L.arrays.keys()) == list(s["arrays_items"].keys()) and all(L.arrays[k] is v for k, v in s["arrays_items"].items()))


def snap_members(arr):
    """snapshot an Array or Vector (leaf Arrays)"""
    Vector = O().Vector
    if isinstance(arr, Vector):
        return [("." + c, A.snapshot(x)) for c, x in arr._xyz.items()]
    return [("", A.snapshot(arr))]
