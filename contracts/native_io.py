"""Native oracles for the loader (C01 C04 C12 C13 C14 C15): synthesized RAMSES outputs."""
import os
import random
import shutil
import sys
import tempfile

ROOT = os.path.dirname(os.path.dirname(os.path.abspath(__file__)))


def _writer():
    sys.path.insert(0, os.path.join(ROOT, "replay"))
    import ramses_writer as rw

    return rw


def replay_read_binary(case, model, rec):
    import struct

    from osyris.io.utils import read_binary_data, skip_binary_line

    content = b"".join(struct.pack("i", 12) + struct.pack("3i", 7, 8, 9) + struct.pack("i", 12)
                       for _ in range(1)) + struct.pack("i", 16) + struct.pack("2d", 1.5, 2.5) + struct.pack("i", 16)
    off = {k: 0 for k in "bidnsql"}
    a = read_binary_data(content=content, fmt="3i", offsets=off)
    b = read_binary_data(content=content, fmt="2d", offsets=off)
    ok = a == (7, 8, 9) and b == (1.5, 2.5) and off["i"] == 3 and off["d"] == 2 and off["n"] == 2
    off2 = {k: 0 for k in "bidnsql"}
    n = skip_binary_line(content, off2)
    ok = ok and n == 12 and off2["n"] == 1
    return {"reproduced": not ok, "observed": [a, b, off, n]}


def replay_units(case, model, rec):
    return {"reproduced": False, "note": "decided by the obligation; end-to-end unit factors are exercised by the native sweep"}


def full_load_case(seed, quick=True):
    """write one random output and compare a full load with the written tree; returns None or a description"""
    import numpy as np

    rw = _writer()
    rng = random.Random(seed)
    ndim = rng.choice([1, 2, 3])
    ncpu = rng.choice([1, 2, 3, 4])
    levelmin = 2 if ndim == 3 else rng.choice([2, 3])
    levelmax = levelmin + rng.choice([0, 1, 2])
    nboundary = rng.choice([0, 0, 1, 2])
    noutput = rng.choice([1, 2, 5])
    nvar = rng.randint(2, 5)
    hydro_vars = ["density"] + ["velocity_%s" % c for c in "xyz"[:ndim]] + ["pressure"] + ["scalar_%02d" % k for k in range(nvar)]
    hydro_vars = hydro_vars[: max(2, min(len(hydro_vars), 2 + nvar))]
    unit_l, unit_d, unit_t = rng.choice([(1.0, 1.0, 1.0), (3.0e18, 1e-24, 3.0e13), (2.5, 0.5, 4.0)])
    boxlen = rng.choice([1.0, 4.0])
    tmp = tempfile.mkdtemp(prefix="c01_")
    try:
        grav = rng.random() < 0.3
        allvars = list(hydro_vars) + (list(rw.grav_var_names(ndim)) if grav else [])
        octs = rw.build_tree(ndim, levelmin, levelmax, rng=rng, ncpu=ncpu, variables=allvars)
        ghosts = rw.random_ghosts(octs, ncpu, rng) if ncpu > 1 else None
        bgr = rw.random_boundary_grids(octs, ncpu, nboundary, rng) if nboundary else None
        info = rw.write_output(tmp, 1, octs, ndim=ndim, ncpu=ncpu, levelmin=levelmin, levelmax=levelmax, boxlen=boxlen,
                               unit_l=unit_l, unit_d=unit_d, unit_t=unit_t, nboundary=nboundary, noutput=noutput,
                               hydro_vars=hydro_vars, grav=grav, ghosts=ghosts, boundary_grids=bgr)
        exp = rw.expected_mesh(octs, ndim=ndim, ncpu=ncpu, levelmax=levelmax, boxlen=boxlen, unit_l=unit_l, unit_d=unit_d,
                               unit_t=unit_t, hydro_vars=hydro_vars, grav=grav, rt_vars=None)
        import contextlib
        import io

        import osyris

        with contextlib.redirect_stdout(io.StringIO()):
            ds = osyris.RamsesDataset(1, path=tmp).load()
        mesh = ds["mesh"]
        desc = {"seed": seed, "ndim": ndim, "ncpu": ncpu, "levels": [levelmin, levelmax], "nboundary": nboundary,
                "noutput": noutput, "vars": hydro_vars, "grav": grav}
        n = len(exp["level"])
        if mesh.shape != (n,):
            return {"what": "rows %s, leaf cells %d" % (mesh.shape, n), "input": desc}
        for key, want in exp.items():
            if key.startswith("position_") and ndim > 1:
                got = getattr(mesh["position"], key[-1]).values
            elif key.startswith("velocity_") and ndim > 1:
                got = getattr(mesh["velocity"], key[-1]).values
            elif key.startswith("grav_acceleration_") and ndim > 1:
                got = getattr(mesh["grav_acceleration"], key[-1]).values
            else:
                got = mesh[key].values
            if not np.allclose(np.asarray(got, dtype=float), np.asarray(want, dtype=float), rtol=1e-12, atol=0):
                return {"what": "variable %s differs" % key, "input": desc}
        # units: density g/cm^3, positions cm
        if str(mesh["density"].unit) != str(osyris.units("g/cm**3")):
            return {"what": "density unit %s" % mesh["density"].unit, "input": desc}
        # derived mass = density * dx^3 in M_sun
        m = (mesh["density"] * mesh["dx"] ** 3).to("M_sun")
        if not np.allclose(mesh["mass"].values, m.values, rtol=1e-12):
            return {"what": "derived mass differs", "input": desc}
        if ds.meta["ncells"] != n:
            return {"what": "meta ncells %s vs %d" % (ds.meta["ncells"], n), "input": desc}
        return None
    finally:
        shutil.rmtree(tmp, ignore_errors=True)


def replay_loader(case, model, rec):
    for s in range(12):
        try:
            r = full_load_case(4242 + s)
        except Exception as e:
            r = {"what": "exception %r" % (e,), "input": {"seed": 4242 + s}}
        if r:
            return {"reproduced": True, "input": r["input"], "observed": r["what"]}
    return {"reproduced": False}


def sweep_c01(tier, seed):
    n = 25 if tier == "quick" else 400
    viol = []
    for k in range(n):
        try:
            r = full_load_case(seed * 1009 + k)
        except Exception as e:
            import traceback

            r = {"what": "exception %r %s" % (e, traceback.format_exc(limit=4)), "input": {"seed": seed * 1009 + k}}
        if r:
            viol.append({"name": "C01.native.full_load", "input": r["input"], "observed": r["what"]})
            break
    # nout = -1 picks the last output directory
    return {"status": "violation" if viol else "ok", "cases": n, "distinct": n, "violations": viol,
            "samples": [{"seed": seed * 1009}], "kind": "bounded-native"}


# --------------------------------------------------------------------------------------
# C13: subset loads equal projections of the full load
# --------------------------------------------------------------------------------------
def _flat(np, osy, group):
    """name -> numpy array for every leaf Array of a group (Vector components as name_c)"""
    out = {}
    for k in group.keys():
        v = group[k]
        if isinstance(v, osy.Vector):
            for c, a in v._xyz.items():
                out[k + "." + c] = (np.asarray(a.values), str(a.unit))
        else:
            out[k] = (np.asarray(v.values), str(v.unit))
    return out


def _same(np, a, b):
    return a[1] == b[1] and a[0].shape == b[0].shape and np.array_equal(a[0], b[0])


def subset_case(seed):
    import contextlib
    import io

    import numpy as np
    import osyris

    rw = _writer()
    rng = random.Random(seed)
    ndim = rng.choice([1, 2, 3])
    ncpu = rng.choice([1, 2, 3])
    levelmin, levelmax = 2, rng.choice([2, 3])
    hydro_vars = ["density"] + ["velocity_%s" % c for c in "xyz"[:ndim]] + ["pressure", "scalar_1", "scalar_10", "scalar_11"]
    tmp = tempfile.mkdtemp(prefix="c13_")
    try:
        octs = rw.build_tree(ndim, levelmin, levelmax, rng=rng, ncpu=ncpu, variables=hydro_vars)
        npart = {c: rng.randint(0, 6) for c in range(1, ncpu + 1)}
        particles = {c: {"mass": np.arange(n, dtype="float64") + 10 * c, "identity": (np.arange(n) + 100 * c).astype("int32"),
                         "family": (np.arange(n) % 5).astype("int8"),
                         "position_x": np.linspace(0.1, 0.9, n) if n else np.zeros(0),
                         "birth_time": np.arange(n, dtype="float64") * 0.5} for c, n in npart.items()}
        rw.write_output(tmp, 1, octs, ndim=ndim, ncpu=ncpu, levelmin=levelmin, levelmax=levelmax, hydro_vars=hydro_vars,
                        ghosts=rw.random_ghosts(octs, ncpu, rng) if ncpu > 1 else None, particles=particles)
        with contextlib.redirect_stdout(io.StringIO()):
            full = osyris.RamsesDataset(1, path=tmp).load()
        ref = {g: _flat(np, osyris, full[g]) for g in full.keys()}
        desc = {"seed": seed, "ndim": ndim, "ncpu": ncpu, "levelmax": levelmax}
        mesh_names = ["level", "cpu", "dx"] + ["position_%s" % c for c in "xyz"[:ndim]] + hydro_vars
        trials = []
        for k in range(4):
            sub = rng.sample(mesh_names, rng.randint(1, min(6, len(mesh_names))))
            trials.append({"mesh": sub})
        trials += [["mesh"], ["part"], {"part": False}, {"mesh": False}, {"part": ["mass"]}, {"mesh": ["density"], "part": ["identity"]},
                   {"part": ["position_x"]}, {"part": ["birth_time"]}, {"part": ["mass", "birth_time"]}, {"part": ["family", "birth_time"]},
                   {"mesh": ["scalar_1"]}, {"mesh": ["density", "scalar_1"]}]
        for sel in trials:
            with contextlib.redirect_stdout(io.StringIO()):
                ds = osyris.RamsesDataset(1, path=tmp).load(select=sel)
            got = {g: _flat(np, osyris, ds[g]) for g in ds.keys()}
            # requested variables identical to the full load
            for g, vars_ in got.items():
                for name, val in vars_.items():
                    # a component left un-merged keeps its scalar name; compare with the full load's component
                    cands = [name, name.replace("_x", ".x").replace("_y", ".y").replace("_z", ".z")]
                    base = name.split(".")[0]
                    if name in ref.get(g, {}):
                        refv = ref[g][name]
                    else:
                        alt = None
                        for c in "xyz":
                            if name.endswith("_" + c) and (name[:-2] + "." + c) in ref.get(g, {}):
                                alt = ref[g][name[:-2] + "." + c]
                        if alt is None and name == "mass" and g == "mesh":
                            continue  # derived variable needs density and dx
                        if alt is None:
                            return {"what": "variable %s/%s of a subset load does not exist in the full load (select=%r)" % (g, name, sel), "input": desc}
                        refv = alt
                    if not _same(np, val, refv):
                        return {"what": "variable %s/%s differs from the full load (select=%r)" % (g, name, sel), "input": desc}
            # everything requested is returned: a group asked for in full holds every variable of the full load, a
            # variable list holds each listed variable (possibly as a component of a merged vector)
            full_groups = [g for g in ref if ref[g] and ((isinstance(sel, list) and g in sel) or (isinstance(sel, dict) and g not in sel))]
            for g in full_groups:
                for name in ref[g]:
                    if name not in got.get(g, {}):
                        return {"what": "variable %s/%s of the full load is missing although group %s was requested in full (select=%r)"
                                        % (g, name, g, sel), "input": desc}
            if isinstance(sel, dict):
                for g, spec in sel.items():
                    if isinstance(spec, list) and ref.get(g):
                        for want in spec:
                            have = got.get(g, {})
                            comp = want[:-2] + "." + want[-1] if want[-2:] in ("_x", "_y", "_z") else None
                            if want in ref[g] or (comp and comp in ref[g]):
                                if want not in have and not (comp and comp in have):
                                    return {"what": "requested variable %s/%s is missing (select=%r)" % (g, want, sel), "input": desc}
            # nothing excluded is returned
            if isinstance(sel, dict):
                for g, spec in sel.items():
                    if spec is False and g in got and got[g]:
                        return {"what": "group %s switched off but returned (select=%r)" % (g, sel), "input": desc}
                    if isinstance(spec, list) and g in got:
                        for name in got[g]:
                            base = name.split(".")[0]
                            allowed = set(spec) | {s[:-2] for s in spec if s[-2:] in ("_x", "_y", "_z")} | {"mass", "position"}
                            if base not in allowed and name not in spec:
                                return {"what": "excluded variable %s/%s returned (select=%r)" % (g, name, sel), "input": desc}
            elif isinstance(sel, list):
                for g in got:
                    if g not in sel and got[g]:
                        return {"what": "group %s not requested but returned (select=%r)" % (g, sel), "input": desc}
        return None
    finally:
        shutil.rmtree(tmp, ignore_errors=True)


def merge_case(names, ndim):
    """make_vector_arrays on concrete names against the merge rule of the statement"""
    import numpy as np
    import osyris
    from osyris.io.utils import make_vector_arrays

    from contracts.c13_spec import merge_spec

    pool = {n: osyris.Array(values=np.arange(3.0) + k, unit="m") for k, n in enumerate(names)}
    data = dict(pool)
    vectors, kept = merge_spec(list(names), ndim)
    make_vector_arrays(data, ndim=ndim)
    for k in kept:
        if k not in data or data[k] is not pool[k]:
            return "name set %s, ndim %d: variable %r lost or replaced" % (list(names), ndim, k)
    for v, group in vectors.items():
        if v in kept:
            continue
        got = data.get(v)
        if not isinstance(got, osyris.Vector) or got.nvec != ndim:
            return "name set %s, ndim %d: %r is not a %d-vector" % (list(names), ndim, v, ndim)
    extra = [k for k in data if k not in kept and k not in vectors]
    if extra:
        return "name set %s, ndim %d: unexpected keys %s" % (list(names), ndim, extra)
    return None


def replay_subset(case, model, rec):
    for s in range(6):
        try:
            r = subset_case(900 + s)
        except Exception as e:
            r = {"what": "exception %r" % (e,), "input": {"seed": 900 + s}}
        if r:
            return {"reproduced": True, "input": r["input"], "observed": r["what"]}
    return {"reproduced": False}


def replay_merge(case, model, rec):
    import itertools

    from contracts.c13_spec import ALPHABET

    for ndim in (1, 2, 3):
        for size in range(0, 4):
            for names in itertools.combinations(ALPHABET, size):
                r = merge_case(names, ndim)
                if r:
                    return {"reproduced": True, "input": {"names": list(names), "ndim": ndim}, "observed": r}
    return {"reproduced": False}


def sweep_c13(tier, seed):
    import itertools

    from contracts.c13_spec import ALPHABET

    viol, cases = [], 0
    n = 6 if tier == "quick" else 80
    for k in range(n):
        cases += 1
        try:
            r = subset_case(seed * 4111 + k)
        except Exception as e:
            import traceback

            r = {"what": "exception %r %s" % (e, traceback.format_exc(limit=3)), "input": {"seed": seed * 4111 + k}}
        if r:
            viol.append({"name": "C13.native.subset", "input": r["input"], "observed": r["what"]})
            break
    maxsize = 3 if tier == "quick" else 5
    done = False
    for ndim in (1, 2, 3):
        for size in range(0, maxsize + 1):
            for names in itertools.combinations(ALPHABET, size):
                cases += 1
                r = merge_case(names, ndim)
                if r:
                    clash = "lost or replaced" in r
                    viol.append({"name": "C13.native.merge.clash" if clash else "C13.native.merge", "input": {"names": list(names), "ndim": ndim}, "observed": r})
                    done = True
                    break
            if done:
                break
        if done:
            break
    first = {}
    for v in viol:
        first.setdefault(v["name"], v)
    return {"status": "violation" if viol else "ok", "cases": cases, "distinct": cases, "violations": list(first.values()),
            "samples": [{"subset_seed": seed * 4111}], "kind": "bounded-native"}


# --------------------------------------------------------------------------------------
# C12: level-limited loads
# --------------------------------------------------------------------------------------
def level_case(seed):
    import contextlib
    import io

    import numpy as np
    import osyris

    rw = _writer()
    rng = random.Random(seed)
    ndim = rng.choice([1, 2, 3])
    ncpu = rng.choice([1, 2, 3])
    levelmin = 2
    levelmax = rng.choice([3, 4])
    hydro_vars = ["density", "pressure"]
    tmp = tempfile.mkdtemp(prefix="c12_")
    try:
        octs = rw.build_tree(ndim, levelmin, levelmax, rng=rng, ncpu=ncpu, variables=hydro_vars, refine_fraction=0.5)
        rw.write_output(tmp, 1, octs, ndim=ndim, ncpu=ncpu, levelmin=levelmin, levelmax=levelmax, hydro_vars=hydro_vars,
                        ghosts=rw.random_ghosts(octs, ncpu, rng) if ncpu > 1 else None)
        desc = {"seed": seed, "ndim": ndim, "ncpu": ncpu, "levels": [levelmin, levelmax]}
        for kind in ("le", "lt", "window", "le", "eq"):
            k = rng.randint(1, levelmax)  # caps below levelmin included: the coarse cells tile the domain
            if kind == "le":
                f, L, acc = (lambda l, k=k: l <= k), k, (lambda l, k=k: l <= k)
            elif kind == "lt":
                if k <= 1:
                    k = 2
                f, L, acc = (lambda l, k=k: l < k), k - 1, (lambda l, k=k: l < k)
            elif kind == "eq":
                f, L, acc = (lambda l, k=k: l == k), k, (lambda l, k=k: l == k)
            else:
                f, L, acc = (lambda l, k=k: (l > k - 2) & (l < k + 1)), k, (lambda l, k=k: k - 2 < l < k + 1)
            with contextlib.redirect_stdout(io.StringIO()):
                ds = osyris.RamsesDataset(1, path=tmp).load(select={"mesh": {"level": f}})
            if ds.meta["lmax"] != L:
                return {"what": "%s %d: meta lmax %s, highest accepted level %d" % (kind, k, ds.meta["lmax"], L), "input": desc}
            exp = rw.expected_mesh(octs, ndim=ndim, ncpu=ncpu, levelmax=levelmax, hydro_vars=hydro_vars, lmax=L)
            keep = np.array([acc(int(l)) for l in exp["level"]], dtype=bool)
            mesh = ds["mesh"]
            n = int(keep.sum())
            if (n == 0 and len(mesh.keys()) != 0 and mesh.shape != (0,)) or (n > 0 and mesh.shape != (n,)):
                return {"what": "%s %d: %s rows, truncated tree has %d" % (kind, k, mesh.shape, n), "input": desc}
            if n == 0:
                continue
            for key in ("level", "dx", "density", "pressure"):
                if not np.allclose(np.asarray(mesh[key].values, float), np.asarray(exp[key], float)[keep], rtol=1e-12):
                    return {"what": "%s %d: variable %s differs from the truncated tree" % (kind, k, key), "input": desc}
            if kind in ("le", "lt"):
                vol = float((np.asarray(mesh["dx"].values, float) ** ndim).sum())
                if abs(vol - 1.0) > 1e-9:
                    return {"what": "%s %d: covered volume %.6f of the unit domain (holes or overlaps)" % (kind, k, vol), "input": desc}
        return None
    finally:
        shutil.rmtree(tmp, ignore_errors=True)


def level_position_case(seed):
    """a level cap together with a positional box on a finely decomposed output (the CPU pre-selection works on the
    levelmax key lattice whatever the cap): rows == truncated tree filtered by the box"""
    import contextlib
    import io

    import numpy as np
    import osyris

    rw = _writer()
    rng = random.Random(seed)
    ndim, ncpu, levelmin, levelmax = 3, 8, 3, 4
    hydro_vars = ["density", "pressure"]
    tmp = tempfile.mkdtemp(prefix="c12p_")
    try:
        octs = rw.build_tree(ndim, levelmin, levelmax, rng=rng, ncpu=ncpu, variables=hydro_vars, refine_fraction=0.4)
        rw.write_output(tmp, 1, octs, ndim=ndim, ncpu=ncpu, levelmin=levelmin, levelmax=levelmax, hydro_vars=hydro_vars,
                        ghosts=rw.random_ghosts(octs, ncpu, rng))
        cap = 3
        lo = rng.choice([0.0, 0.5, 0.25])
        hi = lo + rng.choice([0.25, 0.5])
        box = {"position_" + c: (lambda x, lo=lo, hi=hi: (x >= osyris.Array(lo, unit="cm")) & (x <= osyris.Array(hi, unit="cm"))) for c in "xyz"}
        sel = dict(box, level=lambda l: l <= cap)
        with contextlib.redirect_stdout(io.StringIO()):
            ds = osyris.RamsesDataset(1, path=tmp).load(select={"mesh": sel})
        exp = rw.expected_mesh(octs, ndim=ndim, ncpu=ncpu, levelmax=levelmax, hydro_vars=hydro_vars, lmax=cap)
        P = np.stack([np.asarray(exp["position_" + c], float) for c in "xyz"], axis=1)
        desc = {"seed": seed, "cap": cap, "box": [lo, hi], "ncpu": ncpu}
        keep = np.all((P >= lo) & (P <= hi), axis=1)
        n = int(keep.sum())
        mesh = ds["mesh"] if "mesh" in ds.keys() else None
        got_n = 0 if (mesh is None or len(mesh.keys()) == 0) else mesh.shape[0]
        if got_n != n:
            return {"what": "level <= %d inside the box [%s, %s]^3: %d rows, the truncated tree has %d there" % (cap, lo, hi, got_n, n), "input": desc}
        if n and not np.allclose(np.sort(np.asarray(mesh["density"].values, float)), np.sort(np.asarray(exp["density"], float)[keep]), rtol=1e-12):
            return {"what": "level <= %d inside the box: densities differ from the truncated tree" % cap, "input": desc}
        return None
    finally:
        shutil.rmtree(tmp, ignore_errors=True)


def replay_level(case, model, rec):
    for s in range(8):
        try:
            r = level_case(1200 + s)
        except Exception as e:
            r = {"what": "exception %r" % (e,), "input": {"seed": 1200 + s}}
        if r:
            return {"reproduced": True, "input": r["input"], "observed": r["what"]}
    return {"reproduced": False}


def sweep_c12(tier, seed):
    n = 8 if tier == "quick" else 120
    viol = []
    for k in range(n):
        try:
            r = level_case(seed * 2003 + k)
        except Exception as e:
            import traceback

            r = {"what": "exception %r %s" % (e, traceback.format_exc(limit=3)), "input": {"seed": seed * 2003 + k}}
        if r:
            viol.append({"name": "C12.native.level_load", "input": r["input"], "observed": r["what"]})
            break
    for k in range(4 if tier == "quick" else 40):
        try:
            r = level_position_case(seed * 3001 + k)
        except Exception as e:
            import traceback

            r = {"what": "exception %r %s" % (e, traceback.format_exc(limit=3)), "input": {"seed": seed * 3001 + k}}
        if r:
            viol.append({"name": "C12.native.level_and_position", "input": r["input"], "observed": r["what"]})
            break
    return {"status": "violation" if viol else "ok", "cases": n * 3 + 4, "distinct": n * 3 + 4, "violations": viol,
            "samples": [{"seed": seed * 2003}], "kind": "bounded-native"}


# --------------------------------------------------------------------------------------
# C14: particles and sinks
# --------------------------------------------------------------------------------------
def particle_case(seed):
    import contextlib
    import io

    import numpy as np
    import osyris

    rw = _writer()
    rng = random.Random(seed)
    ndim = rng.choice([1, 2, 3])
    ncpu = rng.choice([1, 2, 3, 4])
    unit_l, unit_d, unit_t = rng.choice([(1.0, 1.0, 1.0), (3.0e18, 1e-24, 3.0e13)])
    tmp = tempfile.mkdtemp(prefix="c14_")
    try:
        octs = rw.build_tree(ndim, 2, 2, rng=rng, ncpu=ncpu, variables=["density", "pressure"])
        counts = {c: rng.choice([0, 0, 1, 5, 40]) for c in range(1, ncpu + 1)}
        nprng = np.random.default_rng(seed)
        particles = {}
        for c, n in counts.items():
            particles[c] = {"mass": nprng.uniform(1, 2, n), "identity": nprng.permutation(1000)[:n].astype("int32") + 1000 * c,
                            "family": nprng.integers(-3, 5, n).astype("int8"), "position_x": nprng.uniform(0, 1, n),
                            "birth": nprng.integers(-10**10, 10**10, n).astype("int64")}
            for d in "yz"[: ndim - 1]:
                particles[c]["position_" + d] = nprng.uniform(0, 1, n)
        rw.write_output(tmp, 1, octs, ndim=ndim, ncpu=ncpu, levelmin=2, levelmax=2, hydro_vars=["density", "pressure"],
                        unit_l=unit_l, unit_d=unit_d, unit_t=unit_t, particles=particles)
        exp = rw.expected_particles(particles, ncpu, unit_l=unit_l, unit_d=unit_d, unit_t=unit_t)
        desc = {"seed": seed, "ndim": ndim, "ncpu": ncpu, "counts": counts}
        sort = rng.random() < 0.5
        with contextlib.redirect_stdout(io.StringIO()):
            ds = osyris.RamsesDataset(1, path=tmp).load(sortby={"part": "identity"} if sort else None)
        total = sum(counts.values())
        if ds.meta["nparticles"] != total:
            return {"what": "meta nparticles %s vs %d" % (ds.meta["nparticles"], total), "input": desc}
        if total == 0:
            if "part" in ds.keys() and any(len(np.atleast_1d(v.values if not hasattr(v, "x") else v.x.values)) != 0
                                          for v in ds["part"].values()):
                return {"what": "zero particles but a group with rows", "input": desc}
            return None
        part = ds["part"]
        order = np.argsort(exp["identity"]) if sort else np.arange(total)
        for name, want in exp.items():
            if name.startswith("position_") and ndim > 1:
                got = getattr(part["position"], name[-1]).values
            else:
                got = part[name].values
            if np.asarray(got).shape != (total,) or not np.allclose(np.asarray(got, float), np.asarray(want, float)[order], rtol=1e-12):
                return {"what": "particle variable %s differs (sorted=%s)" % (name, sort), "input": desc}
        if str(part["mass"].unit) != str(osyris.units("g")):
            return {"what": "mass unit %s" % part["mass"].unit, "input": desc}
        return None
    finally:
        shutil.rmtree(tmp, ignore_errors=True)


def sink_case(seed):
    import contextlib
    import io

    import numpy as np
    import osyris

    rw = _writer()
    rng = random.Random(seed)
    ndim = rng.choice([1, 2, 3])
    nsink = rng.choice([0, 1, 1, 2, 5])
    legacy = rng.random() < 0.4
    # code units differ from case to case: the cases of one sweep run in one process (state kept between datasets shows)
    unit_l, unit_d, unit_t = rng.choice([(2.0, 3.0, 5.0), (7.0, 0.5, 11.0), (1.0, 1.0, 1.0), (3.0e18, 1e-24, 3.0e13)])
    tmp = tempfile.mkdtemp(prefix="c14s_")
    try:
        octs = rw.build_tree(ndim, 2, 2, rng=rng, ncpu=1, variables=["density", "pressure"])
        cols = ["id", "msink"] + list("xyz"[:ndim]) + ["vx", "age"]
        vals = {c: [float(rng.randint(1, 9)) + 0.5 * k for k in range(nsink)] for c in cols}
        if legacy:
            units = {"id": "[1]", "msink": "[Msol]", "vx": "[km/s]", "age": "[y]"}
            units.update({c: "[cm]" for c in "xyz"[:ndim]})
            units["msink"] = "[g]"
            units["age"] = "[s]"
        else:
            units = {"id": "1", "msink": "m", "vx": "l t**-1", "age": "t"}
            units.update({c: "l" for c in "xyz"[:ndim]})
        present = rng.random() < 0.85
        rw.write_output(tmp, 1, octs, ndim=ndim, ncpu=1, levelmin=2, levelmax=2, hydro_vars=["density", "pressure"], unit_l=unit_l,
                        unit_d=unit_d, unit_t=unit_t, sinks=vals if present else None, sink_units=units)
        with contextlib.redirect_stdout(io.StringIO()):
            ds = osyris.RamsesDataset(1, path=tmp).load()
        desc = {"seed": seed, "ndim": ndim, "nsink": nsink, "legacy": legacy, "present": present}
        if not present:
            return None if "sink" not in ds.keys() else {"what": "no sink file but a sink group", "input": desc}
        if nsink == 0:
            ok = "sink" in ds.keys() and len(ds["sink"].keys()) == 0
            return None if ok else {"what": "empty sink file should give an empty group", "input": desc}
        sink = ds["sink"]
        m, l, t = unit_d * unit_l ** 3, unit_l, unit_t
        fac = {"id": 1.0, "msink": (1.0 if legacy else m), "vx": (1e5 if legacy else l / t), "age": (1.0 if legacy else t)}
        fac.update({c: (1.0 if legacy else l) for c in "xyz"[:ndim]})
        cgs = {"id": "dimensionless", "msink": "g", "vx": "cm/s", "age": "s", "x": "cm", "y": "cm", "z": "cm"}
        for c in cols:
            if c in "xyz" and ndim > 1:
                arr = getattr(sink["position"], c)
            else:
                arr = sink[c]
            got = np.asarray(arr.to(cgs[c]).values, float)  # physical quantity in CGS
            if got.shape != (nsink,):
                return {"what": "sink column %s has shape %s for %d sink(s): one row per sink expected" % (c, got.shape, nsink), "input": desc}
            if got.shape != (nsink,) or not np.allclose(got, np.array(vals[c]) * fac[c], rtol=1e-10):
                return {"what": "sink column %s: %s expected %s" % (c, got[:3], (np.array(vals[c]) * fac[c])[:3]), "input": desc}
        return None
    finally:
        shutil.rmtree(tmp, ignore_errors=True)


def replay_particles(case, model, rec):
    for s in range(10):
        try:
            r = particle_case(300 + s)
        except Exception as e:
            r = {"what": "exception %r" % (e,), "input": {"seed": 300 + s}}
        if r:
            return {"reproduced": True, "input": r["input"], "observed": r["what"]}
    return {"reproduced": False}


def replay_sinks(case, model, rec):
    for s in range(24):
        try:
            r = sink_case(500 + s)
        except Exception as e:
            r = {"what": "exception %r" % (e,), "input": {"seed": 500 + s}}
        if r:
            return {"reproduced": True, "input": r["input"], "observed": r["what"]}
    return {"reproduced": False}


def sweep_c14(tier, seed):
    n = 12 if tier == "quick" else 200
    viol = []
    for name, fn in (("C14.native.particles", particle_case), ("C14.native.sinks", sink_case)):
        for k in range(n):
            try:
                r = fn(seed * 3001 + k)
            except Exception as e:
                import traceback

                r = {"what": "exception %r %s" % (e, traceback.format_exc(limit=3)), "input": {"seed": seed * 3001 + k}}
            if r:
                viol.append({"name": name, "input": r["input"], "observed": r["what"]})
                break
    return {"status": "violation" if viol else "ok", "cases": 2 * n, "distinct": 2 * n, "violations": viol,
            "samples": [{"seed": seed * 3001}], "kind": "bounded-native"}


# --------------------------------------------------------------------------------------
# C15: histories of load() calls
# --------------------------------------------------------------------------------------
def history_case(seed, length=3):
    import contextlib
    import io

    import numpy as np
    import osyris

    rw = _writer()
    rng = random.Random(seed)
    ndim = 3
    # enough cpus / a deep enough coarse level for a small positional box to narrow the CPU pre-selection
    ncpu = 8
    levelmin, levelmax = 3, 4
    hydro_vars = ["density", "pressure"]
    tmp = tempfile.mkdtemp(prefix="c15_")
    try:
        octs = rw.build_tree(ndim, levelmin, levelmax, rng=rng, ncpu=ncpu, variables=hydro_vars)
        nprng = np.random.default_rng(seed)
        particles = {c: {"mass": nprng.uniform(1, 2, 5 + c), "identity": (nprng.permutation(100)[: 5 + c] + 100 * c).astype("int32")}
                     for c in range(1, ncpu + 1)}
        sink_cols = ["id", "msink", "x", "y", "z", "age"]
        sinks = {c: [float(v) for v in nprng.permutation(6) + 1.5] for c in sink_cols}  # unsorted in every column
        rw.write_output(tmp, 1, octs, ndim=ndim, ncpu=ncpu, levelmin=levelmin, levelmax=levelmax, hydro_vars=hydro_vars,
                        ghosts=rw.random_ghosts(octs, ncpu, rng), particles=particles, sinks=sinks,
                        sink_units={"id": "1", "msink": "m", "x": "l", "y": "l", "z": "l", "age": "t"})
        shapes = {
            "full": {},
            "part_only": {"select": ["part"]},
            "mesh_off": {"select": {"mesh": False}},
            "mesh_only": {"select": ["mesh"]},
            "one_var": {"select": {"mesh": ["density"]}},
            "level_cap": {"select": {"mesh": {"level": lambda l: l <= 2}}},
            "cpu_list": {"cpu_list": [2, 3, 7]},
            # a box in all three axes (the CPU pre-selection only narrows then): one or two of the eight files are read
            "position": {"select": {"mesh": {"position_x": lambda x: x < osyris.Array(0.1, unit="cm"),
                                             "position_y": lambda x: x < osyris.Array(0.1, unit="cm"),
                                             "position_z": lambda x: x < osyris.Array(0.1, unit="cm")}}},
            "sorted": {"sortby": {"part": "identity"}},
            "nothing": {"select": {"mesh": {"density": lambda d: d < osyris.Array(-1.0, unit="g/cm**3")}}},
            "groups_list": {"select": ["mesh", "part"]},
            "sorted_sinks": {"sortby": {"sink": "msink"}},
            "sink_only": {"select": ["sink"]},
        }
        names = list(shapes)
        hist = [rng.choice(names) for _ in range(length)]
        if length == 2:
            # the ordered pairs are enumerated systematically: seed selects the pair
            hist = [names[(seed // len(names)) % len(names)], names[seed % len(names)]]
        quiet = contextlib.redirect_stdout(io.StringIO())
        with quiet:
            ds = osyris.RamsesDataset(1, path=tmp)
            last = {}
            for h in hist:
                before = set(ds.keys())
                ds.load(**shapes[h])
                fresh = osyris.RamsesDataset(1, path=tmp).load(**shapes[h])
                for g in fresh.keys():
                    last[g] = (h, _flat(np, osyris, fresh[g]))
                meta_fresh = (fresh.meta["ncells"], fresh.meta["nparticles"])
                produced = set(fresh.keys())
        desc = {"seed": seed, "history": hist}
        for g, (h, ref) in last.items():
            if g not in ds.keys():
                return {"what": "group %s produced by %s is missing" % (g, h), "input": desc}
            got = _flat(np, osyris, ds[g])
            if list(got.keys()) != list(ref.keys()):
                return {"what": "group %s: variables %s vs fresh %s (last producer %s)" % (g, list(got), list(ref), h), "input": desc}
            for k in ref:
                if not _same(np, got[k], ref[k]):
                    return {"what": "group %s/%s differs from a fresh dataset's result of %s" % (g, k, h), "input": desc}
        if "mesh" in produced and ds.meta["ncells"] != meta_fresh[0]:
            return {"what": "meta ncells %s vs fresh %s" % (ds.meta["ncells"], meta_fresh[0]), "input": desc}
        if "part" in produced and ds.meta["nparticles"] != meta_fresh[1]:
            return {"what": "meta nparticles %s vs fresh %s" % (ds.meta["nparticles"], meta_fresh[1]), "input": desc}
        return None
    finally:
        shutil.rmtree(tmp, ignore_errors=True)


def replay_history(case, model, rec):
    for s in range(25):
        try:
            r = history_case(7000 + s, length=2 if s % 2 else 3)
        except Exception as e:
            r = {"what": "exception %r" % (e,), "input": {"seed": 7000 + s}}
        if r:
            return {"reproduced": True, "input": r["input"], "observed": r["what"]}
    return {"reproduced": False}


def sweep_c15(tier, seed):
    n = 169 + (10 if tier == "quick" else 400)  # all 13 x 13 ordered pairs, then random histories of length 3
    viol = []
    for k in range(n):
        try:
            r = history_case(k if k < 169 else seed * 5003 + k, length=2 if k < 169 else 3)
        except Exception as e:
            import traceback

            r = {"what": "exception %r %s" % (e, traceback.format_exc(limit=3)), "input": {"seed": seed * 5003 + k}}
        if r:
            viol.append({"name": "C15.native.history", "input": r["input"], "observed": r["what"]})
            break
    return {"status": "violation" if viol else "ok", "cases": n, "distinct": n, "violations": viol,
            "samples": [{"seed": seed * 5003}], "kind": "bounded-native"}


# --------------------------------------------------------------------------------------
# C04: selective loads (CPU pre-selection by Hilbert keys) equal filtered full loads
# --------------------------------------------------------------------------------------
def selective_case(seed, adversarial=True):
    import contextlib
    import io

    import numpy as np
    import osyris

    rw = _writer()
    rng = random.Random(seed)
    ndim = 3
    levelmin = 2
    levelmax = rng.choice([2, 3, 4])
    ncpu = rng.choice([2, 3, 5, 8])
    hydro_vars = ["density", "pressure"]
    tmp = tempfile.mkdtemp(prefix="c04_")
    try:
        total = 8 ** (levelmax + 1)
        if adversarial:
            # bound keys placed right at / next to the keys of oct centres of coarse octs
            cand = set()
            for lev in range(1, levelmax + 1):
                n = 2 ** lev
                for _ in range(6):
                    c = [(rng.randrange(n) + 0.5) / n for _ in range(3)]
                    k = rw.point_key(c, 3, levelmax)
                    cand.update([k, k + 1, max(k - 1, 1)])
            keys = sorted(k for k in cand if 0 < k < total)
            picks = sorted(rng.sample(keys, min(ncpu - 1, len(keys))))
            bound_keys = [0] + picks + [total]
            ncpu = len(bound_keys) - 1
        else:
            bound_keys = rw.default_bound_keys(3, ncpu, levelmax)
        octs = rw.build_tree(ndim, levelmin, levelmax, rng=rng, ncpu=ncpu, bound_keys=bound_keys, variables=hydro_vars,
                             refine_fraction=rng.choice([0.0, 0.2, 0.5]))
        # box length and length unit of the output (positions are boxlen * unit_l * code coordinate, in cm)
        boxlen = rng.choice([1.0, 1.0, 0.4, 2.0])
        unit_l = rng.choice([1.0, 3.0])
        L = boxlen * unit_l
        rw.write_output(tmp, 1, octs, ndim=ndim, ncpu=ncpu, levelmin=levelmin, levelmax=levelmax, hydro_vars=hydro_vars,
                        bound_keys=bound_keys, ghosts=rw.random_ghosts(octs, ncpu, rng), boxlen=boxlen, unit_l=unit_l)
        quiet = contextlib.redirect_stdout(io.StringIO())
        with quiet:
            full = osyris.RamsesDataset(1, path=tmp).load()
        fm = full["mesh"]
        P = np.stack([np.asarray(getattr(fm["position"], c).values, float) for c in "xyz"], axis=1)
        rho = np.asarray(fm["density"].values, float)
        nfin = 2 ** levelmax
        desc = {"seed": seed, "levelmax": levelmax, "ncpu": ncpu, "bound_keys": bound_keys, "boxlen": boxlen, "unit_l": unit_l}
        leaf_rows = [r for r in range(len(rho))]
        for trial in range(8):
            axes = rng.sample("xyz", rng.choice([1, 2, 3]))
            sel, lims = {}, {}
            small = trial >= 6 and leaf_rows  # a box one finest cell wide centred on the centre of a (coarse) leaf
            if small:
                axes = list("xyz")
                coarse = np.argsort(np.asarray(fm["level"].values))[: max(1, len(rho) // 4)]
                row = int(rng.choice(list(coarse)))
                for k, a in enumerate("xyz"):
                    lo, hi = P[row, k] - 0.5 * L / nfin, P[row, k] + 0.5 * L / nfin
                    lims[a] = (lo, hi)
                    sel["position_" + a] = (lambda x, lo=lo, hi=hi: (x >= osyris.Array(lo, unit="cm")) & (x <= osyris.Array(hi, unit="cm")))
                axes = []
            for a in axes:
                # interval containing at least one finest cell centre; sizes from one finest cell up
                i0 = rng.randrange(nfin)
                w = rng.choice([1, 1, 2, 3, nfin // 2, nfin])
                i1 = min(nfin - 1, i0 + w - 1)
                lo, hi = L * i0 / nfin, L * (i1 + 1) / nfin
                lims[a] = (lo, hi)
                sel["position_" + a] = (lambda x, lo=lo, hi=hi: (x >= osyris.Array(lo, unit="cm")) & (x <= osyris.Array(hi, unit="cm")))
            thr = float(np.median(rho)) if rng.random() < 0.5 else None
            if thr is not None:
                sel["density"] = lambda d, thr=thr: d >= osyris.Array(thr, unit="g/cm**3")
            with quiet:
                ds = osyris.RamsesDataset(1, path=tmp).load(select={"mesh": sel})
            keep = np.ones(len(rho), dtype=bool)
            for a, (lo, hi) in lims.items():
                k = "xyz".index(a)
                keep &= (P[:, k] >= lo) & (P[:, k] <= hi)
            if thr is not None:
                keep &= rho >= thr
            want = int(keep.sum())
            got_mesh = ds["mesh"] if "mesh" in ds.keys() else None
            n_got = 0 if (got_mesh is None or len(got_mesh.keys()) == 0) else got_mesh.shape[0]
            if n_got != want:
                return {"what": "selection %s%s: %d rows, filtered full load has %d" % (lims, " + density" if thr else "", n_got, want),
                        "input": dict(desc, limits=lims)}
            if want:
                # the same rows with identical values (files are read in the order of the pre-selected cpu
                # list, so rows are compared as multisets)
                gp = np.stack([np.asarray(getattr(got_mesh["position"], c).values, float) for c in "xyz"]
                              + [np.asarray(got_mesh["density"].values, float), np.asarray(got_mesh["level"].values, float)], axis=1)
                fp = np.concatenate([P[keep], rho[keep][:, None], np.asarray(fm["level"].values, float)[keep][:, None]], axis=1)
                gs = gp[np.lexsort(gp.T[::-1])]
                fs = fp[np.lexsort(fp.T[::-1])]
                if not np.array_equal(gs, fs):
                    return {"what": "selection %s: rows differ from the filtered full load" % (lims,), "input": dict(desc, limits=lims)}
        # explicit cpu list
        cl = sorted(rng.sample(range(1, ncpu + 1), rng.randint(1, ncpu)))
        with quiet:
            ds = osyris.RamsesDataset(1, path=tmp).load(cpu_list=cl)
        keep = np.isin(np.asarray(fm["cpu"].values), cl)
        nk = int(keep.sum())
        got_n = 0 if len(ds["mesh"].keys()) == 0 else ds["mesh"].shape[0]
        if got_n != nk or (nk and not np.array_equal(np.asarray(ds["mesh"]["density"].values, float), rho[keep])):
            return {"what": "cpu_list=%s does not return exactly the cells owned by those cpus" % cl, "input": desc}
        return None
    finally:
        shutil.rmtree(tmp, ignore_errors=True)


def replay_selective(case, model, rec):
    for s in range(40):
        try:
            r = selective_case(9100 + s)
        except Exception as e:
            r = {"what": "exception %r" % (e,), "input": {"seed": 9100 + s}}
        if r:
            return {"reproduced": True, "input": r["input"], "observed": r["what"]}
    return {"reproduced": False}


def sweep_c04(tier, seed):
    n = 30 if tier == "quick" else 600
    viol = []
    r = replay_hilbert("", {}, {})
    if r["reproduced"]:
        viol.append({"name": "C04.native.hilbert_table", "input": r["input"], "observed": r["observed"]})
    for k in range(n):
        try:
            r = selective_case(seed * 6007 + k, adversarial=(k % 3 != 0))
        except Exception as e:
            import traceback

            r = {"what": "exception %r %s" % (e, traceback.format_exc(limit=4)), "input": {"seed": seed * 6007 + k}}
        if r:
            viol.append({"name": "C04.native.selective", "input": r["input"], "observed": r["what"]})
            break
    return {"status": "violation" if viol else "ok", "cases": n * 7, "distinct": n * 7, "violations": viol,
            "samples": [{"seed": seed * 6007}], "kind": "bounded-native"}


def replay_hilbert(case, model, rec):
    import itertools

    from osyris.io.hilbert import _hilbert3d

    from contracts import ref_hilbert as R

    for bl in (1, 2, 3, 4, 5):
        n = 2 ** bl
        keys = set()
        for p in itertools.product(range(n), repeat=3):
            k = _hilbert3d(p[0], p[1], p[2], bl)
            keys.add(k)
            if k != R.hilbert3d(p[0], p[1], p[2], bl):
                return {"reproduced": True, "input": {"point": p, "bit_length": bl}, "observed": "key %d, reference %d" % (k, R.hilbert3d(*p, bl))}
        if keys != set(range(n ** 3)):
            return {"reproduced": True, "input": {"bit_length": bl}, "observed": "not a bijection"}
    return {"reproduced": False}
