"""Native oracles for the loader (C01 C04 C12 C13 C14 C15): synthesized RAMSES outputs."""
import os
import random
import shutil
import sys
import tempfile

ROOT = os.path.dirname(os.path.dirname(os.path.abspath(__file__)))


def _writer():
    sys.path.insert(0, os.path.join(ROOT, "replay"))
    import ramses_writer as rw

    return rw


def replay_read_binary(case, model, rec):
    import struct

    from osyris.io.utils import read_binary_data, skip_binary_line

    content = b"".join(struct.pack("i", 12) + struct.pack("3i", 7, 8, 9) + struct.pack("i", 12)
                       for _ in range(1)) + struct.pack("i", 16) + struct.pack("2d", 1.5, 2.5) + struct.pack("i", 16)
    off = {k: 0 for k in "bidnsql"}
    a = read_binary_data(content=content, fmt="3i", offsets=off)
    b = read_binary_data(content=content, fmt="2d", offsets=off)
    ok = a == (7, 8, 9) and b == (1.5, 2.5) and off["i"] == 3 and off["d"] == 2 and off["n"] == 2
    off2 = {k: 0 for k in "bidnsql"}
    n = skip_binary_line(content, off2)
    ok = ok and n == 12 and off2["n"] == 1
    return {"reproduced": not ok, "observed": [a, b, off, n]}


def replay_units(case, model, rec):
    return {"reproduced": False, "note": "decided by the obligation; end-to-end unit factors are exercised by the native sweep"}


def full_load_case(seed, quick=True):
    """write one random output and compare a full load with the written tree; returns None or a description"""
    import numpy as np

    rw = _writer()
    rng = random.Random(seed)
    ndim = rng.choice([1, 2, 3])
    ncpu = rng.choice([1, 2, 3, 4])
    levelmin = 2 if ndim == 3 else rng.choice([2, 3])
    levelmax = levelmin + rng.choice([0, 1, 2])
    nboundary = rng.choice([0, 0, 1, 2])
    noutput = rng.choice([1, 2, 5])
    nvar = rng.randint(2, 5)
    hydro_vars = ["density"] + ["velocity_%s" % c for c in "xyz"[:ndim]] + ["pressure"] + ["scalar_%02d" % k for k in range(nvar)]
    hydro_vars = hydro_vars[: max(2, min(len(hydro_vars), 2 + nvar))]
    unit_l, unit_d, unit_t = rng.choice([(1.0, 1.0, 1.0), (3.0e18, 1e-24, 3.0e13), (2.5, 0.5, 4.0)])
    boxlen = rng.choice([1.0, 4.0])
    tmp = tempfile.mkdtemp(prefix="c01_")
    try:
        grav = rng.random() < 0.3
        allvars = list(hydro_vars) + (list(rw.grav_var_names(ndim)) if grav else [])
        octs = rw.build_tree(ndim, levelmin, levelmax, rng=rng, ncpu=ncpu, variables=allvars)
        ghosts = rw.random_ghosts(octs, ncpu, rng) if ncpu > 1 else None
        bgr = rw.random_boundary_grids(octs, ncpu, nboundary, rng) if nboundary else None
        info = rw.write_output(tmp, 1, octs, ndim=ndim, ncpu=ncpu, levelmin=levelmin, levelmax=levelmax, boxlen=boxlen,
                               unit_l=unit_l, unit_d=unit_d, unit_t=unit_t, nboundary=nboundary, noutput=noutput,
                               hydro_vars=hydro_vars, grav=grav, ghosts=ghosts, boundary_grids=bgr)
        exp = rw.expected_mesh(octs, ndim=ndim, ncpu=ncpu, levelmax=levelmax, boxlen=boxlen, unit_l=unit_l, unit_d=unit_d,
                               unit_t=unit_t, hydro_vars=hydro_vars, grav=grav, rt_vars=None)
        import contextlib
        import io

        import osyris

        with contextlib.redirect_stdout(io.StringIO()):
            ds = osyris.RamsesDataset(1, path=tmp).load()
        mesh = ds["mesh"]
        desc = {"seed": seed, "ndim": ndim, "ncpu": ncpu, "levels": [levelmin, levelmax], "nboundary": nboundary,
                "noutput": noutput, "vars": hydro_vars, "grav": grav}
        n = len(exp["level"])
        if mesh.shape != (n,):
            return {"what": "rows %s, leaf cells %d" % (mesh.shape, n), "input": desc}
        for key, want in exp.items():
            if key.startswith("position_") and ndim > 1:
                got = getattr(mesh["position"], key[-1]).values
            elif key.startswith("velocity_") and ndim > 1:
                got = getattr(mesh["velocity"], key[-1]).values
            elif key.startswith("grav_acceleration_") and ndim > 1:
                got = getattr(mesh["grav_acceleration"], key[-1]).values
            else:
                got = mesh[key].values
            if not np.allclose(np.asarray(got, dtype=float), np.asarray(want, dtype=float), rtol=1e-12, atol=0):
                return {"what": "variable %s differs" % key, "input": desc}
        # units: density g/cm^3, positions cm
        if str(mesh["density"].unit) != str(osyris.units("g/cm**3")):
            return {"what": "density unit %s" % mesh["density"].unit, "input": desc}
        # derived mass = density * dx^3 in M_sun
        m = (mesh["density"] * mesh["dx"] ** 3).to("M_sun")
        if not np.allclose(mesh["mass"].values, m.values, rtol=1e-12):
            return {"what": "derived mass differs", "input": desc}
        if ds.meta["ncells"] != n:
            return {"what": "meta ncells %s vs %d" % (ds.meta["ncells"], n), "input": desc}
        return None
    finally:
        shutil.rmtree(tmp, ignore_errors=True)


def replay_loader(case, model, rec):
    for s in range(12):
        try:
            r = full_load_case(4242 + s)
        except Exception as e:
            r = {"what": "exception %r" % (e,), "input": {"seed": 4242 + s}}
        if r:
            return {"reproduced": True, "input": r["input"], "observed": r["what"]}
    return {"reproduced": False}


def sweep_c01(tier, seed):
    n = 25 if tier == "quick" else 400
    viol = []
    for k in range(n):
        try:
            r = full_load_case(seed * 1009 + k)
        except Exception as e:
            import traceback

            r = {"what": "exception %r %s" % (e, traceback.format_exc(limit=4)), "input": {"seed": seed * 1009 + k}}
        if r:
            viol.append({"name": "C01.native.full_load", "input": r["input"], "observed": r["what"]})
            break
    # nout = -1 picks the last output directory
    return {"status": "violation" if viol else "ok", "cases": n, "distinct": n, "violations": viol,
            "samples": [{"seed": seed * 1009}], "kind": "bounded-native"}
