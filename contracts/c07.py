"""C07 — Comparisons and logical operators compare physical quantities."""
import z3

from pyvc import core
from pyvc.api import O, bounded, unit
from pyvc.core import SV, prove
from pyvc.stubs import np as snp
from pyvc.stubs import pint as spint

from . import arrays as A
from . import native_arrays as N

LEVEL = "proof"
EXPLANATION = ("The six comparison dunders, the four logical dunders of Array and the dispatcher _wrap_numpy "
               "(comparison/logical ufuncs) are executed symbolically; value, dtype, unit, shape, raises and "
               "frame clauses over phys() are discharged by z3 for all values/dtypes/shapes/units/operand kinds.")
TRUSTED = ["numpy comparison/logical ufunc semantics and NEP-13 dispatch (pyvc/stubs/np.py)",
           "pint unit algebra (pyvc/stubs/pint.py)"]
ASSUMPTIONS = ["floating point compared as reals: values that differ only by rounding after conversion are not modelled"]

ARR = A.ARRAY
CMP = {"__lt__": ("less", lambda x, y: x < y), "__le__": ("less_equal", lambda x, y: x <= y),
       "__gt__": ("greater", lambda x, y: x > y), "__ge__": ("greater_equal", lambda x, y: x >= y),
       "__eq__": ("equal", lambda x, y: x == y), "__ne__": ("not_equal", lambda x, y: x != y)}
LOGIC = {"__and__": ("logical_and", lambda x, y: x & y), "__or__": ("logical_or", lambda x, y: x | y),
         "__xor__": ("logical_xor", lambda x, y: x ^ y)}

_WN = []
for _f in [v[0] for v in CMP.values()]:
    for _sa, _sb in A.PAIR_SHAPES:
        _WN.append({"label": "%s,%s-%s" % (_f, _sa, _sb), "f": _f,
                    "spec": [("Array", _sa, "a"), ("Array", _sb, "a")]})
for _f in [v[0] for v in LOGIC.values()]:
    _WN.append({"label": _f, "f": _f, "spec": [("BoolArray", "1d", None), ("BoolArray", "1d", None)]})
_WN.append({"label": "logical_not", "f": "logical_not", "spec": [("BoolArray", "1d", None)]})


@unit("C07", "_wrap_numpy", targets=[ARR + ":Array._wrap_numpy"], cases=_WN, replay=N.replay_compare,
      inline=["Array._maybe_array", "Array._extract_*", "Array.__init__"])
def wn(case):
    got, ops = A.check_wrap_numpy(case["f"], case["spec"])
    if got is not None:
        prove("bool_dimensionless.dtype", got._array.dtype.is_bool())
        prove("bool_dimensionless.unit", got.unit.dimensionless)


KINDS = ["Array", "number_float", "number_int", "ndarray", "Quantity", "QuantityArr"]
_CMP_CASES = []
for _op in CMP:
    for _k in KINDS:
        pairs = A.PAIR_SHAPES if _k in ("Array", "ndarray", "QuantityArr") else [("1d", "0d"), ("0d", "0d"), ("2d", "0d")]
        if _k != "Array":
            pairs = pairs[:3]
        for _sa, _sb in pairs:
            _CMP_CASES.append({"label": "%s,%s,%s-%s" % (_op, _k, _sa, _sb), "op": _op, "kind": _k, "shapes": (_sa, _sb)})


@unit("C07", "Array", targets=[ARR + ":Array." + o for o in CMP] + [ARR + ":_binary_op"],
      uses=["_binary_op", "Array.to", "Array._wrap_numpy"], cases=_CMP_CASES, replay=N.replay_compare,
      inline=["Base.__array_ufunc__", "Array.__init__"])
def comparisons(case):
    Array = O().Array
    opname = case["op"]
    dims = A.Dims()
    a = A.mk_array("a", dims, case["shapes"][0])
    b = A.mk_operand(case["kind"], "b", dims, case["shapes"][1])
    sa, sb = A.snapshot(a), A.snapshot(b)
    ua, ub = a.unit, A.unit_of(b)
    try:
        r = getattr(a, opname)(b)
    except spint.DimensionalityError:
        prove("raises_only_if_dim_differs", ~ua.same_dim(ub))
        A.unchanged("raise.a", sa)
        A.unchanged("raise.b", sb)
        core.cover("raised")
        return
    except ValueError:
        return  # shapes not broadcastable
    prove("no_answer_for_incompatible_dimensions", ua.same_dim(ub))
    prove("result_is_array", isinstance(r, Array))
    prove("dtype_bool", r._array.dtype.is_bool())
    prove("unit_dimensionless", r.unit.dimensionless)
    braw = A.raw(b)
    shapes = [sa["shape"]] + ([braw.shape] if isinstance(braw, snp.ndarray) else [])
    full = snp._bc_shape(shapes)
    prove("shape_is_broadcast_shape", core.conj(len(r.shape) == len(full), SV(snp._shape_eq_term(r.shape, full), "b") if len(r.shape) == len(full) else False))
    idx = A.skolem_index(full)
    pa = sa["elem"](snp._bc_index(idx, sa["shape"], full)) * ua.scale
    if isinstance(braw, snp.ndarray):
        belem = (sb["elem"] if sb.get("elem") is not None else braw.snapshot())(snp._bc_index(idx, braw.shape, full))
    else:
        belem = braw
    pb = belem * ub.scale
    want = CMP[opname][1](pa, pb)
    got = r._array.elem(idx)
    prove("value", SV(core.bterm(got) == core.bterm(want), "b"))
    A.unchanged("a", sa)
    A.unchanged("b", sb)
    core.cover("compared")


_LOG_CASES = [{"label": "%s,%s" % (o, k), "op": o, "kind": k} for o in LOGIC for k in ("BoolArray", "boolnd", "pybool")]


@unit("C07", "Array", targets=[ARR + ":Array." + o for o in LOGIC] + [ARR + ":Array.__invert__"],
      uses=["_binary_op", "Array.to", "Array._wrap_numpy"], cases=_LOG_CASES + [{"label": "__invert__", "op": "__invert__"}],
      replay=N.replay_logic, inline=["Base.__array_ufunc__", "Array.__init__"])
def logic(case):
    Array = O().Array
    dims = A.Dims()
    a = A.mk_array("a", dims, "1d", unit=spint.REGISTRY.dimensionless, dt=snp.dtype("bool"), kind="b")
    sa = A.snapshot(a)
    if case["op"] == "__invert__":
        r = ~a
        idx = A.skolem_index(r.shape)
        prove("value", SV(core.bterm(r._array.elem(idx)) == z3.Not(core.bterm(sa["elem"](idx))), "b"))
    else:
        k = case["kind"]
        if k == "BoolArray":
            b = A.mk_array("b", dims, "1d", unit=spint.REGISTRY.dimensionless, dt=snp.dtype("bool"), kind="b")
        elif k == "boolnd":
            b = A.mk_ndarray("b", dims, "1d", dt=snp.dtype("bool"), kind="b")
        else:
            b = core.fresh_bool("b")
        sb = A.snapshot(b)
        r = getattr(a, case["op"])(b)
        idx = A.skolem_index(r.shape)
        x = sa["elem"](idx)
        braw = A.raw(b)
        y = (sb["elem"] if sb.get("elem") is not None else (lambda i: braw))(idx) if isinstance(braw, snp.ndarray) else braw
        want = LOGIC[case["op"]][1](SV.lift(x), SV.lift(y))
        prove("value", SV(core.bterm(r._array.elem(idx)) == core.bterm(want), "b"))
        A.unchanged("b", sb)
    prove("dtype_bool", r._array.dtype.is_bool())
    prove("unit_dimensionless", r.unit.dimensionless)
    A.unchanged("a", sa)


from . import foundation  # noqa: E402

foundation.register("C07")


@bounded("C07", "native", "operators x operand kinds x {float64,float32,int64,int32} x 16 unit pairs (same, compatible, scaled "
                         "dimensionless, incompatible incl. m vs m**2) x random broadcast shapes; pint as oracle")
def native(tier, seed):
    from pyvc import nativerun

    return nativerun.run("contracts.native_arrays:sweep_c07", tier, seed)
