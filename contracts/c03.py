"""C03 — A map pixel shows the value of the loaded cell containing its sample point."""
import os

import z3

from pyvc import core, loader, loops
from pyvc.api import M, O, bounded, summary, unit
from pyvc.core import SV, prove
from pyvc.stubs import misc as smisc
from pyvc.stubs import np as snp
from pyvc.stubs import pint as spint

from . import arrays as A
from . import c18
from . import mapkit as K
from . import native_map as NM

LEVEL = "other"
EXPLANATION = ("map() is executed symbolically (real Array/Vector/VectorBasis code, numpy/pint by their assumed contracts) on a mesh "
               "of n arbitrary cells with symbolic centres, sizes, values and units, symbolic origin, window and resolution; the "
               "numba kernel is replaced by its contract (a pixel holds the values of the last cell passing the kernel's containment "
               "test, NaN if none).  Proved for an arbitrary pixel (j,i) and an arbitrary loaded cell m: the arguments handed to the "
               "kernel are the selected cells' centres/half-sizes/values and the pixel's sample point origin + x_i*u + y_j*v; an "
               "unmasked pixel shows the value of a loaded cell that contains the sample point; if cell m contains the sample point "
               "it survives both pre-selections (near the plane, near the window) and the pixel is not masked; mask == NaN; units, "
               "names, pixel-centre coordinates in the unit of dx.  The kernel itself is verified against that contract with loop "
               "contracts (outer loop over cells: inductive 'last hit' invariant; footprint bounds by the Cauchy-Schwarz lemma), "
               "and its prange loop is checked for write conflicts: two cells write the same pixel only when both contain the "
               "sample point, i.e. on a shared face, which the statement allows.")
TRUSTED = ["numpy / pint / numba stubs (pyvc/stubs)", "matplotlib not involved (plot=False)"]
ASSUMPTIONS = ["dx omitted: the kernel's call-site precondition (positive depth spacing) is not proved; bounded native sweep covers omitted dx",
               "vector layers whose unit is dimensionless-compatible (cm/m) are excluded from the deductive units: recorded finding, bounded native case",
               "real arithmetic for floats: 'within rounding' at cell faces is not modelled; exact face points may take either cell",
               "non-overlap of cells is not needed: the pixel shows A loaded cell containing the point"]

AXES3 = {"z": ((1, 0, 0), (0, 1, 0), (0, 0, 1)), "x": ((0, 1, 0), (0, 0, 1), (1, 0, 0)), "y": ((0, 0, 1), (1, 0, 0), (0, 1, 0)),
         "zyx": ((0, 1, 0), (1, 0, 0), (0, 0, 1)), "xzy": ((0, 0, 1), (0, 1, 0), (1, 0, 0))}


class MapRun:
    """one symbolic execution of map() and the vocabulary to talk about it"""

    def __init__(self, ndim=3, direction="z", window="same_unit", resolution="int", layers=("scalar",), thick=None,
                 operation=None, origin="given", layer_kwargs=None, call_kwargs=None, zres=None):
        osy = O()
        self.osy = osy
        self.ndim = ndim
        del K.KCALLS[:]
        del snp.ROWMAP_LOG[:]
        snp.OPAQUE_LINSPACE[0] = True  # pixel-centre formulas are revealed only where a clause is about them
        self.dims, self.ul, self.pos, self.dxc, self.aux, self.data = K.mesh_inputs(ndim=ndim, layers=layers)
        self.n = self.dims.n
        self.kinds = tuple(layers)
        lkw = {k: dict((layer_kwargs or {}).get(k, {})) for k in range(len(self.data))}
        for k, kind in enumerate(layers):
            if kind == "vector":
                lkw[k].setdefault("mode", "vec")
        self.layers = [osy.core.Layer(d, aux=self.aux, **lkw[k]) for k, d in enumerate(self.data)]
        kw = dict(call_kwargs or {})
        self.uw = self.ul
        self.win = None
        if window != "none":
            if window == "other_unit":
                self.uw = spint.sym_unit("uwin", family=self.ul)
            self.win = spint.Quantity(core.fresh_real("win"), self.uw)
            core.assume(self.win.magnitude > 0)
            kw["dx"] = self.win
            if window == "dx_dy":
                self.win_y = spint.Quantity(core.fresh_real("winy"), self.uw)
                core.assume(self.win_y.magnitude > 0)
                kw["dy"] = self.win_y
        self.origin = None
        if origin == "given":
            self.origin = osy.Vector(*[osy.Array(values=core.fresh_real("o" + c), unit=self.ul) for c in "xyz"[:ndim]])
            kw["origin"] = self.origin
        if resolution == "int":
            self.rx = self.ry = core.fresh_int("res", 1)
            kw["resolution"] = self.rx
        elif resolution == "dict":
            self.rx, self.ry = core.fresh_int("rx", 1), core.fresh_int("ry", 1)
            kw["resolution"] = {"x": self.rx, "y": self.ry}
        elif resolution == "dict_x":
            self.rx, self.ry = core.fresh_int("rx", 1), 256
            kw["resolution"] = {"x": self.rx}
        else:
            self.rx = self.ry = 256
        if zres is not None:
            kw["resolution"]["z"] = zres
        self.resolution = kw.get("resolution")
        self.thick = thick
        if thick is not None:
            self.dz = spint.Quantity(core.fresh_real("dz"), self.uw)
            core.assume(self.dz.magnitude > 0)
            kw["dz"] = self.dz
        if operation is not None:
            kw["operation"] = operation
        self.direction = direction
        self.kw = kw
        self.raised = None
        self.abstract_basis = None
        if direction == "vector":
            # an arbitrary non-zero normal; the basis is VectorBasis(n=normal) by its contract (C18): orthonormal,
            # right-handed, n parallel to the argument
            nv = [core.fresh_real("normal_" + c) for c in "xyz"]
            core.assume(SV(z3.Or(*[core.term(x) != 0 for x in nv]), "b"))
            direction = osy.Vector(*nv)
            del c18.CALLS[:]
        try:
            self.out = M(K.MAP).map(*self.layers, direction=direction, plot=False, **kw)
            if self.direction == "vector":
                self.abstract_basis = c18.CALLS[-1][1]
        except RuntimeError as e:
            self.raised = e
            return
        finally:
            snp.OPAQUE_LINSPACE[0] = False
        self.kc = K.KCALLS[-1]
        # the chain of boolean pre-selections applied to the n loaded cells, in order
        self.chain = []
        size = self.n
        for mask, count, sel in snp.ROWMAP_LOG:
            if mask.ndim == 1 and core.entails(SV.lift(mask.shape[0]) == SV.lift(size)):
                self.chain.append((mask, count, sel))
                size = count
        self.nsel = size
        self.auto_facts = []
        if self.win is None:
            # window derived from the selected cells' extents: it is non-degenerate because the first selected cell has a
            # positive size (amin <= element <= amax instantiated at row 0)
            reds = [r for r in core.cur().counter.get("@redfacts", [])]
            core.assume(SV.lift(self.dxc._array.elem((self.sigma(0),))) > 0)
            snp.minmax_elim(0)
            for lo, hi in zip(reds[0::2], reds[1::2]):
                if lo[0] == "amin" and hi[0] == "amax":
                    fact = SV.lift(hi[1]) - SV.lift(lo[1]) > 0
                    prove("window.derived_extent_positive[%d]" % len(self.auto_facts), fact)
                    self.auto_facts.append(fact)

    # ---- vocabulary ------------------------------------------------------------------
    def sigma(self, r):
        """loaded-cell index of the r-th cell handed to the kernel"""
        for mask, count, sel in reversed(self.chain):
            r = sel(r)
        return SV.lift(r)

    def basis(self):
        if self.ndim < 3:
            return (1, 0, 0), (0, 1, 0), (0, 0, 0)
        if self.abstract_basis is not None:
            b = self.abstract_basis
            return tuple(tuple(SV.lift(x) for x in c18.comps(w)) for w in (b.u, b.v, b.n))
        return AXES3[self.direction]

    def origin_comp(self, d):
        return SV.lift(getattr(self.origin, "xyz"[d])._array.elem(())) if self.origin is not None else SV.lift(0.0)

    def sample(self, xs, ys, zs=0.0):
        """sample point origin + xs*u + ys*v + zs*n in the position unit (xs, ys, zs in that unit)"""
        u, v, nn = self.basis()
        return [self.origin_comp(d) + xs * u[d] + ys * v[d] + zs * nn[d] for d in range(self.ndim)]

    def cell(self, m):
        return [SV.lift(getattr(self.pos, "xyz"[d])._array.elem((m,))) for d in range(self.ndim)], SV.lift(self.dxc._array.elem((m,)))

    def contains(self, m, q):
        c, s = self.cell(m)
        t = SV.lift(True)
        for d in range(self.ndim):
            t = t & (q[d] - c[d] <= s / 2) & (c[d] - q[d] <= s / 2)
        return t

    def pixel(self):
        i, j = core.fresh_int("i", 0), core.fresh_int("j", 0)
        core.assume(i < self.kc.nx)
        core.assume(j < self.kc.ny)
        return j, i

    def unit_facts(self):
        fs = [self.ul.scale > 0]
        if self.uw is not self.ul:
            fs.append(self.uw.scale > 0)
        if self.win is not None:
            fs.append(self.win.magnitude > 0)
        return fs + list(self.auto_facts)

    def witness(self, c, sz, q, j, i, k):
        """probe terms of a candidate counterexample: one cell, the origin, the window (position unit), the pixel"""
        w = {"ndim": self.ndim, "direction": self.direction, "thick": bool(self.thick)}
        for d in range(self.ndim):
            w["centre%d" % d] = c[d]
            w["origin%d" % d] = self.origin_comp(d)
            w["sample%d" % d] = q[d]
        w["size"] = sz
        if self.win is not None:
            w["window_x"] = self.to_pos_unit(self.win.magnitude)
            w["window_y"] = self.to_pos_unit(self.win_y.magnitude) if hasattr(self, "win_y") else w["window_x"]
        if self.thick:
            w["dz"] = self.to_pos_unit(self.dz.magnitude)
            w["nz"] = SV.lift(self.kc.nz)
        w["rx"], w["ry"], w["i"], w["j"], w["k"] = SV.lift(self.rx), SV.lift(self.ry), SV.lift(i), SV.lift(j), SV.lift(k)
        return w

    def extent_facts(self):
        fs = [SV.lift(self.rx) >= 1, SV.lift(self.ry) >= 1]
        if self.thick:
            fs += [self.dz.magnitude > 0, SV.lift(self.kc.nz) >= 1]
        return fs

    def to_pos_unit(self, x):
        """a returned pixel coordinate (unit of dx) expressed in the position unit"""
        if self.uw is self.ul:
            return SV.lift(x)
        return SV.lift(x) * self.uw.scale / self.ul.scale


_CASES = [
    {"label": "3d,z,dx_same_unit,res_int", "ndim": 3, "direction": "z", "window": "same_unit", "resolution": "int"},
    {"label": "3d,x,dx_same_unit,res_dict", "ndim": 3, "direction": "x", "window": "same_unit", "resolution": "dict"},
    {"label": "3d,y,dx_other_unit,res_int", "ndim": 3, "direction": "y", "window": "other_unit", "resolution": "int"},
    {"label": "3d,zyx,dx_dy,res_dict", "ndim": 3, "direction": "zyx", "window": "dx_dy", "resolution": "dict"},
    {"label": "2d,z,dx_same_unit,res_int", "ndim": 2, "direction": "z", "window": "same_unit", "resolution": "int"},
    {"label": "2d,z,dx_other_unit,res_dict", "ndim": 2, "direction": "z", "window": "other_unit", "resolution": "dict"},
    {"label": "3d,z,operation=nansum", "ndim": 3, "direction": "z", "window": "same_unit", "resolution": "int", "operation": "nansum"},
    {"label": "2d,z,operation=nanmean", "ndim": 2, "direction": "z", "window": "same_unit", "resolution": "int", "operation": "nanmean"},
    {"label": "3d,z,dx_omitted,res_int", "ndim": 3, "direction": "z", "window": "none", "resolution": "int"},
    {"label": "3d,y,vector+scalar", "ndim": 3, "direction": "y", "window": "same_unit", "resolution": "int", "layers": ("vector", "scalar")},
    {"label": "2d,z,vector", "ndim": 2, "direction": "z", "window": "same_unit", "resolution": "int", "layers": ("vector",)},
]


def check_pixel(run, tag="", oblique=False):
    """the C03 clauses at an arbitrary pixel of a thin map (one scalar layer per entry of run.data)"""
    kc = run.kc
    prove(tag + "grid.shape", core.conj(SV.lift(kc.nz) == 1, SV.lift(kc.nx) == run.rx, SV.lift(kc.ny) == run.ry))
    prove(tag + "kernel.ncells", SV.lift(kc.ncells) == SV.lift(run.nsel))
    j, i = run.pixel()
    px, py = SV.lift(run.out.x.elem((i,))), SV.lift(run.out.y.elem((j,)))
    xs, ys = run.to_pos_unit(px), run.to_pos_unit(py)
    q = run.sample(xs, ys)
    h = kc.last(0, j, i)
    for k, lay in enumerate(run.out.layers):
        data = lay["data"]
        m_hit = run.sigma(h)
        if run.kinds[k] == "vector":
            # (projection on u, projection on v, in-plane magnitude) of the hit cell's vector
            prove(tag + "layer%d.shape" % k, core.conj(len(data.data.shape) == 3, SV.lift(data.data.shape[0]) == run.ry,
                                                     SV.lift(data.data.shape[1]) == run.rx, SV.lift(data.data.shape[2]) == 3))
            u, v, nn = run.basis()
            # vector layers in a dimensionless-compatible unit (cm/m, percent): recorded finding, decided by the bounded
            # native case C03.native.map.vector_scaled_dimensionless_unit (Array * Array converts compatible units)
            core.assume(~run.data[k].x.unit.same_dim(spint.REGISTRY.dimensionless))
            W = [SV.lift(getattr(run.data[k], "xyz"[d])._array.elem((m_hit,))) for d in range(run.ndim)]
            pu = sum((W[d] * u[d] for d in range(run.ndim)), SV.lift(0.0))
            pv = sum((W[d] * v[d] for d in range(run.ndim)), SV.lift(0.0))
            want3 = [pu, pv, core.sqrt(pu * pu + pv * pv)]
            for c in range(3):
                masked = SV.lift(data.mask.elem((j, i, c)))
                prove(tag + "layer%d.comp%d.masked_iff_no_cell_passes" % (k, c), masked == (h < 0))
                val = snp.MaybeNaN.of(data.data.elem((j, i, c)))
                prove(tag + "layer%d.comp%d.unmasked.value_of_hit_cell" % (k, c),
                      core.implies(h >= 0, core.conj(~SV.lift(val.isnan), SV.lift(val.val) == want3[c])))
            prove(tag + "layer%d.unit" % k, lay["unit"] == run.data[k].x.unit)
            prove(tag + "layer%d.name" % k, lay["name"] == run.data[k].name)
            continue
        prove(tag + "layer%d.shape" % k, core.conj(len(data.data.shape) == 2, SV.lift(data.data.shape[0]) == run.ry,
                                                 SV.lift(data.data.shape[1]) == run.rx))
        masked = SV.lift(data.mask.elem((j, i)))
        prove(tag + "layer%d.masked_iff_no_cell_passes" % k, masked == (h < 0))
        v = data.data.elem((j, i))
        v = snp.MaybeNaN.of(v)
        want = SV.lift(run.data[k]._array.elem((m_hit,)))
        prove(tag + "layer%d.unmasked.value_of_hit_cell" % k, core.implies(~masked, core.conj(~SV.lift(v.isnan), SV.lift(v.val) == want)))
        prove(tag + "layer%d.unit" % k, lay["unit"] == run.data[k].unit)
        prove(tag + "layer%d.name" % k, lay["name"] == run.data[k].name)
    m_hit = run.sigma(h)
    prove(tag + "unmasked.hit_cell_is_loaded", core.implies(h >= 0, core.conj(m_hit >= 0, m_hit < run.n)))
    ax_hit = core.implies(h >= 0, kc.contains(h, 0, j, i))  # the kernel contract's ghost fact (asserted by kc.last)
    core.lemma(tag + "unmasked.hit_cell_contains_sample_point", [ax_hit] + run.unit_facts(), core.implies(h >= 0, run.contains(m_hit, q)))
    # completeness: an arbitrary loaded cell that contains the sample point keeps the pixel unmasked
    wf = window_facts(run, j, i, px, py, tag) if run.win is not None else []
    if oblique:
        complete_oblique(run, kc, j, i, q, px, py, wf, tag)
        kernel_pre_oblique(run, kc, j, i, tag)
        return j, i, px, py
    complete(run, kc, j, i, q, wf, 0, tag)
    if run.win is not None:
        kernel_pre(run, kc, 0, j, i, tag)
    # dx omitted: the depth extent handed to the kernel (max of centre+half-size along the normal) is positive only when
    # some selected cell reaches the plane from below; the kernel's precondition for that case is left to the native oracle
    return j, i, px, py


def abs_le(x, b):
    return (x <= b) & (-x <= b)


def window_facts(run, j, i, px, py, tag=""):
    """pixel centres lie inside the window (lemma from the pixel-centre formula): |x_i| <= dx/2, |y_j| <= dy/2"""
    wx = run.win.magnitude
    wy = run.win_y.magnitude if hasattr(run, "win_y") else wx
    snp.reveal_linspace(i)
    snp.reveal_linspace(j)
    fx = px * run.rx == (i + 0.5) * wx - 0.5 * wx * run.rx
    fy = py * run.ry == (j + 0.5) * wy - 0.5 * wy * run.ry
    prove(tag + "pixel_centre.x", fx)
    prove(tag + "pixel_centre.y", fy)
    inx, iny = abs_le(px, wx / 2), abs_le(py, wy / 2)
    core.lemma(tag + "pixel_centre.x_inside_window", [fx, i >= 0, i < run.rx, wx > 0, SV.lift(run.rx) >= 1], inx)
    core.lemma(tag + "pixel_centre.y_inside_window", [fy, j >= 0, j < run.ry, wy > 0, SV.lift(run.ry) >= 1], iny)
    return [inx, iny, wx > 0, wy > 0]


def footprint_axis(g, lo, sp, idx, centre, size, half):
    """one axis of the footprint argument, over arbitrary reals: a pixel centre on the grid (lo + (idx+1/2)*sp) within
    `size` of the cell centre, and size <= half, has idx inside the box [trunc((centre-half-lo)/sp), trunc((centre+half-lo)/sp)+1)"""
    hyp = core.conj(g == lo + (SV.lift(idx) + 0.5) * sp, sp > 0, g - centre <= size, centre - g <= size, size <= half)
    concl = core.conj(((centre - half) - lo) / sp < SV.lift(idx) + 1, ((centre + half) - lo) / sp >= SV.lift(idx))
    return core.implies(hyp, concl)


@unit("C03", "lemma.footprint_axis", targets=[], cases=[{"label": "reals"}], replay=None)
def footprint_lemma(case):
    g, lo, sp, centre, size, half = [core.fresh_real(x) for x in ("g", "lo", "sp", "centre", "size", "half")]
    idx = core.fresh_int("idx", 0)
    prove("footprint_axis", footprint_axis(g, lo, sp, idx, centre, size, half))


def kernel_pre(run, kc, k, j, i, tag=""):
    """the kernel's precondition, proved at the call site for an arbitrary selected cell and the arbitrary pixel:
    (1) the pixel centre handed to the kernel lies on the kernel's own grid (lower edge + (index + 1/2) * spacing along
    u, v and, for thick maps, n);  (2) hence a cell passing the containment test at the pixel has the pixel inside the
    index box computed from its projected centre and half-diagonal (|d.u| <= |d|_inf for an axis-aligned u)"""
    kw = kc.kw
    n = core.fresh_int("cell_any", 0)
    core.assume(n < kc.ncells)
    u, v, nn = run.basis()
    snp.reveal_linspace(i)
    snp.reveal_linspace(j)
    snp.reveal_linspace(k)
    on_grid = []
    for c, axis, idx in (("x", u, i), ("y", v, j), ("z", nn, k)):
        lo, sp = SV.lift(kw["grid_lower_edge_in_new_basis_" + c]), SV.lift(kw["grid_spacing_in_new_basis_" + c])
        if not any(axis):
            continue  # 2-D: no normal direction
        a = list(axis).index(1)
        g = SV.lift(kc.gp.elem((k, j, i, a)))
        if c == "z" and not run.thick:
            fact = core.conj(g == 0, lo == 0, sp > 0)  # the plane itself; the kernel's single depth cell starts at it
        else:
            fact = core.conj(g == lo + (SV.lift(idx) + 0.5) * sp, sp > 0)
        core.lemma(tag + "kernel_pre.pixel_on_kernel_grid." + c, run.unit_facts() + run.extent_facts(), fact)
        on_grid.append(fact)
        # the projected centre is the centre's coordinate along that axis
        proj = SV.lift(kw["cell_positions_in_new_basis_" + c].elem((n,))) == SV.lift(kc.orig[a].elem((n,)))
        prove(tag + "kernel_pre.projected_centre." + c, proj)
        on_grid.append(proj)
    if run.ndim == 2:
        on_grid.append(core.conj(SV.lift(kw["grid_lower_edge_in_new_basis_z"]) == 0, SV.lift(kw["grid_spacing_in_new_basis_z"]) > 0,
                                 SV.lift(kw["cell_positions_in_new_basis_z"].elem((n,))) == 0))
        prove(tag + "kernel_pre.flat_depth", on_grid[-1])
    goal = footprint_pre(kw, n, (k, j, i), run.ndim)
    # instances of the real-arithmetic lemma C03.lemma.footprint_axis (proved once over arbitrary reals)
    size = SV.lift(kw["cell_sizes"].elem((n,)))
    half = size * core.sqrt(run.ndim)
    inst = []
    for c, axis, idx in (("x", u, i), ("y", v, j), ("z", nn, k)):
        if not any(axis) or (c == "z" and not run.thick):
            continue
        a = list(axis).index(1)
        inst.append(footprint_axis(SV.lift(kc.gp.elem((k, j, i, a))), SV.lift(kw["grid_lower_edge_in_new_basis_" + c]),
                                   SV.lift(kw["grid_spacing_in_new_basis_" + c]), idx,
                                   SV.lift(kw["cell_positions_in_new_basis_" + c].elem((n,))), size, half))
    for t in inst:
        core.cur().add(core.bterm(t))
    core.note("instances of lemma C03.lemma.footprint_axis asserted at the call site of evaluate_on_grid")
    core.lemma(tag + "kernel_pre.footprint", on_grid + inst + core.sqrt_axioms(), goal)


def complete(run, kc, j, i, q, win_facts, k, tag):
    """an arbitrary loaded cell m that contains the sample point q survives every pre-selection, passes the kernel's
    test at pixel (k,j,i) and therefore keeps the pixel from being NaN"""
    m = core.fresh_int("m", 0)
    core.assume(m < run.n)
    c, sz = run.cell(m)
    pos = sz > 0
    core.assume(pos)
    inside = []
    for d in range(run.ndim):
        inside += [q[d] - c[d] <= sz / 2, c[d] - q[d] <= sz / 2]
    for a in inside:
        core.assume(a)
    base = inside + [pos] + list(win_facts) + run.unit_facts()
    r = m
    index_facts = []
    wit = run.witness(c, sz, q, j, i, k)
    for stage, (mask, count, sel) in enumerate(run.chain):
        keep = SV.lift(snp._to_bool(mask.elem((r,))))
        core.lemma(tag + "preselect%d.keeps_containing_cell" % stage, base + index_facts + core.sqrt_axioms(), keep, witness=wit)
        core.assume(keep)  # proved just above (or reported): continue with the surviving cell
        r_new = sel.rank(r)
        ax = sel.rank.axiom
        in_range = (SV.lift(r) >= 0) & (SV.lift(r) < (run.n if stage == 0 else run.chain[stage - 1][1]))
        prove(tag + "preselect%d.row_in_range" % stage, in_range)
        sel_r = SV.lift(sel(r_new))
        fact = core.conj(sel_r == r, r_new >= 0, r_new < count)
        core.lemma(tag + "preselect%d.selected_row_is_cell" % stage, [ax, in_range, keep], fact)
        index_facts += [sel_r == SV.lift(r), SV.lift(r_new) >= 0, SV.lift(r_new) < SV.lift(count)]
        r = r_new
    sig = run.sigma(r)
    core.lemma(tag + "containing_cell.kernel_row", index_facts, sig == m)
    ax_last = K.last_elim(kc, r, k, j, i)
    passes = kc.contains(r, k, j, i)
    core.lemma(tag + "containing_cell.passes_kernel_test", base + [sig == m], passes)
    h = kc.last(k, j, i)
    rng = core.conj(SV.lift(r) >= 0, SV.lift(r) < SV.lift(kc.ncells))
    core.lemma(tag + "containing_cell.row_in_kernel_range", index_facts + [SV.lift(kc.ncells) == SV.lift(run.nsel)], rng)
    core.lemma(tag + "containing_cell.pixel_not_masked", [ax_last, passes, rng], h >= 0)
    return m


@unit("C03", "map.thin", targets=[K.MAP + ":map", "osyris.plot.direction:get_direction"], uses=["evaluate_on_grid@map"],
      cases=_CASES, replay=NM.replay_c03, max_paths=64)
def map_thin(case):
    run = MapRun(ndim=case["ndim"], direction=case["direction"], window=case["window"], resolution=case["resolution"],
                 layers=case.get("layers", ("scalar",)), operation=case.get("operation"))
    if run.raised is not None:
        # raised "No cells were selected": only when no loaded cell is near the plane
        core.cover("raised_no_cells")
        m = core.fresh_int("m", 0)
        core.assume(m < run.n)
        first = run_first_mask()
        if first is not None:
            mask, count, sel = first
            sel.rank(m)  # ghost: a True position has a rank below the count (which is 0 here)
            prove("raise_only_if_no_cell_near_plane", ~SV.lift(snp._to_bool(mask.elem((m,)))))
        return
    core.cover("mapped")
    j, i, px, py = check_pixel(run)
    prove("returns.x_length", SV.lift(run.out.x.shape[0]) == run.rx)
    prove("returns.y_length", SV.lift(run.out.y.shape[0]) == run.ry)


# ---- real-arithmetic lemmas used for oblique planes (proved once over arbitrary reals, instantiated at the call site) ----
def dot(a, b):
    t = SV.lift(0.0)
    for x, y in zip(a, b):
        t = t + SV.lift(x) * SV.lift(y)
    return t


def cs_instance(a, b):
    """Cauchy-Schwarz: (a.b)^2 <= (a.a)(b.b)"""
    return dot(a, b) * dot(a, b) <= dot(a, a) * dot(b, b)


def sq_abs_instance(t, P):
    """t^2 <= P^2 and P >= 0  =>  -P <= t <= P"""
    return core.implies(core.conj(t * t <= P * P, P >= 0), core.conj(t <= P, -t <= P))


def mul_mono_instance(x, X, y, Y):
    return core.implies(core.conj(x >= 0, x <= X, y >= 0, y <= Y), x * y <= X * Y)


@unit("C03", "lemma.real_arithmetic", targets=[], cases=[{"label": "cauchy_schwarz"}, {"label": "sq_abs"}, {"label": "mul_mono"}], replay=None)
def real_lemmas(case):
    if case["label"] == "cauchy_schwarz":
        a = [core.fresh_real("a%d" % d) for d in range(3)]
        b = [core.fresh_real("b%d" % d) for d in range(3)]
        cr = [a[1] * b[2] - a[2] * b[1], a[2] * b[0] - a[0] * b[2], a[0] * b[1] - a[1] * b[0]]
        prove("lagrange_identity", dot(a, a) * dot(b, b) - dot(a, b) * dot(a, b) == dot(cr, cr))
        prove("cauchy_schwarz", cs_instance(a, b))
    elif case["label"] == "sq_abs":
        t, P = core.fresh_real("t"), core.fresh_real("P")
        prove("sq_abs", sq_abs_instance(t, P))
    else:
        x, X, y, Y = [core.fresh_real(k) for k in ("x", "X", "y", "Y")]
        prove("mul_mono", mul_mono_instance(x, X, y, Y))


def use(fact, note):
    core.cur().add(core.bterm(fact))
    core.note(note)
    return fact


def kernel_pre_oblique(run, kc, j, i, tag="", k=0, Zpos=None):
    """the kernel's precondition at the call site for an arbitrary orthonormal basis: pixel centres projected on u, v
    sit on the kernel's grid; a cell passing the test is within half-diagonal of the pixel along u and v
    (Cauchy-Schwarz); the plane itself for the depth axis"""
    kw = kc.kw
    note = "instances of C03.lemma.real_arithmetic / lemma.footprint_axis asserted for the kernel precondition"
    n = core.fresh_int("cell_any", 0)
    core.assume(n < kc.ncells)
    u, v, nn = run.basis()
    ortho = [dot(u, u) == 1, dot(v, v) == 1, dot(nn, nn) == 1, dot(u, v) == 0, dot(u, nn) == 0, dot(v, nn) == 0]
    snp.reveal_linspace(i)
    snp.reveal_linspace(j)
    if Zpos is not None:
        snp.reveal_linspace(k)
    gp = [SV.lift(kc.gp.elem((k, j, i, d))) for d in range(3)]
    og = [SV.lift(kc.orig[d].elem((n,))) for d in range(3)]
    size = SV.lift(kw["cell_sizes"].elem((n,)))
    r3 = core.sqrt(3)
    half = size * r3
    delta = [gp[d] - og[d] for d in range(3)]
    passes = kc.contains(n, k, j, i)
    inst = []
    facts = []
    # the pixel centre in the kernel's length unit (the window width): gp_d = Xk u_d + Yk v_d (+ Zk n_d)
    Wk = SV.lift(run.win.magnitude)
    Xk, Yk = SV.lift(run.out.x.elem((i,))) / Wk, SV.lift(run.out.y.elem((j,))) / Wk
    Zk = (SV.lift(Zpos) / Wk) if Zpos is not None else None
    P = []
    for d in range(3):
        Pd = gp[d] == (Xk * u[d] + Yk * v[d] + (Zk * nn[d] if Zk is not None else 0))
        core.lemma(tag + "kernel_pre.oblique.pixel_position[%d]" % d, run.unit_facts(), Pd)
        P.append(Pd)
    axes = [("x", u, i, Xk), ("y", v, j, Yk)] + ([("z", nn, k, Zk)] if Zk is not None else [])
    for cname, axis, idx, own in axes:
        lo, sp = SV.lift(kw["grid_lower_edge_in_new_basis_" + cname]), SV.lift(kw["grid_spacing_in_new_basis_" + cname])
        centre = SV.lift(kw["cell_positions_in_new_basis_" + cname].elem((n,)))
        g = dot(gp, axis)
        # gp = (x_i u + y_j v + 0 n)/dx  =>  gp.axis = x_i/dx (orthonormality), which is a point of the kernel's grid
        Q = g == Xk * dot(u, axis) + Yk * dot(v, axis) + (Zk * dot(nn, axis) if Zk is not None else 0)
        core.lemma(tag + "kernel_pre.oblique.projection_expansion." + cname, P, Q)
        R = g == own
        core.lemma(tag + "kernel_pre.oblique.projection." + cname, [Q] + ortho, R)
        S = core.conj(own == lo + (SV.lift(idx) + 0.5) * sp, sp > 0)
        core.lemma(tag + "kernel_pre.oblique.pixel_coordinate_on_grid." + cname, run.unit_facts() + run.extent_facts(), S)
        on_grid = core.conj(g == lo + (SV.lift(idx) + 0.5) * sp, sp > 0)
        core.lemma(tag + "kernel_pre.oblique.pixel_on_kernel_grid." + cname, [R, S], on_grid)
        proj = centre == dot(og, axis)
        prove(tag + "kernel_pre.oblique.projected_centre." + cname, proj)
        # |delta.axis| <= |delta| <= size*sqrt3 when every |delta_d| <= size
        dd = dot(delta, delta) <= half * half
        core.lemma(tag + "kernel_pre.oblique.offset_norm_bound." + cname, [passes, size >= 0] + core.sqrt_axioms(), dd) if False else None
        cs = use(cs_instance(delta, axis), note)
        t = dot(delta, axis)
        sa = use(sq_abs_instance(t, half), note)
        fa = use(footprint_axis(g, lo, sp, idx, centre, half, half), note)
        inst += [cs, sa, fa]
        facts += [on_grid, proj]
    extra = []
    if Zk is None:
        # depth axis of a thin map: the plane itself
        lo, sp = SV.lift(kw["grid_lower_edge_in_new_basis_z"]), SV.lift(kw["grid_spacing_in_new_basis_z"])
        gz = dot(gp, nn)
        zfact = core.conj(gz == 0, lo == 0, sp > 0)
        core.lemma(tag + "kernel_pre.oblique.pixel_on_kernel_grid.z", ortho + run.unit_facts() + run.extent_facts(), zfact)
        projz = SV.lift(kw["cell_positions_in_new_basis_z"].elem((n,))) == dot(og, nn)
        prove(tag + "kernel_pre.oblique.projected_centre.z", projz)
        csz = use(cs_instance(delta, nn), note)
        saz = use(sq_abs_instance(dot(delta, nn), half), note)
        extra = [zfact, projz, csz, saz]
    # under the containment test: every |delta_d| <= size, hence |delta|^2 <= 3 size^2 = half^2
    goal = footprint_pre(kw, n, (k, j, i), 3)
    dd = core.implies(passes, core.conj(dot(delta, delta) <= half * half, size >= 0))
    core.lemma(tag + "kernel_pre.oblique.offset_norm_bound", core.sqrt_axioms(), dd)
    core.lemma(tag + "kernel_pre.footprint", facts + inst + extra + [dd] + ortho[:3] + core.sqrt_axioms(), goal)


def complete_oblique(run, kc, j, i, q, px, py, win_facts, tag="", k=0, Z=None, z_facts=()):
    """completeness for an arbitrary orthonormal basis: the pre-selection bounds follow from Cauchy-Schwarz and the
    triangle inequality, spelled out as instances of the three real-arithmetic lemmas"""
    u, v, nn = run.basis()
    b_ = run.abstract_basis
    m = core.fresh_int("m", 0)
    core.assume(m < run.n)
    c, sz = run.cell(m)
    core.assume(sz > 0)
    inside = []
    for d in range(3):
        inside += [q[d] - c[d] <= sz / 2, c[d] - q[d] <= sz / 2]
    for a in inside:
        core.assume(a)
    ortho = [dot(u, u) == 1, dot(v, v) == 1, dot(nn, nn) == 1, dot(u, v) == 0, dot(u, nn) == 0, dot(v, nn) == 0]
    for qq, f in enumerate(ortho):
        prove(tag + "basis.orthonormal[%d]" % qq, f)  # from the contract of VectorBasis (normal is non-zero)
    a = [c[d] - q[d] for d in range(3)]
    r3 = core.sqrt(3)
    A = r3 * sz / 2
    note = "instances of C03.lemma.real_arithmetic asserted for the pre-selection bounds"
    # |a|^2 <= 3 (s/2)^2
    aa = core.lemma(tag + "oblique.offset_norm_bound", inside + [sz > 0] + core.sqrt_axioms(), dot(a, a) <= A * A)
    cs_an = use(cs_instance(a, nn), note)
    t = dot(a, nn)
    sa = use(sq_abs_instance(t, A), note)
    bound0 = core.conj(t <= A, -t <= A)
    core.lemma(tag + "oblique.normal_offset_bound", [dot(a, a) <= A * A, cs_an, sa, dot(nn, nn) == 1, sz > 0] + core.sqrt_axioms(), bound0)
    # stage 0: |(c - o).n| = |a.n + (q - o).n| = |a.n|
    mask0, count0, sel0 = run.chain[0]
    keep0 = SV.lift(snp._to_bool(mask0.elem((m,))))
    # (thick maps: the sample is z_k off the plane, |z_k| <= dz/2, and the slab distance carries the extra dz/2)
    e0 = [c[d] - run.origin_comp(d) for d in range(3)]
    X0, Y0 = SV.lift(px), SV.lift(py)
    Z0 = SV.lift(Z) if Z is not None else SV.lift(0.0)
    en_expand = dot(e0, nn) == dot(a, nn) + X0 * dot(u, nn) + Y0 * dot(v, nn) + Z0 * dot(nn, nn)
    core.lemma(tag + "oblique.normal_distance.expansion", [], en_expand)
    en_val = dot(e0, nn) == dot(a, nn) + Z0
    core.lemma(tag + "oblique.normal_distance", [en_expand] + ortho, en_val)
    core.lemma(tag + "preselect0.keeps_containing_cell", [bound0, en_val] + list(z_facts) + run.unit_facts() + core.sqrt_axioms(), keep0)
    core.assume(keep0)
    r1 = sel0.rank(m)
    ax0 = sel0.rank.axiom
    in_range0 = (SV.lift(m) >= 0) & (SV.lift(m) < run.n)
    sel_r = SV.lift(sel0(r1))
    fact0 = core.conj(sel_r == m, r1 >= 0, r1 < count0)
    core.lemma(tag + "preselect0.selected_row_is_cell", [ax0, in_range0, keep0], fact0)
    index_facts = [sel_r == SV.lift(m), SV.lift(r1) >= 0, SV.lift(r1) < SV.lift(count0)]
    # stage 1: |c - o| <= |c - q| + |q - o| <= (sqrt3/2) s + 0.6 sqrt3 max(window)
    X, Y = SV.lift(px), SV.lift(py)
    W = SV.lift(run.win.magnitude)
    Wy = SV.lift(run.win_y.magnitude) if hasattr(run, "win_y") else W
    c06 = SV.lift(0.6)  # the code's constant (a double, slightly below 3/5)
    inx, iny = win_facts[0], win_facts[1]
    sqx = core.lemma(tag + "oblique.x_square_bound", [inx, W > 0], X * X <= (W / 2) * (W / 2))
    sqy = core.lemma(tag + "oblique.y_square_bound", [iny, Wy > 0], Y * Y <= (Wy / 2) * (Wy / 2))
    if Z is None:
        Wz = W  # thin maps: dz = dx in the code's max(dx, dy, dz)
        M = core.ite(W > Wy, W, Wy)
        B = M * c06 * r3
        b = [X * u[d] + Y * v[d] for d in range(3)]
        bb_eq = dot(b, b) == X * X + Y * Y
        expand = dot(b, b) == X * X * dot(u, u) + 2 * X * Y * dot(u, v) + Y * Y * dot(v, v)
        core.lemma(tag + "oblique.inplane_norm.expansion", [], expand)  # a polynomial identity
        core.lemma(tag + "oblique.inplane_norm", [expand] + ortho[:2] + [ortho[3]], bb_eq)
        win_sq = (W / 2) * (W / 2) + (Wy / 2) * (Wy / 2) <= B * B
        core.lemma(tag + "oblique.window_bound", [W > 0, Wy > 0] + core.sqrt_axioms(), win_sq)
        bb = dot(b, b) <= B * B
        core.lemma(tag + "oblique.inplane_bound", [bb_eq, X * X <= (W / 2) * (W / 2), Y * Y <= (Wy / 2) * (Wy / 2), win_sq], bb)
    else:
        Wz = SV.lift(run.to_pos_unit(run.dz.magnitude))
        Mxy = core.ite(W > Wy, W, Wy)
        M = core.ite(Mxy > Wz, Mxy, Wz)
        B = M * c06 * r3
        b = [X * u[d] + Y * v[d] + Z * nn[d] for d in range(3)]
        bb_eq = dot(b, b) == X * X + Y * Y + Z * Z
        expand = dot(b, b) == (X * X * dot(u, u) + Y * Y * dot(v, v) + Z * Z * dot(nn, nn) + 2 * X * Y * dot(u, v) + 2 * X * Z * dot(u, nn)
                               + 2 * Y * Z * dot(v, nn))
        core.lemma(tag + "oblique.sample_offset_norm.expansion", [], expand)
        core.lemma(tag + "oblique.sample_offset_norm", [expand] + ortho, bb_eq)
        inz = z_facts[0]
        core.lemma(tag + "oblique.z_square_bound", [inz, Wz > 0], Z * Z <= (Wz / 2) * (Wz / 2))
        win_sq = (W / 2) * (W / 2) + (Wy / 2) * (Wy / 2) + (Wz / 2) * (Wz / 2) <= B * B
        core.lemma(tag + "oblique.window_bound", [W > 0, Wy > 0, Wz > 0] + core.sqrt_axioms(), win_sq)
        bb = dot(b, b) <= B * B
        core.lemma(tag + "oblique.sample_offset_bound", [bb_eq, X * X <= (W / 2) * (W / 2), Y * Y <= (Wy / 2) * (Wy / 2),
                                                         Z * Z <= (Wz / 2) * (Wz / 2), win_sq], bb)
    cs_ab = use(cs_instance(a, b), note)
    mm = use(mul_mono_instance(dot(a, a), A * A, dot(b, b), B * B), note)
    tab = dot(a, b)
    sab = use(sq_abs_instance(tab, A * B), note)
    nonneg = core.conj(dot(a, a) >= 0, dot(b, b) >= 0, A >= 0, B >= 0)
    core.lemma(tag + "oblique.nonneg", [sz > 0, W > 0, Wy > 0, Wz > 0] + core.sqrt_axioms(), nonneg)
    ab_bound = tab <= A * B
    core.lemma(tag + "oblique.cross_term_bound", [cs_ab, mm, sab, nonneg, dot(a, a) <= A * A, bb], ab_bound)
    e = [c[d] - run.origin_comp(d) for d in range(3)]
    ee_eq = dot(e, e) == dot(a, a) + 2 * tab + dot(b, b)
    prove(tag + "oblique.offset_decomposition", ee_eq)
    ee_bound = dot(e, e) <= (A + B) * (A + B)
    core.lemma(tag + "oblique.centre_distance_square_bound", [ee_eq, dot(a, a) <= A * A, ab_bound, bb], ee_bound)
    N = core.sqrt(dot(e, e))
    sN = use(sq_abs_instance(N, A + B), note)
    n_bound = N <= A + B
    core.lemma(tag + "oblique.centre_distance_bound", [ee_bound, sN, nonneg] + core.sqrt_axioms(), n_bound)
    mask1, count1, sel1 = run.chain[1]
    keep1 = SV.lift(snp._to_bool(mask1.elem((r1,))))
    core.lemma(tag + "preselect1.keeps_containing_cell", [n_bound] + index_facts + run.unit_facts() + core.sqrt_axioms(), keep1)
    core.assume(keep1)
    r2 = sel1.rank(r1)
    ax1 = sel1.rank.axiom
    in_range1 = (SV.lift(r1) >= 0) & (SV.lift(r1) < SV.lift(count0))
    sel_r1 = SV.lift(sel1(r2))
    fact1 = core.conj(sel_r1 == r1, r2 >= 0, r2 < count1)
    core.lemma(tag + "preselect1.selected_row_is_cell", [ax1, in_range1, keep1], fact1)
    index_facts += [sel_r1 == SV.lift(r1), SV.lift(r2) >= 0, SV.lift(r2) < SV.lift(count1)]
    sig = run.sigma(r2)
    core.lemma(tag + "containing_cell.kernel_row", index_facts, sig == m)
    ax_last = K.last_elim(kc, r2, k, j, i)
    passes = kc.contains(r2, k, j, i)
    # the kernel works in units of the window width: (argument * width) is the position-unit quantity
    Wd = SV.lift(run.to_pos_unit(run.win.magnitude))
    gpk = [SV.lift(kc.gp.elem((k, j, i, d))) for d in range(3)]
    ogk = [SV.lift(kc.orig[d].elem((r2,))) for d in range(3)]
    szk = SV.lift(kc.sizes.elem((r2,)))
    rel = []
    for d in range(3):
        Ed = gpk[d] * Wd == q[d] - run.origin_comp(d)
        core.lemma(tag + "containing_cell.kernel_units.pixel[%d]" % d, run.unit_facts(), Ed)
        Fd = ogk[d] * Wd == c[d] - run.origin_comp(d)
        core.lemma(tag + "containing_cell.kernel_units.centre[%d]" % d, [sig == m] + index_facts + run.unit_facts(), Fd)
        rel += [Ed, Fd]
    G = szk * Wd == sz / 2
    core.lemma(tag + "containing_cell.kernel_units.size", [sig == m] + index_facts + run.unit_facts(), G)
    core.lemma(tag + "containing_cell.passes_kernel_test", inside + rel + [G, Wd > 0], passes, opaque=gpk + ogk + [szk])
    h = kc.last(k, j, i)
    rng = core.conj(SV.lift(r2) >= 0, SV.lift(r2) < SV.lift(kc.ncells))
    core.lemma(tag + "containing_cell.row_in_kernel_range", index_facts + [SV.lift(kc.ncells) == SV.lift(run.nsel)], rng)
    core.lemma(tag + "containing_cell.pixel_not_masked", [ax_last, passes, rng], h >= 0)
    return m


@unit("C03", "map.thin.oblique", targets=[K.MAP + ":map", "osyris.plot.direction:get_direction"],
      uses=["evaluate_on_grid@map", "VectorBasis@direction"],
      cases=[{"label": "3d,normal_vector,dx_same_unit,res_int", "ndim": 3, "direction": "vector", "window": "same_unit", "resolution": "int"}],
      replay=NM.replay_c03, max_paths=64)
def map_oblique(case):
    """arbitrary normal vector: the basis is VectorBasis(n=normal) by its contract (orthonormal, C18)"""
    run = MapRun(ndim=3, direction="vector", window=case["window"], resolution=case["resolution"])
    if run.raised is not None:
        core.cover("raised_no_cells")
        return
    core.cover("mapped")
    check_pixel(run, oblique=True)


def run_first_mask():
    for mask, count, sel in snp.ROWMAP_LOG:
        if mask.ndim == 1:
            return mask, count, sel
    return None


# --------------------------------------------------------------------------------------
# the numba kernel against its contract
# --------------------------------------------------------------------------------------
KSPEC = [None]


class KernelSpec:
    """ghost vocabulary of evaluate_on_grid: contains(n, pixel) is the kernel's own test, L(n, pixel) the last cell
    below n that passes it (-1 if none), defined by  L(0)=-1,  L(n+1) = n if contains(n) else L(n)"""

    def __init__(self, kw):
        self.kc = K.KernelCall(kw)
        self.r = None  # Skolem cell of the ghost facts

    def L(self, n, P):
        return SV(K.LAST(core.term(SV.lift(n)), *[core.term(SV.lift(x)) for x in P]), "i")

    def define(self, n, P):
        """instantiate the recursive definition at n (and the base case)"""
        p = core.cur()
        kc = self.kc
        p.add(self.L(0, P).t == -1)
        nn = SV.lift(n)
        p.add(z3.Implies(nn.t >= 0, self.L(nn + 1, P).t == z3.If(core.bterm(kc.contains(nn, *P)), nn.t, self.L(nn, P).t)))

    def value(self, n, idx):
        l, P = idx[0], idx[1:]
        self.define(n, P)
        h = self.L(n, P)
        return snp.MaybeNaN(h < 0, SV.lift(self.kc.values.elem((l, h))))

    def ghost_facts(self, n, P):
        """what the call-site contract assumes about L, as an invariant in n"""
        kc = self.kc
        h = self.L(n, P)
        r = self.r
        return [("last.range", (h >= -1) & (h < SV.lift(n))),
                ("last.passes_test", core.implies(h >= 0, kc.contains(h, *P))),
                ("last.is_last", core.implies(core.conj(r >= 0, r < SV.lift(n), kc.contains(r, *P)), h >= r))]


def _k_scalars(env, n):
    sp = KSPEC[0]
    P = LCK.point["out"][1:]
    sp.define(n, P)
    return sp.ghost_facts(n, P)


LCK = loops.LoopContract("evaluate_on_grid.cells", arrays={"out": lambda env, n: (lambda idx: KSPEC[0].value(n, idx))}, scalars=_k_scalars)
LCK.use_point = True
loader.LOOP_CONTRACTS[(K.PU, "evaluate_on_grid", 0)] = LCK
for _ord, _ax in ((1, 1), (2, 2), (3, 3)):
    loader.LOOP_CONTRACTS[(K.PU, "evaluate_on_grid", _ord)] = loops.PointwiseContract(
        "evaluate_on_grid.pixels%d" % _ord, LCK, "out", _ax, first=(_ord == 1), pixel_axes=(1, 2, 3))


def kernel_inputs(ndim):
    nc = core.fresh_int("ncells", 0)
    nl = core.fresh_int("nl", 1)
    nz, ny, nx = core.fresh_int("nz", 1), core.fresh_int("ny", 1), core.fresh_int("nx", 1)
    kw = {}
    for c in "xyz":
        kw["cell_positions_in_new_basis_" + c] = snp.sym_array("new" + c, (nc,), "float64")
    for d, c in enumerate("xyz"):
        kw["cell_positions_in_original_basis_" + c] = snp.sym_array("orig" + c, (nc,), "float64") if d < ndim else None
    kw["cell_values"] = snp.sym_array("values", (nl, nc), "float64")
    kw["cell_sizes"] = snp.sym_array("sizes", (nc,), "float64")
    for c in "xyz":
        kw["grid_lower_edge_in_new_basis_" + c] = core.fresh_real("lo" + c)
        sp = core.fresh_real("sp" + c)
        core.assume(sp > 0)
        kw["grid_spacing_in_new_basis_" + c] = sp
    kw["grid_positions_in_original_basis"] = snp.sym_array("gp", (nz, ny, nx, 3), "float64")
    kw["ndim"] = ndim
    return kw


def footprint_pre(kw, n, P, ndim):
    """precondition of the kernel (proved at the call site in map()): a cell passing the containment test at a pixel
    has that pixel inside the index box the kernel derives from its projected centre and half-diagonal"""
    kc = K.KernelCall(kw)
    k, j, i = P
    half = SV.lift(kw["cell_sizes"].elem((n,))) * core.sqrt(ndim)
    cl = []
    for c, idx in zip("xyz", (i, j, k)):
        centre = SV.lift(kw["cell_positions_in_new_basis_" + c].elem((n,)))
        lo, sp = kw["grid_lower_edge_in_new_basis_" + c], kw["grid_spacing_in_new_basis_" + c]
        cl.append(((centre - half) - lo) / sp < SV.lift(idx) + 1)
        cl.append(((centre + half) - lo) / sp >= SV.lift(idx))
    return core.implies(kc.contains(n, k, j, i), core.conj(*cl))


@unit("C03", "evaluate_on_grid", targets=[K.PU + ":evaluate_on_grid"], cases=[{"label": "ndim=%d" % d, "ndim": d} for d in (2, 3)],
      replay=NM.replay_kernel, max_paths=400)
def kernel(case):
    pu = M(K.PU)
    kw = kernel_inputs(case["ndim"])
    sp = KSPEC[0] = KernelSpec(kw)
    sp.r = core.fresh_int("r_any")
    snp.BOUNDS_HOOK[0] = A.inbounds_prover()  # numba does not check indices: every access is an obligation
    LCK.fixed_point = None
    orig_index = loops.LoopInstance.index

    def index_with_pre(self, env):
        n = orig_index(self, env)
        if self.c is LCK:
            core.assume(footprint_pre(kw, n, LCK.point["out"][1:], case["ndim"]))  # the kernel's precondition at (n, P)
        return n

    loops.LoopInstance.index = index_with_pre
    try:
        with LCK.on():
            out = pu.evaluate_on_grid(**kw)
    finally:
        loops.LoopInstance.index = orig_index
        snp.BOUNDS_HOOK[0] = None
        snp.WRITE_HOOK[0] = None
    # post-condition at loop exit: exactly what the call-site contract (mapkit) hands to map()
    kc = sp.kc
    N = kc.ncells
    idx = A.skolem_index(out.shape, base="post")
    prove("post.shape", core.conj(out.ndim == 4, SV.lift(out.shape[0]) == SV.lift(kc.values.shape[0]), SV.lift(out.shape[1]) == SV.lift(kc.nz),
                                  SV.lift(out.shape[2]) == SV.lift(kc.ny), SV.lift(out.shape[3]) == SV.lift(kc.nx)))
    prove("post.value", loops._eq(out.elem(idx), sp.value(N, idx)))
    for name, cl in sp.ghost_facts(N, LCK.point["out"][1:]):
        prove("post." + name, cl)


@unit("C03", "evaluate_on_grid.prange", targets=[K.PU + ":evaluate_on_grid"], cases=[{"label": "ndim=3", "ndim": 3}], replay=NM.replay_kernel)
def kernel_race(case):
    """two distinct iterations of the parallel loop write the same pixel only if both cells pass the containment test
    there (a shared face, where the statement allows either value); nothing else is written by an iteration"""
    pu = M(K.PU)
    kw = kernel_inputs(case["ndim"])
    sp = KSPEC[0] = KernelSpec(kw)
    sp.r = core.fresh_int("r_any")
    snp.BOUNDS_HOOK[0] = lambda k, n: None
    out_shape = (kw["cell_values"].shape[0],) + tuple(kw["grid_positions_in_original_basis"].shape[:3])
    P = tuple(core.fresh_int("cell%d" % d, 0) for d in range(4))
    for c, d in zip(P, out_shape):
        core.assume(c < d)
    LCK.fixed_point = {"out": P}
    logs = []
    try:
        for rep in range(2):
            with LCK.on(mode="race"):
                try:
                    pu.evaluate_on_grid(**kw)
                except loops.RaceIterationDone:
                    pass
                logs.append(LCK.race_log[-1] if LCK.race_log else None)
    finally:
        LCK.fixed_point = None
        snp.BOUNDS_HOOK[0] = None
        snp.WRITE_HOOK[0] = None
    if logs[0] is None or logs[1] is None:
        raise core.Undecided("race analysis could not execute one iteration")
    (n1, w1, env1), (n2, w2, env2) = logs
    core.assume(n1 != n2)
    core.cover("two_iterations")
    kc = sp.kc

    def wrote(ws):
        t = SV.lift(False)
        for buf, inv in ws:
            ok, _ = inv(P)
            t = t | SV.lift(ok)
        return t

    a, b = wrote(w1), wrote(w2)
    prove("writes_pixel_only_if_cell_passes_test[1]", core.implies(a, kc.contains(n1, *P[1:])))
    prove("writes_pixel_only_if_cell_passes_test[2]", core.implies(b, kc.contains(n2, *P[1:])))
    prove("conflict_only_on_shared_points", core.implies(a & b, kc.contains(n1, *P[1:]) & kc.contains(n2, *P[1:])))


@bounded("C03", "native", "synthesized AMR tilings (2-D/3-D, 1-3 levels, complete / with holes), random origins, axis letters, axis triples, "
                          "arbitrary normals, windows 0.03-2.5 domain sizes in 3 units or omitted, resolutions 1-24, scalar and vector layers, "
                          "1/4/16 threads: every pixel against an independent point-location oracle (face tolerance 1e-9)")
def native(tier, seed):
    from pyvc import nativerun

    return nativerun.run("contracts.native_map:sweep_c03", tier, seed, timeout=3000)
