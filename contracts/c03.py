"""C03 — A map pixel shows the value of the loaded cell containing its sample point."""
import os

import z3

from pyvc import core
from pyvc.api import M, O, bounded, summary, unit
from pyvc.core import SV, prove
from pyvc.stubs import misc as smisc
from pyvc.stubs import np as snp
from pyvc.stubs import pint as spint

from . import arrays as A
from . import mapkit as K
from . import native_map as NM

LEVEL = "other"
EXPLANATION = ("map() is executed symbolically (real Array/Vector/VectorBasis code, numpy/pint by their assumed contracts) on a mesh "
               "of n arbitrary cells with symbolic centres, sizes, values and units, symbolic origin, window and resolution; the "
               "numba kernel is replaced by its contract (a pixel holds the values of the last cell passing the kernel's containment "
               "test, NaN if none).  Proved for an arbitrary pixel (j,i) and an arbitrary loaded cell m: the arguments handed to the "
               "kernel are the selected cells' centres/half-sizes/values and the pixel's sample point origin + x_i*u + y_j*v; an "
               "unmasked pixel shows the value of a loaded cell that contains the sample point; if cell m contains the sample point "
               "it survives both pre-selections (near the plane, near the window) and the pixel is not masked; mask == NaN; units, "
               "names, pixel-centre coordinates in the unit of dx.  The kernel itself is verified against that contract with loop "
               "contracts (outer loop over cells: inductive 'last hit' invariant; footprint bounds by the Cauchy-Schwarz lemma), "
               "and its prange loop is checked for write conflicts: two cells write the same pixel only when both contain the "
               "sample point, i.e. on a shared face, which the statement allows.")
TRUSTED = ["numpy / pint / numba stubs (pyvc/stubs)", "matplotlib not involved (plot=False)"]
ASSUMPTIONS = ["real arithmetic for floats: 'within rounding' at cell faces is not modelled; exact face points may take either cell",
               "non-overlap of cells is not needed: the pixel shows A loaded cell containing the point"]

AXES3 = {"z": ((1, 0, 0), (0, 1, 0), (0, 0, 1)), "x": ((0, 1, 0), (0, 0, 1), (1, 0, 0)), "y": ((0, 0, 1), (1, 0, 0), (0, 1, 0)),
         "zyx": ((0, 1, 0), (1, 0, 0), (0, 0, 1)), "xzy": ((0, 0, 1), (0, 1, 0), (1, 0, 0))}


class MapRun:
    """one symbolic execution of map() and the vocabulary to talk about it"""

    def __init__(self, ndim=3, direction="z", window="same_unit", resolution="int", layers=("scalar",), thick=None,
                 operation=None, origin="given", layer_kwargs=None, call_kwargs=None, zres=None):
        osy = O()
        self.osy = osy
        self.ndim = ndim
        del K.KCALLS[:]
        del snp.ROWMAP_LOG[:]
        snp.OPAQUE_LINSPACE[0] = True  # pixel-centre formulas are revealed only where a clause is about them
        self.dims, self.ul, self.pos, self.dxc, self.aux, self.data = K.mesh_inputs(ndim=ndim, layers=layers)
        self.n = self.dims.n
        self.layers = [osy.core.Layer(d, aux=self.aux, **((layer_kwargs or {}).get(k, {}))) for k, d in enumerate(self.data)]
        kw = dict(call_kwargs or {})
        self.uw = self.ul
        self.win = None
        if window != "none":
            if window == "other_unit":
                self.uw = spint.sym_unit("uwin", family=self.ul)
            self.win = spint.Quantity(core.fresh_real("win"), self.uw)
            core.assume(self.win.magnitude > 0)
            kw["dx"] = self.win
            if window == "dx_dy":
                self.win_y = spint.Quantity(core.fresh_real("winy"), self.uw)
                core.assume(self.win_y.magnitude > 0)
                kw["dy"] = self.win_y
        self.origin = None
        if origin == "given":
            self.origin = osy.Vector(*[osy.Array(values=core.fresh_real("o" + c), unit=self.ul) for c in "xyz"[:ndim]])
            kw["origin"] = self.origin
        if resolution == "int":
            self.rx = self.ry = core.fresh_int("res", 1)
            kw["resolution"] = self.rx
        elif resolution == "dict":
            self.rx, self.ry = core.fresh_int("rx", 1), core.fresh_int("ry", 1)
            kw["resolution"] = {"x": self.rx, "y": self.ry}
        elif resolution == "dict_x":
            self.rx, self.ry = core.fresh_int("rx", 1), 256
            kw["resolution"] = {"x": self.rx}
        else:
            self.rx = self.ry = 256
        if zres is not None:
            kw["resolution"]["z"] = zres
        self.resolution = kw.get("resolution")
        self.thick = thick
        if thick is not None:
            self.dz = spint.Quantity(core.fresh_real("dz"), self.uw)
            core.assume(self.dz.magnitude > 0)
            kw["dz"] = self.dz
        if operation is not None:
            kw["operation"] = operation
        self.direction = direction
        self.kw = kw
        self.raised = None
        try:
            self.out = M(K.MAP).map(*self.layers, direction=direction, plot=False, **kw)
        except RuntimeError as e:
            self.raised = e
            return
        finally:
            snp.OPAQUE_LINSPACE[0] = False
        self.kc = K.KCALLS[-1]
        # the chain of boolean pre-selections applied to the n loaded cells, in order
        self.chain = []
        size = self.n
        for mask, count, sel in snp.ROWMAP_LOG:
            if mask.ndim == 1 and core.entails(SV.lift(mask.shape[0]) == SV.lift(size)):
                self.chain.append((mask, count, sel))
                size = count
        self.nsel = size

    # ---- vocabulary ------------------------------------------------------------------
    def sigma(self, r):
        """loaded-cell index of the r-th cell handed to the kernel"""
        for mask, count, sel in reversed(self.chain):
            r = sel(r)
        return SV.lift(r)

    def basis(self):
        if self.ndim < 3:
            return (1, 0, 0), (0, 1, 0), (0, 0, 0)
        return AXES3[self.direction]

    def origin_comp(self, d):
        return SV.lift(getattr(self.origin, "xyz"[d])._array.elem(())) if self.origin is not None else SV.lift(0.0)

    def sample(self, xs, ys, zs=0.0):
        """sample point origin + xs*u + ys*v + zs*n in the position unit (xs, ys, zs in that unit)"""
        u, v, nn = self.basis()
        return [self.origin_comp(d) + xs * u[d] + ys * v[d] + zs * nn[d] for d in range(self.ndim)]

    def cell(self, m):
        return [SV.lift(getattr(self.pos, "xyz"[d])._array.elem((m,))) for d in range(self.ndim)], SV.lift(self.dxc._array.elem((m,)))

    def contains(self, m, q):
        c, s = self.cell(m)
        t = SV.lift(True)
        for d in range(self.ndim):
            t = t & (q[d] - c[d] <= s / 2) & (c[d] - q[d] <= s / 2)
        return t

    def pixel(self):
        i, j = core.fresh_int("i", 0), core.fresh_int("j", 0)
        core.assume(i < self.kc.nx)
        core.assume(j < self.kc.ny)
        return j, i

    def unit_facts(self):
        fs = [self.ul.scale > 0]
        if self.uw is not self.ul:
            fs.append(self.uw.scale > 0)
        if self.win is not None:
            fs.append(self.win.magnitude > 0)
        return fs

    def to_pos_unit(self, x):
        """a returned pixel coordinate (unit of dx) expressed in the position unit"""
        if self.uw is self.ul:
            return SV.lift(x)
        return SV.lift(x) * self.uw.scale / self.ul.scale


_CASES = [
    {"label": "3d,z,dx_same_unit,res_int", "ndim": 3, "direction": "z", "window": "same_unit", "resolution": "int"},
    {"label": "3d,x,dx_same_unit,res_dict", "ndim": 3, "direction": "x", "window": "same_unit", "resolution": "dict"},
    {"label": "3d,y,dx_other_unit,res_int", "ndim": 3, "direction": "y", "window": "other_unit", "resolution": "int"},
    {"label": "3d,zyx,dx_dy,res_dict", "ndim": 3, "direction": "zyx", "window": "dx_dy", "resolution": "dict"},
    {"label": "2d,z,dx_same_unit,res_int", "ndim": 2, "direction": "z", "window": "same_unit", "resolution": "int"},
    {"label": "2d,z,dx_other_unit,res_dict", "ndim": 2, "direction": "z", "window": "other_unit", "resolution": "dict"},
]


def check_pixel(run, tag=""):
    """the C03 clauses at an arbitrary pixel of a thin map (one scalar layer per entry of run.data)"""
    kc = run.kc
    prove(tag + "grid.shape", core.conj(SV.lift(kc.nz) == 1, SV.lift(kc.nx) == run.rx, SV.lift(kc.ny) == run.ry))
    prove(tag + "kernel.ncells", SV.lift(kc.ncells) == SV.lift(run.nsel))
    j, i = run.pixel()
    px, py = SV.lift(run.out.x.elem((i,))), SV.lift(run.out.y.elem((j,)))
    xs, ys = run.to_pos_unit(px), run.to_pos_unit(py)
    q = run.sample(xs, ys)
    h = kc.last(0, j, i)
    for k, lay in enumerate(run.out.layers):
        data = lay["data"]
        prove(tag + "layer%d.shape" % k, core.conj(len(data.data.shape) == 2, SV.lift(data.data.shape[0]) == run.ry,
                                                 SV.lift(data.data.shape[1]) == run.rx))
        masked = SV.lift(data.mask.elem((j, i)))
        prove(tag + "layer%d.masked_iff_no_cell_passes" % k, masked == (h < 0))
        v = data.data.elem((j, i))
        v = snp.MaybeNaN.of(v)
        m_hit = run.sigma(h)
        want = SV.lift(run.data[k]._array.elem((m_hit,)))
        prove(tag + "layer%d.unmasked.value_of_hit_cell" % k, core.implies(~masked, core.conj(~SV.lift(v.isnan), SV.lift(v.val) == want)))
        prove(tag + "layer%d.unit" % k, lay["unit"] == run.data[k].unit)
        prove(tag + "layer%d.name" % k, lay["name"] == run.data[k].name)
    m_hit = run.sigma(h)
    prove(tag + "unmasked.hit_cell_is_loaded", core.implies(h >= 0, core.conj(m_hit >= 0, m_hit < run.n)))
    prove(tag + "unmasked.hit_cell_contains_sample_point", core.implies(h >= 0, run.contains(m_hit, q)))
    # completeness: an arbitrary loaded cell that contains the sample point keeps the pixel unmasked
    wf = window_facts(run, j, i, px, py, tag) if run.win is not None else []
    complete(run, kc, j, i, q, wf, 0, tag)
    return j, i, px, py


def abs_le(x, b):
    return (x <= b) & (-x <= b)


def window_facts(run, j, i, px, py, tag=""):
    """pixel centres lie inside the window (lemma from the pixel-centre formula): |x_i| <= dx/2, |y_j| <= dy/2"""
    wx = run.win.magnitude
    wy = run.win_y.magnitude if hasattr(run, "win_y") else wx
    snp.reveal_linspace(i)
    snp.reveal_linspace(j)
    fx = px * run.rx == (i + 0.5) * wx - 0.5 * wx * run.rx
    fy = py * run.ry == (j + 0.5) * wy - 0.5 * wy * run.ry
    prove(tag + "pixel_centre.x", fx)
    prove(tag + "pixel_centre.y", fy)
    inx, iny = abs_le(px, wx / 2), abs_le(py, wy / 2)
    core.lemma(tag + "pixel_centre.x_inside_window", [fx, i >= 0, i < run.rx, wx > 0, SV.lift(run.rx) >= 1], inx)
    core.lemma(tag + "pixel_centre.y_inside_window", [fy, j >= 0, j < run.ry, wy > 0, SV.lift(run.ry) >= 1], iny)
    return [inx, iny, wx > 0, wy > 0]


def complete(run, kc, j, i, q, win_facts, k, tag):
    """an arbitrary loaded cell m that contains the sample point q survives every pre-selection, passes the kernel's
    test at pixel (k,j,i) and therefore keeps the pixel from being NaN"""
    m = core.fresh_int("m", 0)
    core.assume(m < run.n)
    c, sz = run.cell(m)
    pos = sz > 0
    core.assume(pos)
    inside = []
    for d in range(run.ndim):
        inside += [q[d] - c[d] <= sz / 2, c[d] - q[d] <= sz / 2]
    for a in inside:
        core.assume(a)
    base = inside + [pos] + list(win_facts) + run.unit_facts()
    r = m
    index_facts = []
    for stage, (mask, count, sel) in enumerate(run.chain):
        keep = SV.lift(snp._to_bool(mask.elem((r,))))
        core.lemma(tag + "preselect%d.keeps_containing_cell" % stage, base + index_facts + core.sqrt_axioms(), keep)
        core.assume(keep)  # proved just above (or reported): continue with the surviving cell
        r_new = sel.rank(r)
        ax = sel.rank.axiom
        in_range = (SV.lift(r) >= 0) & (SV.lift(r) < (run.n if stage == 0 else run.chain[stage - 1][1]))
        prove(tag + "preselect%d.row_in_range" % stage, in_range)
        sel_r = SV.lift(sel(r_new))
        fact = core.conj(sel_r == r, r_new >= 0, r_new < count)
        core.lemma(tag + "preselect%d.selected_row_is_cell" % stage, [ax, in_range, keep], fact)
        index_facts += [sel_r == SV.lift(r), SV.lift(r_new) >= 0, SV.lift(r_new) < SV.lift(count)]
        r = r_new
    sig = run.sigma(r)
    core.lemma(tag + "containing_cell.kernel_row", index_facts, sig == m)
    ax_last = K.last_elim(kc, r, k, j, i)
    passes = kc.contains(r, k, j, i)
    core.lemma(tag + "containing_cell.passes_kernel_test", base + [sig == m], passes)
    h = kc.last(k, j, i)
    rng = core.conj(SV.lift(r) >= 0, SV.lift(r) < SV.lift(kc.ncells))
    core.lemma(tag + "containing_cell.row_in_kernel_range", index_facts + [SV.lift(kc.ncells) == SV.lift(run.nsel)], rng)
    core.lemma(tag + "containing_cell.pixel_not_masked", [ax_last, passes, rng], h >= 0)
    return m


@unit("C03", "map.thin", targets=[K.MAP + ":map", "osyris.plot.direction:get_direction"], uses=["evaluate_on_grid@map"],
      cases=_CASES, replay=NM.replay_c03, max_paths=64)
def map_thin(case):
    run = MapRun(ndim=case["ndim"], direction=case["direction"], window=case["window"], resolution=case["resolution"])
    if run.raised is not None:
        # raised "No cells were selected": only when no loaded cell is near the plane
        core.cover("raised_no_cells")
        m = core.fresh_int("m", 0)
        core.assume(m < run.n)
        first = run_first_mask()
        if first is not None:
            mask, count, sel = first
            sel.rank(m)  # ghost: a True position has a rank below the count (which is 0 here)
            prove("raise_only_if_no_cell_near_plane", ~SV.lift(snp._to_bool(mask.elem((m,)))))
        return
    core.cover("mapped")
    j, i, px, py = check_pixel(run)
    prove("returns.x_length", SV.lift(run.out.x.shape[0]) == run.rx)
    prove("returns.y_length", SV.lift(run.out.y.shape[0]) == run.ry)


def run_first_mask():
    for mask, count, sel in snp.ROWMAP_LOG:
        if mask.ndim == 1:
            return mask, count, sel
    return None


@bounded("C03", "native", "synthesized AMR tilings (2-D/3-D, 1-3 levels, complete / with holes), random origins, axis letters, axis triples, "
                          "arbitrary normals, windows 0.03-2.5 domain sizes in 3 units or omitted, resolutions 1-24, scalar and vector layers, "
                          "1/4/16 threads: every pixel against an independent point-location oracle (face tolerance 1e-9)")
def native(tier, seed):
    from pyvc import nativerun

    return nativerun.run("contracts.native_map:sweep_c03", tier, seed, timeout=3000)
