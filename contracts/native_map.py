"""Native oracles for map() (C03, C11) and for the frame/option clauses of the plotting functions (C19).
Bounded stand-ins and replays: real numpy/pint/numba/matplotlib, real osyris of $OSYRIS_SRC."""
import copy
import math


# --------------------------------------------------------------------------------------
# meshes
# --------------------------------------------------------------------------------------
def amr_mesh(rng, ndim, levels, p_refine=0.5, p_hole=0.0, n0=2, L=1.0):
    """leaf cells of a random AMR tiling of [0,L]^ndim: centres (N,ndim) and sizes (N,)"""
    import numpy as np

    cells = []

    def rec(c, size, lev):
        if lev < levels and rng.random() < p_refine:
            for off in np.ndindex(*(2,) * ndim):
                rec(c + (np.array(off) - 0.5) * size / 2, size / 2, lev + 1)
        elif rng.random() >= p_hole:
            cells.append((c, size))

    for idx in np.ndindex(*(n0,) * ndim):
        rec((np.array(idx) + 0.5) * L / n0, L / n0, 1)
    if not cells:
        cells.append((np.full(ndim, 0.5 * L / n0), L / n0))
    order = rng.permutation(len(cells))
    C = np.array([cells[k][0] for k in order])
    S = np.array([cells[k][1] for k in order])
    return C, S


def build_layers(C, S, unit, rng, kinds=("scalar",)):
    import numpy as np
    from osyris import Array, Vector
    from osyris.core import Layer

    ndim = C.shape[1]
    pos = Vector(*[Array(C[:, d].copy(), unit=unit) for d in range(ndim)], name="position")
    dx = Array(S.copy(), unit=unit, name="dx")
    aux = {"position": pos, "dx": dx}
    layers, raw = [], []
    for k, kind in enumerate(kinds):
        if kind == "scalar":
            v = rng.uniform(1.0, 2.0, len(S)) + np.arange(len(S))  # all values distinct
            layers.append(Layer(Array(v.copy(), unit="g/cm**3", name="rho%d" % k), aux=aux))
            raw.append(v)
        else:
            v = rng.uniform(-1.0, 1.0, (len(S), ndim)) + 3.0 * np.arange(len(S))[:, None]
            layers.append(Layer(Vector(*[Array(v[:, d].copy(), unit="cm/s") for d in range(ndim)], name="vel%d" % k), aux=aux,
                                mode="vec"))
            raw.append(v)
    return layers, raw, pos, dx


AXIS = {"x": (1.0, 0.0, 0.0), "y": (0.0, 1.0, 0.0), "z": (0.0, 0.0, 1.0)}


def documented_basis(direction):
    """(u, v, n) for axis letters and triples as documented: single letter n with the cyclic successors as u, v;
    three letters: first is the normal, then u, then v"""
    import numpy as np

    if len(direction) == 3:
        n, u, v = (np.array(AXIS[c]) for c in direction)
        return u, v, n
    order = {"x": "yzx", "y": "zxy", "z": "xyz"}[direction]
    u, v, n = (np.array(AXIS[c]) for c in order)
    return u, v, n


def locate(C, S, q, tol):
    """indices of cells containing q strictly (by more than tol) and of cells within tol of containing it"""
    import numpy as np

    d = np.abs(q[None, :] - C)
    strict = np.where(np.all(d < S[:, None] / 2 - tol, axis=1))[0]
    near = np.where(np.all(d <= S[:, None] / 2 + tol, axis=1))[0]
    return strict, near


LEN_UNITS = ["cm", "au", "km"]


def map_case(seed, threads=None, thick=False, force=None):
    """one random map against the point-location oracle; returns None or a dict(what, input)"""
    import numba
    import numpy as np
    import osyris
    from osyris import Array, Vector, units

    rng = np.random.default_rng(seed)
    f = dict(force or {})
    ndim = f.get("ndim", int(rng.choice([2, 3, 3])))
    levels = f.get("levels", int(rng.integers(1, 4)))
    holes = f.get("holes", float(rng.choice([0.0, 0.0, 0.2])))
    pos_unit = f.get("pos_unit", str(rng.choice(LEN_UNITS)))
    L = f.get("L", float(rng.choice([1.0, 4.0, 0.25])))
    C, S = amr_mesh(rng, ndim, levels, p_refine=0.5, p_hole=holes, n0=int(rng.integers(1, 4)), L=L)
    kinds = f.get("kinds", ("scalar", "vector") if rng.random() < 0.3 else ("scalar",))
    if thick:
        kinds = ("scalar",)
    layers, raw, pos, dxa = build_layers(C, S, pos_unit, rng, kinds)
    o = rng.uniform(0.1 * L, 0.9 * L, ndim)
    if rng.random() < 0.2:
        o = C[int(rng.integers(len(S)))].copy()  # a cell centre
    origin = Vector(*[Array(float(x), unit=pos_unit) for x in o])
    win_unit = f.get("win_unit", str(rng.choice(LEN_UNITS + [pos_unit, pos_unit])))
    ratio = float((1.0 * units(pos_unit)).to(win_unit).magnitude)  # position unit -> window unit
    frac = f.get("frac", float(rng.choice([0.03, 0.1, 0.3, 0.6, 1.0, 1.7, 2.5])))
    win = frac * L
    kw = {}
    use_dx = True if thick else f.get("use_dx", rng.random() < 0.85)
    if use_dx:
        kw["dx"] = win * ratio * units(win_unit)
        if "dy_over_dx" in f or rng.random() < 0.25:
            kw["dy"] = float(f.get("dy_over_dx", rng.choice([0.25, 0.5, 2.0, 4.0, 7.0]))) * win * ratio * units(win_unit)
    else:
        win_unit = pos_unit
        ratio = 1.0
    if ndim == 3:
        dkind = f.get("dkind", str(rng.choice(["letter", "letter", "triple", "vector"])))
    else:
        dkind = "letter"
    if dkind == "letter":
        direction = str(rng.choice(["x", "y", "z"])) if ndim == 3 else "z"
        u, v, n = documented_basis(direction) if ndim == 3 else (np.array([1.0, 0, 0]), np.array([0, 1.0, 0]), np.zeros(3))
    elif dkind == "triple":
        direction = "".join(rng.permutation(list("xyz")))
        u, v, n = documented_basis(direction)
    else:
        nv = rng.normal(size=3)
        if "normal" in f:
            nv = np.array(f["normal"], dtype=float)
        elif rng.random() < 0.3:
            nv = np.round(nv * 2)
            if not nv.any():
                nv = np.array([1.0, 1.0, 0.0])
        direction = Vector(*[float(t) for t in nv])
        b = osyris.core.VectorBasis(n=direction)
        u, v, n = (np.array([float(w.x.values), float(w.y.values), float(w.z.values)]) for w in (b.u, b.v, b.n))
        # the basis itself is C18's business; the oracle only needs it orthonormal with the requested normal
        if abs(np.linalg.norm(np.cross(n, nv / np.linalg.norm(nv)))) > 1e-9:
            return {"what": "VectorBasis normal is not the requested direction", "input": {"seed": seed}}
    res = f.get("res", int(rng.choice([1, 2, 3, 7, 16, 24])))
    resolution = res if rng.random() < 0.6 else {"x": res, "y": int(rng.choice([1, 4, 9]))}
    op = None
    if not thick and rng.random() < 0.2:
        kw["operation"] = str(rng.choice(["nansum", "mean", "nanmax", "min"]))  # no depth: must not matter
    if thick:
        dzf = f.get("dzfrac", float(rng.choice([0.02, 0.1, 0.3, 1.0])))
        op = f.get("op", str(rng.choice(["sum", "mean", "min", "max", "nansum", "nanmean", "nanmin", "nanmax"])))
        kw["operation"] = op
        if isinstance(resolution, dict) and rng.random() < 0.5:
            resolution["z"] = int(rng.choice([1, 2, 5]))
        else:
            # the statement quantifies over dz of at least one pixel when the depth resolution is derived from it
            nxx = resolution["x"] if isinstance(resolution, dict) else resolution
            nyy = resolution["y"] if isinstance(resolution, dict) else resolution
            wyy = float(kw["dy"].magnitude) / ratio if "dy" in kw else win
            pixel = 0.5 * (win / nxx + wyy / nyy)
            dzf = max(dzf, 1.01 * pixel / L)
        kw["dz"] = dzf * L * ratio * units(win_unit)
        desc_dz = dzf
    desc = {"seed": seed, "ndim": ndim, "ncells": int(len(S)), "levels": levels, "direction": str(direction) if dkind != "vector" else
            [float(t) for t in nv], "window/L": frac if use_dx else None, "resolution": copy.deepcopy(resolution), "threads": threads,
            "pos_unit": pos_unit, "win_unit": win_unit, "layers": list(kinds), "dz/L": (desc_dz if thick else None),
            "operation": op}
    if threads:
        numba.set_num_threads(min(threads, numba.config.NUMBA_NUM_THREADS))
    try:
        p = osyris.map(*layers, direction=direction, origin=origin, resolution=copy.deepcopy(resolution), plot=False, **kw)
    except RuntimeError as e:
        if "No cells were selected" not in str(e):
            raise
        p = None
    finally:
        if threads:
            numba.set_num_threads(numba.config.NUMBA_NUM_THREADS)
    tol = 1e-9 * L
    o3 = np.zeros(3)
    o3[:ndim] = o
    C3 = np.zeros((len(S), 3))
    C3[:, :ndim] = C
    if ndim == 2:  # third axis unconstrained
        C3 = C3[:, :2]
    if p is None:
        # nothing drawn: legitimate only if no cell contains any point of the window's plane region; probe a grid
        if not use_dx:
            return {"what": "RuntimeError 'No cells' although dx was omitted", "input": desc}
        probe = np.linspace(-0.5 * win, 0.5 * win, 9)
        for a in probe:
            for b in probe:
                q = (o3 + a * u + b * v)[: (2 if ndim == 2 else 3)]
                strict, _ = locate(C3, S, q, tol)
                if len(strict):
                    return {"what": "RuntimeError 'No cells were selected' but cell %d contains the window point (%.4g, %.4g)"
                                    % (strict[0], a, b), "input": desc}
        return None
    nx = resolution["x"] if isinstance(resolution, dict) else resolution
    ny = resolution["y"] if isinstance(resolution, dict) else resolution
    if len(p.x) != nx or len(p.y) != ny:
        return {"what": "returned %d x %d pixel centres for resolution %s" % (len(p.x), len(p.y), resolution), "input": desc}
    if use_dx:
        wx = win * ratio
        wy = float(kw["dy"].magnitude) if "dy" in kw else wx
        ex = -0.5 * wx + (np.arange(nx) + 0.5) * wx / nx
        ey = -0.5 * wy + (np.arange(ny) + 0.5) * wy / ny
        if not (np.allclose(p.x, ex, rtol=1e-9, atol=1e-12 * wx) and np.allclose(p.y, ey, rtol=1e-9, atol=1e-12 * wy)):
            return {"what": "pixel centres are not the centred even grid over the window: x=%s expected %s" % (p.x[:3], ex[:3]), "input": desc}
    if not thick:
        return _check_thin(p, kinds, raw, C3, S, o3, u, v, ratio, ndim, tol, desc)
    return _check_thick(p, raw[0], C3, S, o3, u, v, n, ratio, ndim, tol, desc, kw, op, resolution, layers, pos_unit)


def _check_thin(p, kinds, raw, C3, S, o3, u, v, ratio, ndim, tol, desc):
    import numpy as np

    nd = 2 if ndim == 2 else 3
    for k, kind in enumerate(kinds):
        data = p.layers[k]["data"]
        for j, y in enumerate(p.y):
            for i, x in enumerate(p.x):
                q = (o3 + (x / ratio) * u + (y / ratio) * v)[:nd]
                strict, near = locate(C3, S, q, tol)
                if kind == "scalar":
                    masked = bool(np.ma.getmaskarray(data)[j, i])
                    val = None if masked else float(np.ma.getdata(data)[j, i])
                else:
                    mk = np.ma.getmaskarray(data)[j, i]
                    masked = bool(np.all(mk))
                    val = None if masked else np.ma.getdata(data)[j, i]
                where = "layer %d (%s) pixel (j=%d,i=%d) sample point %s" % (k, kind, j, i, np.round(q, 6).tolist())
                if masked:
                    if len(strict):
                        c = strict[0]
                        return {"what": "%s is masked but lies inside loaded cell %d (centre %s, size %.4g)"
                                        % (where, c, np.round(C3[c], 6).tolist(), S[c]), "input": desc}
                    continue
                if len(near) == 0:
                    return {"what": "%s shows %s but no loaded cell contains the point" % (where, val), "input": desc}
                if kind == "scalar":
                    if not any(val == raw[k][c] for c in near):
                        return {"what": "%s shows %r, the containing cell(s) %s hold %s" % (where, val, near.tolist(),
                                                                                           [float(raw[k][c]) for c in near]), "input": desc}
                else:
                    ok = False
                    for c in near:
                        vec = np.zeros(3)
                        vec[:ndim] = raw[k][c]
                        pu, pv = (vec @ u, vec @ v) if ndim == 3 else (vec[0], vec[1])
                        exp = np.array([pu, pv, math.hypot(pu, pv)])
                        if np.allclose(val, exp, rtol=1e-9, atol=1e-12):
                            ok = True
                    if not ok:
                        return {"what": "%s shows %s, not the projection of the containing cell's vector" % (where, val), "input": desc}
    return None


def _check_thick(p, vals, C3, S, o3, u, v, n, ratio, ndim, tol, desc, kw, op, resolution, layers, pos_unit):
    import numpy as np
    from osyris import units

    nd = 2 if ndim == 2 else 3
    dz = float(kw["dz"].magnitude) / ratio  # position unit
    nx, ny = len(p.x), len(p.y)
    xs = (p.x[1] - p.x[0]) / ratio if nx > 1 else float(kw["dx"].magnitude) / ratio / nx
    wy = float(kw["dy"].magnitude) if "dy" in kw else float(kw["dx"].magnitude)
    xsp = float(kw["dx"].magnitude) / ratio / nx
    ysp = wy / ratio / ny
    if isinstance(resolution, dict) and "z" in resolution:
        nz = resolution["z"]
    else:
        nz = int(round(dz / (0.5 * (xsp + ysp))))
        if nz < 1:
            return None  # the statement quantifies over dz of at least one pixel
        # a tie (exactly .5) may round either way
        if abs(dz / (0.5 * (xsp + ysp)) - math.floor(dz / (0.5 * (xsp + ysp))) - 0.5) < 1e-9:
            return None
    zc = -0.5 * dz + (np.arange(nz) + 0.5) * dz / nz
    data = p.layers[0]["data"]
    fn = getattr(np, op)
    unit = p.layers[0]["unit"]
    base = units("g/cm**3")
    want_unit = base * units(pos_unit) if op in ("sum", "nansum") else base
    if not (unit == want_unit or (1.0 * unit).to(want_unit).magnitude == 1.0 and unit.dimensionality == want_unit.dimensionality):
        return {"what": "thick map with operation %s has unit %s, expected %s" % (op, unit, want_unit), "input": desc}
    import warnings

    for j, y in enumerate(p.y):
        for i, x in enumerate(p.x):
            col, ambiguous = [], False
            for z in zc:
                q = (o3 + (x / ratio) * u + (y / ratio) * v + z * n)[:nd]
                strict, near = locate(C3, S, q, tol)
                if len(strict) != len(near):
                    ambiguous = True
                    break
                col.append(vals[strict[0]] if len(strict) else np.nan)
            if ambiguous:
                continue
            with warnings.catch_warnings():
                warnings.simplefilter("ignore")
                exp = fn(np.array(col))
            if op in ("sum", "nansum"):
                exp = exp * dz / nz
            masked = bool(np.ma.getmaskarray(data)[j, i])
            got = np.nan if masked else float(np.ma.getdata(data)[j, i])
            if np.isnan(exp) != np.isnan(got) or (not np.isnan(exp) and not math.isclose(exp, got, rel_tol=1e-9, abs_tol=1e-300)):
                return {"what": "pixel (j=%d,i=%d): %s over %d depth samples %s gives %r, map shows %s"
                                % (j, i, op, nz, ["%.4g" % c for c in col[:6]], float(exp), "masked" if masked else repr(got)),
                        "input": desc}
    return None


def _first_failure(cases, label):
    for name, fn in cases:
        try:
            r = fn()
        except Exception as e:  # an exception in the code under test is a finding of the oracle run, reported with its input
            import traceback

            r = {"what": "exception %r at %s" % (e, traceback.format_exc(limit=3).splitlines()[-2].strip()), "input": {"case": name}}
        if r:
            return r
    return None


def vector_unit_case(unit):
    """vector layer in the given unit on a fixed small mesh: projections must be the cell's components"""
    import numpy as np
    import osyris
    from osyris import Array, Vector, units
    from osyris.core import Layer

    rng = np.random.default_rng(3)
    C, S = amr_mesh(rng, 3, 1, n0=2)
    pos = Vector(*[Array(C[:, d].copy(), unit="cm") for d in range(3)])
    dx = Array(S.copy(), unit="cm")
    vals = rng.uniform(1, 2, (len(S), 3))
    vec = Vector(*[Array(vals[:, d].copy(), unit=unit) for d in range(3)], name="v")
    o = np.array([0.47, 0.53, 0.41])
    p = osyris.map(Layer(vec, aux={"position": pos, "dx": dx}, mode="vec"), direction="y", dx=0.9 * units("cm"),
                   origin=Vector(*[Array(float(x), unit="cm") for x in o]), resolution=2, plot=False)
    u, v, n = documented_basis("y")
    for j, y in enumerate(p.y):
        for i, x in enumerate(p.x):
            q = o + x * u + y * v
            strict, near = locate(C, S, q, 1e-9)
            if len(strict) != 1:
                continue
            w = vals[strict[0]]
            exp = np.array([w @ u, w @ v, math.hypot(w @ u, w @ v)])
            got = np.ma.getdata(p.layers[0]["data"])[j, i]
            if not np.allclose(got, exp, rtol=1e-9) or str(p.layers[0]["unit"]) != str(units(unit).units if hasattr(units(unit), "units") else units(unit)):
                return {"what": "vector layer in '%s': pixel (j=%d,i=%d) shows %s %s, the containing cell's projection is %s %s"
                                % (unit, j, i, got.tolist(), p.layers[0]["unit"], exp.tolist(), unit), "input": {"vector_unit": unit, "direction": "y"}}
    return None


def sweep_c03(tier, seed):
    n = 140 if tier == "quick" else 2500
    viol, cases = [], 0
    for un, name in (("cm/s", "C03.native.map.vector_unit"), ("cm/m", "C03.native.map.vector_scaled_dimensionless_unit")):
        cases += 1
        try:
            r = vector_unit_case(un)
        except Exception as e:
            r = {"what": "exception %r" % (e,), "input": {"vector_unit": un}}
        if r:
            viol.append({"name": name, "input": r["input"], "observed": r["what"]})
    for s in range(n):
        cases += 1
        th = (1, 4, 16)[s % 3]
        try:
            r = map_case(seed * 1000003 + s, threads=th)
        except Exception as e:
            import traceback

            r = {"what": "exception %r (%s)" % (e, traceback.format_exc(limit=2).splitlines()[-2].strip()), "input": {"seed": seed * 1000003 + s}}
        if r:
            viol.append({"name": "C03.native.map", "input": r["input"], "observed": r["what"]})
            break
    # small windows / few cells: the regime where pre-selection matters
    for s in range(n // 2):
        cases += 1
        try:
            r = map_case(seed * 7919 + s, threads=None, force={"frac": [0.03, 0.1, 0.3][s % 3], "levels": 1 + s % 2, "use_dx": True})
        except Exception as e:
            r = {"what": "exception %r" % (e,), "input": {"seed": seed * 7919 + s}}
        if r:
            viol.append({"name": "C03.native.map.small_window", "input": r["input"], "observed": r["what"]})
            break
    # oblique planes at fine resolution, cells spanning many pixels: the kernel's per-cell pixel box must cover the cell
    normals = [(1, -1, 0), (1, 0, 1), (1, 2, 3), (0.3, -0.2, 1), (1, 1, 1), (-2, 1, 0.5)]
    for s in range(len(normals) if tier == "quick" else 60):
        cases += 1
        try:
            r = map_case(seed * 97 + s, threads=(16, 1)[s % 2], force={"ndim": 3, "dkind": "vector", "normal": normals[s % len(normals)], "res": 48,
                                                                      "levels": 1 + s % 2, "frac": 0.9, "use_dx": True, "kinds": ("scalar",)})
        except Exception as e:
            r = {"what": "exception %r" % (e,), "input": {"seed": seed * 97 + s}}
        if r:
            viol.append({"name": "C03.native.map.oblique_fine", "input": r["input"], "observed": r["what"]})
            break
    # tall / wide windows (dy != dx): the window pre-selection must use the larger extent
    for s in range(n // 4):
        cases += 1
        try:
            r = map_case(seed * 31337 + s, force={"use_dx": True, "dy_over_dx": [6.0, 0.15, 3.0, 9.0][s % 4], "frac": [0.1, 1.0, 0.3, 0.06][s % 4],
                                                  "levels": 1 + s % 3})
        except Exception as e:
            r = {"what": "exception %r" % (e,), "input": {"seed": seed * 31337 + s}}
        if r:
            viol.append({"name": "C03.native.map.tall_window", "input": r["input"], "observed": r["what"]})
            break
    return {"status": "violation" if viol else "ok", "cases": cases, "distinct": cases, "violations": viol,
            "samples": [{"seed": seed * 1000003}], "kind": "bounded-native"}


def thick_vector_case(seed):
    """thick map with a vector layer next to a scalar layer, each with its own reduction: every row (u, v, |uv|) of the
    vector layer and the scalar layer against the column oracle, incl. the depth-step factor and the units"""
    import warnings

    import numba
    import numpy as np
    import osyris
    from osyris import Array, Vector, units
    from osyris.core import Layer

    rng = np.random.default_rng(seed)
    numba.set_num_threads(1)
    C, S = amr_mesh(rng, 3, 2, n0=2)
    pos = Vector(*[Array(C[:, d].copy(), unit="cm") for d in range(3)])
    aux = {"position": pos, "dx": Array(S.copy(), unit="cm")}
    vec = rng.uniform(-1, 1, (len(S), 3)) + 2.0
    sca = rng.uniform(1, 2, len(S))
    ops = [("sum", "mean"), ("mean", "sum"), ("nansum", "max"), ("max", "nansum")][seed % 4]
    order = seed % 2  # vector layer first or second
    lv = Layer(Vector(*[Array(vec[:, d].copy(), unit="cm/s") for d in range(3)], name="vel"), aux=aux, mode="vec", operation=ops[0])
    ls = Layer(Array(sca.copy(), unit="g", name="rho"), aux=aux, operation=ops[1])
    layers = (lv, ls) if order == 0 else (ls, lv)
    direction = ["z", "x", "y"][seed % 3]
    u, v, n = documented_basis(direction)
    o = np.array([0.47, 0.53, 0.41])
    dz, nz, nx = 0.37, 5, 6
    p = osyris.map(*layers, direction=direction, dx=0.8 * units("cm"), dz=dz * units("cm"), origin=Vector(*[Array(float(x), unit="cm") for x in o]),
                   resolution={"x": nx, "y": nx, "z": nz}, plot=False)
    numba.set_num_threads(numba.config.NUMBA_NUM_THREADS)
    zc = -0.5 * dz + (np.arange(nz) + 0.5) * dz / nz
    desc = {"seed": seed, "operations": {"vector": ops[0], "scalar": ops[1]}, "vector_layer_first": order == 0, "direction": direction}
    out = {("vel" if "vel" == lay["name"] else "rho"): lay for lay in p.layers}
    for j, y in enumerate(p.y):
        for i, x in enumerate(p.x):
            cells = []
            for z in zc:
                strict, near = locate(C, S, o + x * u + y * v + z * n, 1e-9)
                if len(strict) != len(near):
                    cells = None
                    break
                cells.append(strict[0] if len(strict) else -1)
            if cells is None:
                continue
            cols = {"rho": [np.array([sca[c] if c >= 0 else np.nan for c in cells])],
                    "vel": [np.array([(vec[c] @ w) if c >= 0 else np.nan for c in cells]) for w in (u, v)]}
            cols["vel"].append(np.hypot(cols["vel"][0], cols["vel"][1]))
            for name, op in (("vel", ops[0]), ("rho", ops[1])):
                data = out[name]["data"]
                for r, col in enumerate(cols[name]):
                    with warnings.catch_warnings():
                        warnings.simplefilter("ignore")
                        exp = getattr(np, op)(col) * (dz / nz if op in ("sum", "nansum") else 1.0)
                    got = np.ma.getdata(data)[j, i, r] if name == "vel" else np.ma.getdata(data)[j, i]
                    if np.isnan(exp):
                        continue  # masking of partly missing columns is the scalar sweep's business
                    if not math.isclose(float(got), float(exp), rel_tol=1e-9):
                        return {"what": "layer %s (operation %s) row %d at pixel (j=%d,i=%d): map shows %r, column oracle %r"
                                        % (name, op, r, j, i, float(got), float(exp)), "input": desc}
    for name, op, base in (("vel", ops[0], units("cm/s")), ("rho", ops[1], units("g"))):
        want = base * units("cm") if op in ("sum", "nansum") else base
        if not (out[name]["unit"] == want):
            return {"what": "layer %s (operation %s) has unit %s, expected %s" % (name, op, out[name]["unit"], want), "input": desc}
    return None


def sweep_c11(tier, seed):
    n = 120 if tier == "quick" else 2000
    viol, cases = [], 0

    def attempt(name, sd, **kw):
        try:
            r = map_case(sd, thick=True, **kw)
        except Exception as e:
            import traceback

            r = {"what": "exception %r (%s)" % (e, traceback.format_exc(limit=2).splitlines()[-2].strip()), "input": {"seed": sd}}
        if r:
            viol.append({"name": name, "input": r["input"], "observed": r["what"]})
        return r

    for s in range(n):
        cases += 1
        if attempt("C11.native.thick_map", seed * 15485863 + s, threads=(1, 4, 16)[s % 3], force={"ndim": 3}):
            break
    for s in range(n // 2):
        cases += 1
        if attempt("C11.native.thick_map.thin_slab", seed * 104729 + s,
                   force={"ndim": 3, "dzfrac": [0.02, 0.05, 0.1][s % 3], "levels": 1, "op": ["sum", "mean", "nanmax"][s % 3]}):
            break
    for s in range(8 if tier == "quick" else 48):
        cases += 1
        try:
            r = thick_vector_case(seed * 11 + s)
        except Exception as e:
            import traceback

            r = {"what": "exception %r (%s)" % (e, traceback.format_exc(limit=2).splitlines()[-2].strip()), "input": {"seed": seed * 11 + s}}
        if r:
            viol.append({"name": "C11.native.thick_map.vector_layer", "input": r["input"], "observed": r["what"]})
            break
    # 2-D datasets have no depth: the normal is the zero vector and every depth sample is the same point
    # (the first case is a fixed configuration of the recorded finding, so that it is reported for every seed)
    for s in [3] + [seed * 613 + s for s in range(max(6, n // 10))]:
        cases += 1
        if attempt("C11.native.thick_map.ndim2", s, force={"ndim": 2}):
            break
    return {"status": "violation" if viol else "ok", "cases": cases, "distinct": cases, "violations": viol,
            "samples": [{"seed": seed * 15485863}], "kind": "bounded-native"}


def _replay(gen, count):
    for s in range(count):
        try:
            r = gen(s)
        except Exception as e:
            r = {"what": "exception %r" % (e,), "input": {"replay_seed": s}}
        if r:
            return {"reproduced": True, "input": r["input"], "observed": r["what"]}
    return {"reproduced": False, "note": "no failing input among %d synthesized cases" % count}


def candidate_case(w):
    """replay a candidate counterexample (one cell, origin, window, resolution from a lemma-level model) on the real code"""
    import numpy as np
    import osyris
    from osyris import Array, Vector, units
    from osyris.core import Layer

    ndim = int(w["ndim"])
    C = np.array([[float(w["centre%d" % d]) for d in range(ndim)]])
    S = np.array([float(w["size"])])
    if not (S[0] > 0):
        return None
    o = np.array([float(w["origin%d" % d]) for d in range(ndim)])
    # only candidates of moderate magnitude are conclusive in double precision (the deductive model is over the reals)
    mags = [abs(float(S[0])), abs(float(w["window_x"])), abs(float(w["window_y"]))] + ([abs(float(w["dz"]))] if w.get("thick") else [])
    offs = np.abs(C[0] - o).max()
    if min(mags) <= 0 or max(mags) / min(mags) > 1e6 or offs > 1e6 * max(mags) or max(mags) > 1e100 or min(mags) < 1e-100:
        return None
    pos = Vector(*[Array(C[:, d].copy(), unit="cm") for d in range(ndim)])
    val = np.array([7.0])
    lay = Layer(Array(val.copy(), unit="g", name="rho"), aux={"position": pos, "dx": Array(S.copy(), unit="cm")})
    # the candidate comes from the real-arithmetic part only: the resolution is ours (a dropped cell masks all its pixels)
    rx, ry = 23, 24
    kw = {"dx": float(w["window_x"]) * units("cm")}
    if abs(float(w["window_y"]) - float(w["window_x"])) > 0:
        kw["dy"] = float(w["window_y"]) * units("cm")
    thick = bool(w.get("thick"))
    op = None
    if thick:
        kw["dz"] = float(w["dz"]) * units("cm")
        nz = 9
        op = "max"
        kw["operation"] = op
    direction = w["direction"] if ndim == 3 else "z"
    res = {"x": rx, "y": ry}
    if thick:
        res["z"] = nz
    desc = {"from": "lemma-level candidate", "cell_centre": C[0].tolist(), "cell_size": float(S[0]), "origin": o.tolist(), "window": [float(w["window_x"]),
            float(w["window_y"])], "dz": float(w["dz"]) if thick else None, "resolution": res, "direction": direction}
    try:
        p = osyris.map(lay, direction=direction, origin=Vector(*[Array(float(x), unit="cm") for x in o]), resolution=dict(res), plot=False, **kw)
    except RuntimeError as e:
        if "No cells were selected" not in str(e):
            raise
        p = None
    if ndim == 3:
        u, v, n = documented_basis(direction)
    else:
        u, v, n = np.array([1.0, 0, 0]), np.array([0, 1.0, 0]), np.zeros(3)
    o3 = np.zeros(3)
    o3[:ndim] = o
    tol = 1e-9 * max(S[0], 1e-300)
    xs = -0.5 * float(w["window_x"]) + (np.arange(rx) + 0.5) * float(w["window_x"]) / rx
    ys = -0.5 * float(w["window_y"]) + (np.arange(ry) + 0.5) * float(w["window_y"]) / ry
    zs = [0.0] if not thick else (-0.5 * float(w["dz"]) + (np.arange(nz) + 0.5) * float(w["dz"]) / nz)
    for jj, y in enumerate(ys):
        for ii, x in enumerate(xs):
            inside = False
            for z in zs:
                q = (o3 + x * u + y * v + z * n)[:ndim]
                strict, near = locate(C, S, q, tol)
                if len(strict):
                    inside = True
            if not inside:
                continue
            if p is None:
                return {"what": "RuntimeError 'No cells were selected' although the cell contains the sample point of pixel (j=%d,i=%d)" % (jj, ii),
                        "input": desc}
            if bool(np.ma.getmaskarray(p.layers[0]["data"])[jj, ii]) and (not thick):
                return {"what": "pixel (j=%d,i=%d) is masked although its sample point lies inside the cell" % (jj, ii), "input": desc}
            if thick and bool(np.ma.getmaskarray(p.layers[0]["data"])[jj, ii]):
                # nanmax... 'max' is NaN if any sample is missing: only a fully covered column is conclusive
                full = all(len(locate(C, S, (o3 + x * u + y * v + z * n)[:ndim], tol)[0]) for z in zs)
                if full:
                    return {"what": "pixel (j=%d,i=%d) is masked although every depth sample lies inside the cell" % (jj, ii), "input": desc}
    return None


def replay_c03(case, model, rec):
    """a candidate counterexample from a lemma is replayed first; then search the neighbourhood the failed obligation
    points at: small windows first, then the general sweep"""
    cand = (model or {}).get("candidate_from_lemma") if isinstance(model, dict) else None
    if cand:
        try:
            r = candidate_case(cand)
        except Exception as e:
            r = None
        if r:
            return {"reproduced": True, "input": r["input"], "observed": r["what"]}
        return {"reproduced": False, "note": "the lemma-level candidate does not fail on the real code"}
    lab = (case or {}).get("label", "") if isinstance(case, dict) else ""
    force = {"use_dx": True}
    if "2d" in lab:
        force["ndim"] = 2
    if "3d" in lab:
        force["ndim"] = 3
    r = _replay(lambda s: map_case(4242 + s, force=dict(force, frac=[0.03, 0.1, 0.3, 1.0][s % 4], dkind="letter")), 60)
    if r["reproduced"]:
        return r
    return _replay(lambda s: map_case(777 + s, threads=(1, 4, 16)[s % 3]), 120)


def kernel_case(seed):
    """the numba kernel alone against a direct transcription of its contract (last cell passing the test wins)"""
    import numba
    import numpy as np
    from osyris.plot.utils import evaluate_on_grid

    rng = np.random.default_rng(seed)
    ndim = int(rng.choice([2, 3]))
    nc = int(rng.integers(1, 12))
    nz, ny, nx = (1 if ndim == 2 else int(rng.integers(1, 4))), int(rng.integers(1, 6)), int(rng.integers(1, 6))
    lo = rng.uniform(-1, 0, 3)
    sp = rng.uniform(0.1, 0.5, 3)
    centres = rng.uniform(-1, 1.5, (nc, 3))
    sizes = rng.uniform(0.05, 0.6, nc)
    vals = rng.uniform(1, 2, (2, nc))
    # axis-aligned basis: new == original coordinates, pixel centres on the kernel's own grid
    gp = np.zeros((nz, ny, nx, 3))
    for k in range(nz):
        for j in range(ny):
            for i in range(nx):
                gp[k, j, i] = [lo[0] + (i + .5) * sp[0], lo[1] + (j + .5) * sp[1], lo[2] + (k + .5) * sp[2]]
    if ndim == 2:
        centres[:, 2] = gp[0, 0, 0, 2]
    numba.set_num_threads(1)
    out = evaluate_on_grid(centres[:, 0].copy(), centres[:, 1].copy(), centres[:, 2].copy(), centres[:, 0].copy(), centres[:, 1].copy(),
                           centres[:, 2].copy() if ndim == 3 else None, vals, sizes, lo[0], lo[1], lo[2], sp[0], sp[1], sp[2], gp, ndim)
    numba.set_num_threads(numba.config.NUMBA_NUM_THREADS)
    for k in range(nz):
        for j in range(ny):
            for i in range(nx):
                hit = -1
                for n in range(nc):
                    if all(abs(gp[k, j, i, d] - centres[n, d]) <= sizes[n] for d in range(ndim)):
                        hit = n
                want = np.full(2, np.nan) if hit < 0 else vals[:, hit]
                if not np.array_equal(out[:, k, j, i], want, equal_nan=True):
                    return {"what": "kernel pixel (k=%d,j=%d,i=%d) holds %s, contract says %s (last passing cell %d)"
                                    % (k, j, i, out[:, k, j, i].tolist(), want.tolist(), hit), "input": {"seed": seed, "ndim": ndim, "ncells": nc}}
    return None


def replay_kernel(case, model, rec):
    r = _replay(kernel_case, 300)
    if r["reproduced"]:
        return r
    return replay_c03(case, model, rec)


def replay_c11(case, model, rec):
    cand = (model or {}).get("candidate_from_lemma") if isinstance(model, dict) else None
    if cand:
        try:
            r = candidate_case(cand)
        except Exception:
            r = None
        if r:
            return {"reproduced": True, "input": r["input"], "observed": r["what"]}
        return {"reproduced": False, "note": "the lemma-level candidate does not fail on the real code"}
    r = _replay(lambda s: map_case(9000 + s, thick=True, force={"ndim": 3, "dzfrac": [0.02, 0.05, 0.1, 0.3][s % 4], "levels": 1 + s % 2}), 60)
    if r["reproduced"]:
        return r
    return _replay(lambda s: map_case(333 + s, thick=True, force={"ndim": 3}), 120)


# --------------------------------------------------------------------------------------
# C19: frames and option precedence
# --------------------------------------------------------------------------------------
def deep_snap(obj, depth=0):
    """a comparable deep copy of everything reachable from an argument"""
    import numpy as np
    from osyris import Array, Datagroup, Vector
    from osyris.core import Layer
    from pint import Quantity

    if isinstance(obj, Array):
        return ("Array", np.array(obj.values, copy=True).tobytes(), str(np.asarray(obj.values).dtype), np.shape(obj.values), str(obj.unit),
                obj.name)
    if isinstance(obj, Vector):
        return ("Vector", obj.name, tuple((c, deep_snap(getattr(obj, c))) for c in "xyz" if getattr(obj, c) is not None))
    if isinstance(obj, Layer):
        return ("Layer", tuple((k, deep_snap(getattr(obj, k))) for k in ("mode", "operation", "norm", "vmin", "vmax", "bins", "weights", "key")),
                deep_snap(obj.kwargs), tuple((k, id(v), deep_snap(v)) for k, v in obj.arrays.items()))
    if isinstance(obj, Datagroup):
        return ("Datagroup", tuple((k, id(obj[k]), deep_snap(obj[k])) for k in obj.keys()))
    if isinstance(obj, Quantity):
        return ("Quantity", repr(obj.magnitude), str(obj.units))
    if isinstance(obj, dict):
        return ("dict", tuple((k, deep_snap(v)) for k, v in obj.items()))
    if isinstance(obj, (list, tuple)):
        return (type(obj).__name__, tuple(deep_snap(v) for v in obj))
    if isinstance(obj, np.ndarray):
        return ("ndarray", obj.tobytes(), str(obj.dtype), obj.shape)
    return ("value", repr(obj))


def _diff(a, b, path="arg"):
    if a == b:
        return None
    if isinstance(a, tuple) and isinstance(b, tuple) and len(a) == len(b) and a and a[0] == b[0]:
        for k, (x, y) in enumerate(zip(a, b)):
            d = _diff(x, y, "%s/%s" % (path, a[0] if k == 0 else (x[0] if isinstance(x, tuple) and x and isinstance(x[0], str) else k)))
            if d:
                return d
    return "%s changed" % path


def plot_data(p):
    """the data a Plot carries, comparable"""
    import numpy as np

    out = [np.asarray(p.x).tobytes() if getattr(p, "x", None) is not None else None,
           np.asarray(p.y).tobytes() if getattr(p, "y", None) is not None else None]
    layers = p.layers if isinstance(p.layers, (list, tuple)) else ([p.layers] if p.layers is not None else [])
    for lay in layers:
        if not isinstance(lay, dict):
            continue
        d = lay.get("data")
        if d is not None:
            out.append((np.ma.getdata(d).tobytes(), np.ma.getmaskarray(d).tobytes()))
        out.append((lay.get("mode"), str(lay.get("unit")), lay.get("name")))
        for kx in ("x", "y"):
            if kx in lay and hasattr(lay[kx], "values"):
                out.append(np.asarray(lay[kx].values).tobytes())
    return out


def frame_case(seed, func=None):
    """call a plotting function twice on shared argument objects (plot=True, real matplotlib/Agg): nothing reachable from
    the arguments changes, and the second call returns the same data"""
    import matplotlib

    matplotlib.use("Agg")
    import matplotlib.pyplot as plt
    import numpy as np
    import osyris
    from osyris import Array, Vector, units
    from osyris.core import Layer

    import numba

    numba.set_num_threads(1)  # schedule dependence is C03's / C05's business; here: frames and repeatability of one schedule
    rng = np.random.default_rng(seed)
    func = func or ["map", "map_thick", "histogram2d", "histogram1d", "scatter", "plot", "map_scatter", "histogram2d_log", "plots_log"][seed % 9]
    ndim = 3
    C, S = amr_mesh(rng, ndim, 2, n0=2)
    layers, raw, pos, dxa = build_layers(C, S, "cm", rng, ("scalar", "vector"))
    N = len(S)
    a = Array(rng.uniform(1, 2, N), unit="g", name="a")
    b = Array(rng.uniform(1, 2, N), unit="cm", name="b")
    w = Array(rng.uniform(1, 2, N), unit="s", name="w")
    args, kwargs = (), {}
    if func in ("map", "map_thick", "map_scatter"):
        l0 = Layer(layers[0].data, aux=layers[0].arrays, vmin=1.0, cmap="viridis")
        l1 = Layer(layers[1].data, aux=layers[1].arrays, mode="vec", color="w")
        args = (l0, l1)
        kwargs = {"direction": str(rng.choice(["x", "y", "z"])), "dx": 0.8 * units("cm"),
                  "origin": Vector(Array(0.47, unit="cm"), Array(0.53, unit="cm"), Array(0.41, unit="cm")),
                  "resolution": {"x": 32, "y": 32}, "norm": "log", "vmax": 50.0}
        if func == "map":
            # a resolution dictionary that leaves y to the default; scalar layers only (the quiver wrapper wants square maps)
            args = (l0, Layer(layers[0].data, aux=layers[0].arrays, mode="contour", levels=4))
            kwargs["resolution"] = {"x": 32}
        if func == "map_thick":
            kwargs["dz"] = 0.3 * units("cm")
            kwargs["resolution"] = {"x": 32, "y": 32}
        if func == "map_scatter":
            pts = Vector(*[Array(rng.uniform(0.3, 0.7, 5), unit="cm") for _ in range(3)], name="pts")
            args = (l0, Layer(pts, mode="scatter", s=Array(np.full(5, 0.05), unit="cm"), c="r"))
            kwargs["resolution"] = 8
        f = osyris.map
    elif func == "histogram2d":
        args = (a, b, Layer(w, operation="mean", vmin=0.5), Layer(layers[0].data))
        kwargs = {"resolution": 8, "norm": "log", "xmin": 1.1 * units("g"), "cmap": "magma"}
        f = osyris.histogram2d
    elif func == "histogram2d_log":
        # log axes; x as a 1-component Vector (its norm is the component itself), y as an Array
        args = (Vector(a, name="va"), b, Layer(w))
        kwargs = {"resolution": 8, ["logx", "logy", "loglog"][(seed // 9) % 3]: True}
        f = osyris.histogram2d
    elif func == "plots_log":
        which = (seed // 9) % 3
        if which == 0:
            args, kwargs, f = (Layer(a, weights=w),), {"bins": 6, "loglog": True}, osyris.histogram1d
        elif which == 1:
            args, kwargs, f = (a, b), {"color": w, "loglog": True}, osyris.scatter
        else:
            args, kwargs, f = (b, a), {"loglog": True}, osyris.plot
    elif func == "histogram1d":
        edges = np.linspace(1, 2, 6)
        args = (Layer(a, bins=edges, weights=w, color="r"), Layer(Array(rng.uniform(1, 2, N), unit="g", name="a2")))
        kwargs = {"bins": 7, "alpha": 0.5}
        f = osyris.histogram1d
    elif func == "scatter":
        args = (a, b)
        kwargs = {"color": w, "size": Array(rng.uniform(1, 2, N), unit="dimensionless"), "norm": "log", "vmin": 1.0, "alpha": 0.5}
        f = osyris.scatter
    else:
        args = (b, a, Array(rng.uniform(1, 2, N), unit="g", name="a3"))
        kwargs = {"marker": "x", "logx": True}
        f = osyris.plot
    before = deep_snap((args, kwargs))
    out = []
    for rep in range(2):
        p = f(*args, **kwargs)
        out.append(plot_data(p))
        plt.close("all")
        after = deep_snap((args, kwargs))
        d = _diff(before, after)
        if d:
            return {"what": "%s (call %d): %s" % (func, rep + 1, d), "input": {"seed": seed, "function": func}}
    if out[0] != out[1]:
        return {"what": "%s: second call with the same arguments returns different data" % func, "input": {"seed": seed, "function": func}}
    return None


OPTS = {"mode": ("contourf", "image"), "norm": ("log", "linear"), "vmin": (1.5, 0.5), "vmax": (40.0, 60.0), "operation": ("mean", "sum"),
        "cmap": ("viridis", "magma")}


def option_case(seed):
    """one point of the option lattice on map / histogram2d: every option at neither / layer / call / both levels"""
    import numpy as np
    import osyris
    from matplotlib.colors import LogNorm, Normalize
    from osyris import Array, units
    from osyris.core import Layer

    import numba

    numba.set_num_threads(1)
    rng = np.random.default_rng(seed)
    func = ["histogram2d", "map"][seed % 2]
    levels = {k: int(rng.integers(0, 4)) for k in OPTS}  # bit 0: layer, bit 1: call
    lkw = {k: OPTS[k][0] for k, l in levels.items() if l & 1}
    ckw = {k: OPTS[k][1] for k, l in levels.items() if l & 2}
    expect = {k: (OPTS[k][0] if levels[k] & 1 else (OPTS[k][1] if levels[k] & 2 else None)) for k in OPTS}
    desc = {"seed": seed, "function": func, "layer_options": lkw, "call_options": ckw}
    if func == "histogram2d":
        N = 60
        x = Array(rng.uniform(0, 1, N), unit="cm", name="x")
        y = Array(rng.uniform(0, 1, N), unit="s", name="y")
        wv = rng.uniform(1, 2, N)
        p = osyris.histogram2d(x, y, Layer(Array(wv.copy(), unit="g", name="w"), **lkw), resolution=3, plot=False, **ckw)
        ref = {op: osyris.histogram2d(x, y, Layer(Array(wv.copy(), unit="g", name="w")), resolution=3, plot=False, operation=op)
               for op in ("sum", "mean")}
        lay = p.layers[0]
        want_op = expect["operation"] or "sum"
        if not np.ma.allclose(lay["data"], ref[want_op].layers[0]["data"]):
            return {"what": "histogram2d: layer data is not the '%s' of the bin (operation: layer=%s call=%s)"
                            % (want_op, lkw.get("operation"), ckw.get("operation")), "input": desc}
    else:
        C, S = amr_mesh(rng, 3, 2, n0=2)
        layers, raw, pos, dxa = build_layers(C, S, "cm", rng, ("scalar",))
        lay_in = Layer(layers[0].data, aux=layers[0].arrays, **lkw)
        from osyris import Vector

        common = dict(direction="z", dx=0.9 * units("cm"), dz=0.5 * units("cm"), resolution={"x": 4, "y": 4, "z": 3},
                      origin=Vector(Array(0.47, unit="cm"), Array(0.53, unit="cm"), Array(0.41, unit="cm")), plot=False)
        p = osyris.map(lay_in, **common, **ckw)
        lay = p.layers[0]
        ref = {op: osyris.map(Layer(layers[0].data, aux=layers[0].arrays), operation=op, **common) for op in ("sum", "mean")}
        want_op = expect["operation"] or "sum"
        if not np.ma.allclose(lay["data"], ref[want_op].layers[0]["data"]):
            return {"what": "map: layer data is not the '%s' along the depth (operation: layer=%s call=%s)"
                            % (want_op, lkw.get("operation"), ckw.get("operation")), "input": desc}
    if lay["mode"] != expect["mode"]:
        return {"what": "%s: mode %r, expected %r" % (func, lay["mode"], expect["mode"]), "input": desc}
    nrm = lay["params"]["norm"]
    want_cls = LogNorm if expect["norm"] == "log" else Normalize
    if type(nrm) is not want_cls or nrm.vmin != expect["vmin"] or nrm.vmax != expect["vmax"]:
        return {"what": "%s: norm %s(vmin=%s, vmax=%s), expected %s(vmin=%s, vmax=%s)" % (
            func, type(nrm).__name__, nrm.vmin, nrm.vmax, want_cls.__name__, expect["vmin"], expect["vmax"]), "input": desc}
    if lay["params"].get("cmap") != expect["cmap"]:
        return {"what": "%s: cmap %r, expected %r" % (func, lay["params"].get("cmap"), expect["cmap"]), "input": desc}
    return None


def sweep_c19(tier, seed):
    n = 35 if tier == "quick" else 350
    viol, cases = {}, 0
    for s in range(n):
        cases += 1
        try:
            r = frame_case(seed * 613 + s)
        except Exception as e:
            import traceback

            r = {"what": "exception %r (%s)" % (e, traceback.format_exc(limit=2).splitlines()[-2].strip()), "input": {"seed": seed * 613 + s}}
        if r:
            name = "C19.native.frames.%s" % r["input"].get("function", "call")
            viol.setdefault(name, {"name": name, "input": r["input"], "observed": r["what"]})
    for s in range(3):
        cases += 1
        try:
            r = falsy_option_case(s)
        except Exception as e:
            r = {"what": "exception %r" % (e,), "input": {"seed": s}}
        if r:
            viol.setdefault("C19.native.options.falsy_value", {"name": "C19.native.options.falsy_value", "input": r["input"], "observed": r["what"]})
    for s in range(4 * n):
        cases += 1
        try:
            r = option_case(seed * 2741 + s)
        except Exception as e:
            import traceback

            r = {"what": "exception %r (%s)" % (e, traceback.format_exc(limit=2).splitlines()[-2].strip()), "input": {"seed": seed * 2741 + s}}
        if r:
            name = "C19.native.options.%s" % r["input"].get("function", "call")
            viol.setdefault(name, {"name": name, "input": r["input"], "observed": r["what"]})
    return {"status": "violation" if viol else "ok", "cases": cases, "distinct": cases, "violations": list(viol.values()),
            "samples": [{"seed": seed * 613}], "kind": "bounded-native"}


def replay_frames(case, model, rec):
    lab = (case or {}).get("label", "") if isinstance(case, dict) else ""
    unit = rec.get("unit", "") if isinstance(rec, dict) else ""
    funcs = [f for f in ("histogram2d", "histogram1d", "scatter", "plot", "map") if f in unit or f in lab] or [None]
    pick = funcs[0]
    if pick == "map":
        cand = ["map", "map_thick", "map_scatter"]
    elif pick == "histogram2d":
        cand = ["histogram2d", "histogram2d_log"]
    else:
        cand = [pick, "plots_log"]
    for fn in cand:
        r = _replay(lambda s, fn=fn: frame_case(50 + s, func=fn), 6)
        if r["reproduced"]:
            return r
    return r


def falsy_option_case(seed):
    """an option set to a falsy value on the layer (0, 0.0, '') still wins over the call-level value"""
    import numpy as np
    import osyris
    from osyris import Array
    from osyris.core import Layer

    rng = np.random.default_rng(seed)
    N = 40
    x = Array(rng.uniform(0, 1, N), unit="cm", name="x")
    y = Array(rng.uniform(0, 1, N), unit="s", name="y")
    opt, val, call = [("vmin", 0, 0.5), ("vmax", 0.0, 3.0), ("vmin", 0.0, 2.0)][seed % 3]
    p = osyris.histogram2d(x, y, Layer(Array(rng.uniform(1, 2, N), unit="g", name="w"), **{opt: val}), resolution=3, plot=False, **{opt: call})
    got = getattr(p.layers[0]["params"]["norm"], opt)
    if got != val:
        return {"what": "Layer(%s=%r) with %s=%r on the call: the normaliser got %r" % (opt, val, opt, call, got), "input": {"option": opt, "layer": val,
                                                                                                                             "call": call}}
    return None


def replay_options(case, model, rec):
    r = _replay(falsy_option_case, 3)
    if r["reproduced"]:
        return r
    return _replay(lambda s: option_case(100 + s), 80)
