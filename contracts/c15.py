"""C15 — The outcome of load() does not depend on earlier loads on the same dataset."""
import os

import z3

from pyvc import core
from pyvc.api import M, O, bounded, summary, unit
from pyvc.core import SV, prove
from pyvc.stubs import misc as smisc
from pyvc.stubs import np as snp
from pyvc.stubs import pint as spint

from . import c01, c14
from . import io_common as G
from . import io_load as IL
from . import native_io as NIO

LEVEL = "other"
EXPLANATION = ("Two-call histories on ONE Loader object are executed symbolically on the file-system model (arbitrary file "
               "contents, mesh + particle files of two cpus): for ordered pairs (A, B) of argument shapes - full load, group "
               "subsets, variable subsets, level cap, explicit cpu_list, position predicate (CPU pre-selection through the "
               "contract of hilbert_cpu_list), sortby - the groups and metadata counts returned by B after A are proved "
               "equal, array by array and row by row, to what a fresh Loader returns for B alone.  RamsesDataset.load's "
               "merge (returned groups replace same-named ones, others are kept as the same objects, derived variables "
               "recomputed) is verified against the loader's contract.  Longer histories follow when every pair is "
               "independent; pairs are enumerated over 9 shapes (quick: the 20 pairs with a state-changing first call).")
TRUSTED = c01.TRUSTED + ["hilbert_cpu_list by its contract (a function of its arguments only; C04 verifies it)"]
ASSUMPTIONS = ["histories of length 2 over 9 argument shapes; loop structure of load bounded (1-D, 2 cpus, 1 level)"]

AMR = "osyris.io.amr"


@summary("hilbert_cpu_list@amr", AMR + ":hilbert_cpu_list")
def _hcl(real):
    """contract: None unless the ordering is hilbert and the selection is a dict with a position predicate;
    then a cpu list that is a function of the arguments (here: cpu 1 only)"""
    def hilbert_cpu_list(meta, scaling, select, infofile):
        if meta["ordering type"] != "hilbert" or not isinstance(select, dict):
            return None
        if any(("position_" + c) in select for c in "xyz"):
            return [1]
        return None

    return hilbert_cpu_list


def _true(x):
    return x == x


SHAPES = {
    "full": dict(),
    "part_only": dict(select=["part"]),
    "mesh_off": dict(select={"mesh": False}),
    "mesh_only": dict(select=["mesh"]),
    "one_var": dict(select={"mesh": ["density"]}),
    "level_cap": dict(select={"mesh": {"level": lambda l: l <= 1}}),
    "cpu_list": dict(cpu_list=[2]),
    "position": dict(select={"mesh": {"position_x": _true}}),
    "sorted": dict(sortby={"part": "v1"}),
}
STATEFUL_FIRST = ["position", "cpu_list", "level_cap", "one_var", "part_only"]
PAIRS_QUICK = [(a, b) for a in STATEFUL_FIRST for b in ("full", "part_only", "mesh_off", "mesh_only") if a != b]
PAIRS_ALL = [(a, b) for a in SHAPES for b in SHAPES]


class World:
    """mesh + particle files of two cpus with arbitrary contents"""

    def __init__(self):
        self.lay = IL.Layout(ndim=1, ncpu=2, levelmax=1, nboundary=0, label="c15")
        self.lay.setup()
        self.fs = self.lay.fs
        names = ["v0", "v1"]
        self.part_names, self.part_types = names, ["d", "i"]
        self.fs.descriptors["part_file_descriptor"] = [[str(k + 1), " " + n, " " + t] for k, (n, t) in
                                                       enumerate(zip(names, self.part_types))]
        for c in (1, 2):
            f = self.fs.open(IL.fname("part", c), "rb")
            w = G.Walker()
            p_np, npart, markers, pay = c14.part_grammar(w, f.fileid, self.part_types)
            core.assume(npart >= 0)
            for _, m in markers:
                core.assume(m >= 0)
        del self.fs.opened[:]
        self.units, _ = G.units_library(["dx", "x", "position_*", "density", "pressure", "v0", "v1"])

    def meta(self):
        if not hasattr(self, "_meta0"):
            self._meta0 = self.lay.meta()
        m = dict(self._meta0)  # the same info file for every dataset object
        m["ordering type"] = "hilbert"
        return m


def observe(out, meta):
    """comparable view of a load result: group -> variable -> leaf arrays, and the metadata counts"""
    osy = O()
    view = {}
    for g in out.keys():
        view[g] = {}
        for k in out[g].keys():
            v = out[g][k]
            if isinstance(v, osy.Vector):
                for c, a in v._xyz.items():
                    view[g][k + "." + c] = a
            else:
                view[g][k] = v
    return view, {"ncells": meta["ncells"], "nparticles": meta["nparticles"], "lmax": meta["lmax"]}


def same_result(tag, got, want):
    (v1, m1), (v2, m2) = got, want
    prove(tag + ".groups", sorted(v1.keys()) == sorted(v2.keys()))
    for g in v2:
        if g not in v1:
            continue
        prove("%s.variables[%s]" % (tag, g), list(v1[g].keys()) == list(v2[g].keys()))
        for k in v2[g]:
            if k not in v1[g]:
                continue
            a, b = v1[g][k], v2[g][k]
            prove("%s.length[%s/%s]" % (tag, g, k), core.conj(a._array.ndim == b._array.ndim, True if a._array.ndim != 1 else (a.shape[0] == b.shape[0])))
            prove("%s.unit[%s/%s]" % (tag, g, k), a.unit == b.unit)
            if a._array.ndim == 1:
                q = core.fresh_int("q_%s_%s" % (g, k.replace(".", "_")), 0)
                core.assume(q < b.shape[0])
                prove("%s.rows[%s/%s]" % (tag, g, k), a._array.elem((q,)) == b._array.elem((q,)))
    # the counts in the metadata match the groups just loaded (a count whose group was not produced by
    # this call still describes the group kept from an earlier call)
    for key, g in (("ncells", "mesh"), ("nparticles", "part")):
        if g in v2 and len(v2[g]) > 0:
            a, b = m1[key], m2[key]
            prove("%s.meta[%s]" % (tag, key), (SV.lift(a) == SV.lift(b)) if (isinstance(a, SV) or isinstance(b, SV)) else a == b)


_pairs = PAIRS_ALL if os.environ.get("PYVC_TIER") == "thorough" else PAIRS_QUICK


@unit("C15", "Loader.load.history", targets=["osyris.io.loader:Loader.load", AMR + ":AmrReader.initialize",
                                             "osyris.io.hydro:HydroReader.initialize", "osyris.io.part:PartReader.initialize",
                                             "osyris.io.reader:Reader.descriptor_to_variables"],
      uses=["hilbert_cpu_list@amr", "_binary_op", "Array.to"],
      cases=[{"label": "%s_then_%s" % (a, b), "first": a, "second": b} for a, b in _pairs],
      replay=NIO.replay_history, max_paths=128)
def history(case):
    L = M("osyris.io.loader")
    w = World()
    try:
        ld = L.Loader(nout=1, path="")
        meta1 = w.meta()
        ld.load(meta=meta1, units=w.units, **SHAPES[case["first"]])
        out_b = ld.load(meta=meta1, units=w.units, **SHAPES[case["second"]])
        got = observe(out_b, meta1)
        fresh = L.Loader(nout=1, path="")
        meta2 = w.meta()
        out_f = fresh.load(meta=meta2, units=w.units, **SHAPES[case["second"]])
        want = observe(out_f, meta2)
    finally:
        w.fs.uninstall()
    same_result("second_call_as_fresh", got, want)
    core.cover("compared")


class _FakeLoader:
    def __init__(self, groups):
        self.groups, self.calls = groups, []

    def load(self, *a, **k):
        self.calls.append((a, k))
        return self.groups


@unit("C15", "RamsesDataset.load.merge", targets=["osyris.io.ramses:RamsesDataset.load"],
      cases=[{"label": "replace_and_keep"}, {"label": "replace_with_empty_group"}],
      uses=["_binary_op", "Array.to", "Array._wrap_numpy"], replay=NIO.replay_history)
def merge(case):
    from . import arrays as A

    osy = O()
    R = M("osyris.io.ramses").RamsesDataset
    ds = R.__new__(R)
    osy.Dataset.__init__(ds)
    dims = A.Dims()
    core.assume(dims.n >= 1)
    old_mesh, old_part = osy.Datagroup(), osy.Datagroup()
    old_mesh["density"] = A.mk_array("old_rho", dims, "1d")
    old_part["mass"] = A.mk_array("old_m", dims, "1d")
    ds["mesh"], ds["part"] = old_mesh, old_part
    new_mesh = osy.Datagroup()
    if case["label"] == "replace_and_keep":
        new_mesh["pressure"] = A.mk_array("new_p", dims, "1d")  # else: the call selected no cell at all
    ds.loader = _FakeLoader({"mesh": new_mesh})
    ds.units = object()
    ds.meta = {"time": 1.0}
    r = ds.load("x", select=["mesh"])
    prove("returns_self", r is ds)
    prove("loader_called_with_meta_and_units", len(ds.loader.calls) == 1 and ds.loader.calls[0][1].get("meta") is ds.meta
          and ds.loader.calls[0][1].get("units") is ds.units and ds.loader.calls[0][1].get("select") == ["mesh"])
    prove("returned_group_replaces", ds["mesh"] is new_mesh)
    prove("other_group_kept", ds["part"] is old_part and ds["part"]["mass"] is old_part["mass"])
    prove("order_and_names", list(ds.keys()) == ["mesh", "part"] and new_mesh.name == "mesh" and new_mesh.parent is ds)


@bounded("C15", "native", "histories of length <= 3 over 9 argument shapes on synthesized outputs (hilbert ordering, 4 cpus, particles): "
                          "every group equals the fresh dataset's for the last call that produced it; meta counts")
def native(tier, seed):
    from pyvc import nativerun

    return nativerun.run("contracts.native_io:sweep_c15", tier, seed, timeout=3000)


from . import foundation  # noqa: E402

foundation.register("C15", wrap_funcs=("equal", "less_equal"))

from . import c14  # noqa: E402,F401  (registers C15.SinkReader.initialize)
