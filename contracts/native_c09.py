"""Bounded native stand-in for C09."""
from . import native_arrays as N


def sweep(tier, seed):
    import numpy as np

    viol, cases, distinct = [], 0, set()
    for op in N.VBIN:
        for n in (1, 2, 3):
            for kind in ("Vector", "Array", "number_float", "ndarray", "Quantity"):
                if op in ("__rmul__", "__rtruediv__") and kind in ("ndarray", "Quantity", "Vector", "Array"):
                    continue  # left operand decides: not a Vector-on-the-left operation
                for dtype in ("float64", "float32", "int32"):
                    for ua, ub in (("m", "cm"), ("m", "m"), ("m", "s")):
                        cases += 1
                        distinct.add((op, n, kind, dtype, ua, ub))
                        ok, d = N.vector_op_oracle(op, n, kind, ua, ub, dtype)
                        if not ok:
                            viol.append({"name": "C09.native.op[%s,%s]" % (op, kind), "input": [op, n, kind, dtype, ua, ub], "observed": d})
    for n in (1, 2, 3):
        for fn, label in ((N.replay_norm, "norm"), ):
            cases += 1
            distinct.add((label, n))
            r = fn("nvec=%d" % n, {}, {})
            if r["reproduced"]:
                viol.append({"name": "C09.native.%s[nvec=%d]" % (label, n), "input": r.get("input"), "observed": r["observed"]})
        for rel in ("same", "compatible"):
            cases += 1
            distinct.add(("dot", n, rel))
            r = N.replay_dot("nvec=%d,%s" % (n, rel), {}, {})
            if r["reproduced"]:
                viol.append({"name": "C09.native.dot[nvec=%d,%s]" % (n, rel), "input": r.get("input"), "observed": r["observed"]})
    # norms of integer-valued vectors are not integers
    import osyris as osy

    for dtype in ("int32", "int64", "float32"):
        for comps in ((1, 1), (0, 5, 2), (3, 4), (1, 2, 2), (-2, 1, 1)):
            cases += 1
            distinct.add(("norm", dtype, comps))
            v = osy.Vector(*[osy.Array(values=np.array([c, 2 * c], dtype=dtype), unit="m") for c in comps])
            want = np.sqrt(sum((np.array([c, 2 * c], dtype="float64")) ** 2 for c in comps))
            got = np.asarray(v.norm.values, dtype="float64")
            if not np.allclose(got, want, rtol=1e-6) or str(v.norm.unit) != str(v.x.unit):
                viol.append({"name": "C09.native.norm[dtype]", "input": [dtype, list(comps)],
                             "observed": "norm of %s-vector %s is %s %s, expected %s m" % (dtype, comps, got.tolist(), v.norm.unit, want.tolist())})
    for rel in ("same", "compatible"):
        cases += 1
        distinct.add(("cross", rel))
        r = N.replay_cross(rel, {}, {})
        if r["reproduced"]:
            viol.append({"name": "C09.native.cross[%s]" % rel, "input": rel, "observed": r["observed"]})
    for shape in ("unary", "binary", "binary_scalar", "seq"):
        for n in (1, 2, 3):
            cases += 1
            distinct.add((shape, n))
            r = N.replay_vector_numpy("%s,nvec=%d" % (shape, n), {}, {})
            if r["reproduced"]:
                viol.append({"name": "C09.native.numpy[%s]" % shape, "input": [shape, n], "observed": r["observed"]})
    first = {}
    for v in viol:
        first.setdefault(v["name"], v)
    return {"status": "violation" if viol else "ok", "cases": cases, "distinct": len(distinct),
            "violations": list(first.values()), "samples": [list(map(str, s)) for s in list(distinct)[:3]],
            "kind": "bounded-native"}
