"""C04 — Selective loading equals filtering the full load (CPU pre-selection is sound)."""
import itertools
import os

import z3

from pyvc import core
from pyvc.api import M, O, bounded, summary, unit
from pyvc.core import SV, prove
from pyvc.stubs import misc as smisc
from pyvc.stubs import np as snp
from pyvc.stubs import pint as spint

from . import arrays as A
from . import c01
from . import io_common as G
from . import io_load as IL
from . import native_io as NIO

LEVEL = "other"
EXPLANATION = ("Selection with value predicates: the real Loader.load is executed on the file-system model and the mask it "
               "builds is proved to be leaf AND predicate(cell value * unit), the rows being the filtered rows of the full "
               "load rebuilt from the grammar; an explicit cpu_list yields exactly the owned cells of the listed files.  "
               "CPU pre-selection: hilbert_cpu_list's bounding box is executed for EVERY lattice-aligned and centre-aligned "
               "interval of levelmax <= 3 outputs and proved to contain, padded, the centre of every oct that holds a "
               "qualifying cell (finite exhaustive); _get_cpu_list's search-cube construction is verified symbolically "
               "(cube side >= box extent, the box lies inside the <= 8 cubes, key intervals of the cubes, every cpu whose "
               "key interval meets a cube's interval is listed) with _hilbert3d and the bound-key table abstract; the "
               "Hilbert state table read from the AST is checked exhaustively against an independent transcription of the "
               "RAMSES algorithm for bit lengths 1-3 (bijection, prefix property).  The composed soundness statement is "
               "checked natively with adversarial domain decompositions (bounded).")
TRUSTED = c01.TRUSTED + ["RAMSES ownership model: an oct belongs to the cpu whose key interval contains the Hilbert key of the oct "
                         "centre at levelmax+1 bits; independent transcription of hilbert3d in contracts/ref_hilbert.py",
                         "info-file text -> bound_key (int(float(...))) is not verified"]
ASSUMPTIONS = ["interval predicates (convex) on positions; levelmax <= 18 (the bbox lattice); floating point as reals"]

HIL = "osyris.io.hilbert"


# --------------------------------------------------------------------------------------
# value predicates and explicit cpu lists on the composition model
# --------------------------------------------------------------------------------------
@unit("C04", "Loader.load.select", targets=["osyris.io.loader:Loader.load", "osyris.io.reader:Reader.make_conditions",
                                            "osyris.io.amr:AmrReader.make_conditions"],
      uses=["_binary_op", "Array.to", "Array._wrap_numpy"],
      cases=[{"label": "density>=thr," + lay, "layout": lay, "kind": "value"} for lay in ("1d,1cpu,2lev", "1d,2cpu,1lev,ghosts")] +
            [{"label": "density+position," + lay, "layout": lay, "kind": "both"} for lay in ("1d,1cpu,2lev",)],
      replay=NIO.replay_selective, max_paths=256)
def select_values(case):
    osy = O()
    lay = IL.Layout(label=case["layout"], **c01.LAYOUTS[case["layout"]]).setup()
    thr = core.fresh_real("thr")
    xlo = core.fresh_real("xlo")
    units0, _ = G.units_library(["dx", "x", "position_*"] + list(lay.hydro_vars))
    sel = {"density": lambda d: d >= osy.Array(values=thr, unit=units0["density"].units)}
    if case["kind"] == "both":
        sel["position_x"] = lambda x: x >= osy.Array(values=xlo, unit=units0["position_x"].units)
    try:
        ld, meta, units, lib, out = IL.run_load(lay, select={"mesh": sel}, units=units0)
    finally:
        lay.fs.uninstall()

    def extra(c, l, row_value):
        # predicate evaluated on the unit-carrying cell values, from the statement
        cond = row_value("density") >= thr
        if case["kind"] == "both":
            cond = cond & (row_value("position_x") >= xlo)
        return cond

    pieces, masks = lay.expected(lib, meta, actual_masks=lay.masks_seen, extra_mask=extra)
    IL.compare_mesh("filtered_full_load", lay, out, pieces, lib, lay.ndim)


@unit("C04", "Loader.load.cpu_list", targets=["osyris.io.loader:Loader.load"],
      cases=[{"label": "cpu_list=[%s]" % ",".join(map(str, cl)), "cpus": cl} for cl in ([2], [1], [2, 1])],
      replay=NIO.replay_selective, max_paths=256)
def explicit_cpu_list(case):
    lay = IL.Layout(label="1d,2cpu,1lev,ghosts", **c01.LAYOUTS["1d,2cpu,1lev,ghosts"]).setup()
    try:
        ld, meta, units, lib, out = IL.run_load(lay, cpu_list=list(case["cpus"]))
    finally:
        lay.fs.uninstall()
    prove("only_listed_files_opened", sorted(set(lay.fs.opened)) == sorted(IL.fname(k, c) for k in ("amr", "hydro") for c in case["cpus"]))
    pieces, masks = lay.expected(lib, meta, actual_masks=lay.masks_seen, cpus=list(case["cpus"]))
    IL.compare_mesh("owned_cells_of_listed_cpus", lay, out, pieces, lib, lay.ndim)


# --------------------------------------------------------------------------------------
# the Hilbert table against an independent transcription
# --------------------------------------------------------------------------------------
@unit("C04", "_hilbert3d", targets=[HIL + ":_hilbert3d", HIL + ":_btest"], cases=[{"label": "bit_length<=3"}],
      replay=NIO.replay_hilbert)
def hilbert_table(case):
    from . import ref_hilbert as R

    h = M(HIL)
    maxbl = 3
    bad = []
    for bl in range(1, maxbl + 1):
        n = 2 ** bl
        keys = {}
        for x, y, z in itertools.product(range(n), repeat=3):
            k = h._hilbert3d(x, y, z, bl)
            k = core.concretize(k) if isinstance(k, SV) else int(k)
            keys[(x, y, z)] = k
            if k != R.hilbert3d(x, y, z, bl):
                bad.append((x, y, z, bl, k))
        prove("bijection[bit_length=%d]" % bl, sorted(keys.values()) == list(range(n ** 3)))
        if bl > 1:
            # prefix property: the key of a point at bit length bl, divided by 8, is the key of its parent cube
            ok = all(keys[p] // 8 == h_parent for p, h_parent in
                     ((p, R.hilbert3d(p[0] // 2, p[1] // 2, p[2] // 2, bl - 1)) for p in keys))
            prove("prefix[bit_length=%d]" % bl, ok)
    prove("equals_reference_curve", len(bad) == 0)


# --------------------------------------------------------------------------------------
# _get_cpu_list: search cubes (symbolic box; _hilbert3d and the bound-key file abstract)
# --------------------------------------------------------------------------------------
HCALLS = []


@summary("_hilbert3d.abstract", HIL + ":_hilbert3d")
def _h3(real):
    """abstract curve: some key in [0, 8**bit_length) depending only on the cube coordinates"""
    def _hilbert3d(x, y, z, bit_length):
        f = z3.Function("HKEY", z3.IntSort(), z3.IntSort(), z3.IntSort(), z3.IntSort(), z3.IntSort())
        t = f(core.term(SV.lift(x)), core.term(SV.lift(y)), core.term(SV.lift(z)), z3.IntVal(bit_length))
        core.cur().add(z3.And(t >= 0, t < 8 ** bit_length))
        k = len(HCALLS)
        if FREE[0] is not None and k != FREE[0] and BK[0] is not None and len(BK[0]) > 2:
            # the loops treat the search cubes independently: one cube is left arbitrary, the others are
            # placed inside the key interval of cpu 1 (keeps the number of paths small)
            dkey = (2 ** (FREE[1] + 1) // (2 ** bit_length)) ** 3
            core.cur().add(core.bterm((SV(t, "i") + 1) * dkey <= SV.lift(BK[0][1])))
        HCALLS.append((x, y, z, bit_length, SV(t, "i")))
        return SV(t, "i")

    return _hilbert3d


BK = [None]
FREE = [None, 0]


@summary("_read_bound_key.abstract", HIL + ":_read_bound_key")
def _rbk(real):
    def _read_bound_key(infofile, ncpu):
        return BK[0]

    return _read_bound_key


@unit("C04", "_get_cpu_list", targets=[HIL + ":_get_cpu_list"], uses=["_hilbert3d.abstract", "_read_bound_key.abstract"],
      cases=[{"label": "lmax=%d,ncpu=%d,free_cube=%s" % (lm, nc, fc), "lmax": lm, "ncpu": nc, "free": fc}
             for lm, nc, fc in ((1, 2, None), (3, 1, None), (2, 2, 0), (3, 2, 0), (3, 2, 5), (3, 3, 7))] +
            # a level cap below levelmax (C12): the search level follows lmax, the key lattice stays that of levelmax
            [{"label": "lmax=%d,levelmax=%d,ncpu=%d,free_cube=%s" % (lm, lx, nc, fc), "lmax": lm, "levelmax": lx, "ncpu": nc, "free": fc}
             for lm, lx, nc, fc in ((2, 3, 2, 0), (1, 3, 3, None), (2, 4, 2, 3))],
      replay=NIO.replay_selective, max_paths=3000)
def get_cpu_list(case):
    h = M(HIL)
    del HCALLS[:]
    lmax, ncpu = case["lmax"], case["ncpu"]
    levelmax = case.get("levelmax", lmax)
    box = {}
    for c in "xyz":
        lo, hi = core.fresh_real(c + "min"), core.fresh_real(c + "max")
        core.assume(lo >= 0)
        core.assume(hi <= 1)
        core.assume(lo < hi)
        box[c + "min"], box[c + "max"] = lo, hi
    total = 8 ** (levelmax + 1)
    bk = [0] + [core.fresh_int("bk%d" % k) for k in range(1, ncpu)] + [total]
    for a, b in zip(bk, bk[1:]):
        core.assume(SV.lift(a) <= SV.lift(b))
    BK[0] = bk
    FREE[0], FREE[1] = case.get("free"), levelmax
    cl = h._get_cpu_list(bounding_box=box, lmax=lmax, levelmax=levelmax, infofile="info", ncpu=ncpu, ndim=3)
    # which cube level was chosen: read it off the abstract curve calls (bit_length) or 0 when none was needed
    bl = HCALLS[0][3] if HCALLS else 0
    side = 1.0 / (2 ** bl)
    dmax = core.ite(box["xmax"] - box["xmin"] >= box["ymax"] - box["ymin"], box["xmax"] - box["xmin"], box["ymax"] - box["ymin"])
    dmax = core.ite(dmax >= box["zmax"] - box["zmin"], dmax, box["zmax"] - box["zmin"])
    if bl < lmax - 0 and not (bl == lmax - 1):
        prove("cube_level.side_covers_extent", dmax <= side)
    else:
        core.note("coarsest search level reached: the cube side may be smaller than the box extent (lmax cap)")
    # an arbitrary point of the box lies in one of the searched cubes
    pt = {c: core.fresh_real("p" + c) for c in "xyz"}
    for c in "xyz":
        core.assume((pt[c] >= box[c + "min"]) & (pt[c] <= box[c + "max"]) & (pt[c] < 1))
    if bl > 0 and bool(dmax <= side):
        cube = [core.floor(pt[c] * (2 ** bl)) for c in "xyz"]
        hit = [z3.And(core.term(SV.lift(x)) == core.term(cube[0]), core.term(SV.lift(y)) == core.term(cube[1]),
                      core.term(SV.lift(zc)) == core.term(cube[2])) for (x, y, zc, _, _) in HCALLS]
        prove("cube_cover.point_in_a_searched_cube", SV(z3.Or(*hit), "b"))
        # every cpu whose key interval meets the key interval of that cube is listed
        dkey = (2 ** (levelmax + 1) // (2 ** bl)) ** 3
        for (x, y, zc, _, hk), hc in zip(HCALLS, hit):
            for c in range(ncpu):
                meets = (SV.lift(bk[c]) < (hk + 1) * dkey) & (SV.lift(bk[c + 1]) > hk * dkey)
                listed = (c + 1) in cl
                if not listed:
                    prove("interval_to_cpus.cpu%d_listed_if_it_meets_a_cube" % (c + 1), SV(z3.Not(z3.And(hc, core.bterm(meets))), "b"))
    elif bl == 0:
        prove("whole_domain_lists_every_nonempty_cpu", core.conj([True if (c + 1) in cl else (SV.lift(bk[c]) >= SV.lift(bk[c + 1])) for c in range(ncpu)]))
    core.cover("searched")


# --------------------------------------------------------------------------------------
# hilbert_cpu_list: the (padded) bounding box contains the centre of every oct holding a qualifying cell
# --------------------------------------------------------------------------------------
BOXES = []


@summary("_get_cpu_list.record", HIL + ":_get_cpu_list")
def _gcl(real):
    def _get_cpu_list(bounding_box, lmax, levelmax, infofile, ncpu, ndim):
        BOXES.append(dict(bounding_box))
        return [1]

    return _get_cpu_list


@unit("C04", "hilbert_cpu_list.bbox", targets=[HIL + ":hilbert_cpu_list"], uses=["_get_cpu_list.record", "_binary_op", "Array.to", "Array._wrap_numpy"],
      cases=[{"label": "levelmin=%d,levelmax=%d" % (a, b), "levelmin": a, "levelmax": b} for a, b in ((1, 2), (2, 2), (2, 3), (1, 3))],
      replay=NIO.replay_selective, max_paths=20000)
def bbox(case):
    """for every interval [lo, hi] whose ends are centres or edges of finest cells (and that contains a finest cell
    centre), and every leaf cell of any level levelmin..levelmax whose centre lies in it, the centre of the cell's
    oct lies in the box handed to _get_cpu_list (finite: all intervals x all cell centres x both oct sides)"""
    osy = O()
    h = M(HIL)
    levelmin, levelmax = case["levelmin"], case["levelmax"]
    nfin = 2 ** levelmax
    ul = osy.units("cm")
    scal = spint.Quantity(2.0, ul)  # the lattice logic does not depend on the unit factor
    boxlen = 1.0
    meta = {"ordering type": "hilbert", "boxlen": boxlen, "levelmax": levelmax, "levelmin": levelmin, "lmax": levelmax, "ncpu": 2, "ndim": 3}
    ends = sorted({k / (2.0 * nfin) for k in range(0, 2 * nfin + 1)})
    missed = []
    n = 0
    for lo, hi in itertools.combinations(ends, 2):
        if not any(lo <= (k + 0.5) / nfin <= hi for k in range(nfin)):
            continue
        del BOXES[:]
        lo_q, hi_q = scal.magnitude * lo, scal.magnitude * hi
        sel = {"position_x": lambda x, lo_q=lo_q, hi_q=hi_q: (x >= osy.Array(values=lo_q, unit=ul)) & (x <= osy.Array(values=hi_q, unit=ul))}
        h.hilbert_cpu_list(meta=meta, scaling=scal, select=sel, infofile="info")
        if len(BOXES) != 1:
            missed.append(("no box", lo, hi))
            continue
        n += 1
        b = BOXES[0]
        bmin, bmax = b["xmin"], b["xmax"]
        bmin = bmin.elem(()) if isinstance(bmin, snp.ndarray) else bmin
        bmax = bmax.elem(()) if isinstance(bmax, snp.ndarray) else bmax
        for lev in range(levelmin, levelmax + 1):
            ncell = 2 ** lev
            for k in range(ncell):
                cc = (k + 0.5) / ncell
                if not (lo <= cc <= hi):
                    continue
                oc = cc + (0.5 / ncell if k % 2 == 0 else -0.5 / ncell)  # centre of the oct that holds the cell
                inside = (SV.lift(bmin) <= oc) & (SV.lift(bmax) >= oc)
                if not core.entails(inside) and not bool(inside):
                    missed.append((lo, hi, lev, cc, oc))
    prove("enumerated", n > 10)
    prove("oct_centres_of_qualifying_cells_inside_box", len(missed) == 0)
    if missed:
        core.note("first misses (lo, hi, level, cell centre, oct centre): %r" % (missed[:3],))
    prove("other_axes_span_domain", all(BOXES[0][k] == v for k, v in (("ymin", 0), ("ymax", 1), ("zmin", 0), ("zmax", 1))) if BOXES else False)


@bounded("C04", "native", "synthesized 3-D outputs with adversarial bound keys (at oct-centre keys +-1), ncpu 2-8, levelmax 2-4: 8 selections each "
                          "(1-3 axes, lattice intervals from one finest cell to the domain, boxes one finest cell wide centred on coarse "
                          "leaves, optional value predicate) vs the filtered full load; explicit cpu lists")
def native(tier, seed):
    from pyvc import nativerun

    return nativerun.run("contracts.native_io:sweep_c04", tier, seed, timeout=3000)


from . import foundation  # noqa: E402

foundation.register("C04", wrap_funcs=("greater_equal", "less_equal"))
