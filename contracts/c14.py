"""C14 — Particle and sink tables are loaded completely, typed and scaled correctly."""
import os

import z3

from pyvc import core
from pyvc.api import M, O, bounded, unit
from pyvc.core import SV, prove
from pyvc.stubs import misc as smisc
from pyvc.stubs import np as snp
from pyvc.stubs import pint as spint

from . import c01
from . import io_common as G
from . import io_load as IL
from . import native_io as NIO

LEVEL = "other"
EXPLANATION = ("PartReader.read_header is executed symbolically against the particle-file grammar: symbolic particle count, five "
               "skipped records of arbitrary (symbolic) byte length read off their record markers, descriptors mixing "
               "d/i/b/q types with read and skipped variables: every read lands on the payload of its record with the "
               "declared type and count, values are scaled by the unit magnitude and labelled, skipping equals reading, "
               "the particle total is accumulated once.  The particle path of the real Loader.load is executed on the "
               "file-system model (2 cpu files, symbolic counts incl. the zero-particle form): per variable the group holds "
               "the concatenation over cpu files in order, row-aligned; sorting on load is Datagroup.sortby (C06).  The "
               "sink CSV path (np.loadtxt, eval of the unit line, legacy bracket dialect) is outside the verified subset: "
               "bounded native check on synthesized CSV files only.")
TRUSTED = c01.TRUSTED + ["np.loadtxt / eval in SinkReader.initialize (not verified)"]
ASSUMPTIONS = ["sink tables: bounded only (1-5 sinks, both unit-line dialects, empty and missing file)"]

PART = "osyris.io.part"

_DESCS = [
    {"label": "d,i,b/all", "types": ["d", "i", "b"], "read": [True, True, True]},
    {"label": "d,i,b/skip_middle", "types": ["d", "i", "b"], "read": [True, False, True]},
    {"label": "d,d,q,i/skip_first", "types": ["d", "d", "q", "i"], "read": [False, True, True, True]},
    {"label": "b,d/skip_all_but_last", "types": ["b", "d"], "read": [False, True]},
]


def part_grammar(w, fid, types):
    """particle file: positions of the records; the five skipped records have the length their marker states"""
    w.rec("i", 1, "ncpu")
    w.rec("i", 1, "ndim")
    p_np = w.rec("i", 1, "npart")
    npart = smisc.decode(fid, "i", p_np)
    markers = []
    for k in range(5):
        m = smisc.decode(fid, "i", w.pos)
        markers.append((w.pos, m))
        w.skip_bytes(m, "skipped%d" % k)
    pay = [w.rec(t, npart, "var%d" % k) for k, t in enumerate(types)]
    return p_np, npart, markers, pay


@unit("C14", "PartReader.read_header", targets=[PART + ":PartReader.read_header", "osyris.io.utils:skip_binary_line",
                                                "osyris.io.utils:read_binary_data"],
      cases=_DESCS, replay=NIO.replay_particles)
def part_header(case):
    r = M(PART).PartReader()
    f = G.new_file("part")
    r.bytes = f
    r.offsets = G.zero_offsets()
    names = ["v%d" % k for k in range(len(case["types"]))]
    units, lib = G.units_library(names)
    r.descriptor_to_variables(descriptor=dict(zip(names, case["types"])), meta={}, units=units,
                              select={n: fl for n, fl in zip(names, case["read"])})
    r.initialized = True
    info = {"nparticles": core.fresh_int("already", 0)}
    before = info["nparticles"]
    w = G.Walker()
    p_np, npart, markers, pay = part_grammar(w, f.fileid, case["types"])
    core.assume(npart >= 0)
    for _, m in markers:
        core.assume(m >= 0)
    r.read_header(info)
    expected = [("npart", "i", 1, p_np)] + [("marker%d" % k, "i", 1, mp) for k, (mp, _) in enumerate(markers)]
    for k, (t, fl) in enumerate(zip(case["types"], case["read"])):
        if fl:
            expected.append(("var%d" % k, t, npart, pay[k]))
    G.prove_reads("read", f, expected)
    prove("end_of_file", G.pos(r.offsets) == w.pos)
    prove("nparticles_accumulated_once", info["nparticles"] == before + npart)
    j = core.fresh_int("j", 0)
    core.assume(j < npart)
    for k, (n, t, fl) in enumerate(zip(names, case["types"], case["read"])):
        item = r.variables[n]
        if not fl:
            prove("skipped_has_no_piece[%s]" % n, len(item["pieces"]) == 0)
            continue
        prove("one_piece[%s]" % n, len(item["pieces"]) == 1)
        piece = item["pieces"][0]
        prove("piece.length[%s]" % n, piece.shape[0] == npart)
        prove("piece.value[%s]" % n, piece._array.elem((j,)) == smisc.decode(f.fileid, t, pay[k] + G.SIZE[t] * j) * lib[n].magnitude)
        prove("piece.unit[%s]" % n, piece.unit == lib[n].units)


@unit("C14", "PartReader.read_header.uninitialized", targets=[PART + ":PartReader.read_header"], cases=[{"label": "noop"}], replay=None)
def part_uninit(case):
    r = M(PART).PartReader()
    r.bytes = G.new_file("part")
    r.offsets = G.zero_offsets()
    info = {"nparticles": 5}
    r.read_header(info)
    prove("nothing_read", len(r.bytes.reads) == 0 and info["nparticles"] == 5)


_PL = [{"label": "2cpu,d+i", "types": ["d", "i"], "sort": None}, {"label": "2cpu,d+i+b,sorted", "types": ["d", "i", "b"], "sort": "v1"},
       {"label": "2cpu,zero_in_first", "types": ["d", "i"], "sort": None, "zero": 1}]


@unit("C14", "Loader.load.particles", targets=["osyris.io.loader:Loader.load", PART + ":PartReader.initialize",
                                                PART + ":PartReader.read_header", "osyris.core.datagroup:Datagroup.sortby"],
      cases=_PL, replay=NIO.replay_particles, max_paths=64)
def part_load(case):
    names = ["v%d" % k for k in range(len(case["types"]))]
    fs = IL.FS({"part_file_descriptor": [[str(k + 1), " " + n, " " + t] for k, (n, t) in enumerate(zip(names, case["types"]))]})
    fs.install()
    try:
        files, gram = {}, {}
        for c in (1, 2):
            f = fs.open(IL.fname("part", c), "rb")
            files[c] = f
            w = G.Walker()
            gram[c] = part_grammar(w, f.fileid, case["types"]) + (w,)
            core.assume(gram[c][1] >= (0 if case.get("zero") != c else 0))
            if case.get("zero") == c:
                core.assume(gram[c][1] == 0)
            for _, m in gram[c][2]:
                core.assume(m >= 0)
        del fs.opened[:]
        L = M("osyris.io.loader")
        units, lib = G.units_library(names)
        meta = {"ncpu": 2, "levelmax": 1, "ndim": 3, "boxlen": 1.0, "infile": "output_00001", "nout": 1, "path": "",
                "infofile": "output_00001/info_00001.txt", "ordering type": "none", "ncells": 0, "nparticles": 0}
        ld = L.Loader(nout=1, path="")
        sortby = {"part": case["sort"]} if case["sort"] else None
        out = ld.load(select={"mesh": False}, meta=meta, units=units, sortby=sortby)
    finally:
        fs.uninstall()
    prove("part_files_read", [n for n in fs.opened if "part_" in n] == [IL.fname("part", 1), IL.fname("part", 2)])
    prove("no_mesh_files", not any("amr_" in n or "hydro_" in n for n in fs.opened))
    n1, n2 = gram[1][1], gram[2][1]
    prove("meta.nparticles", meta["nparticles"] == n1 + n2)
    part = out["part"]
    if len(part.keys()) == 0:
        prove("empty_only_if_no_particles", n1 + n2 == 0)
        return
    prove("all_variables_present", list(part.keys()) == names)
    q = core.fresh_int("q", 0)
    core.assume(q < n1 + n2)
    if case["sort"] is None:
        for k, (n, t) in enumerate(zip(names, case["types"])):
            arr = part[n]
            prove("length[%s]" % n, arr.shape[0] == n1 + n2)
            from_1 = smisc.decode(files[1].fileid, t, gram[1][3][k] + G.SIZE[t] * q) * lib[n].magnitude
            from_2 = smisc.decode(files[2].fileid, t, gram[2][3][k] + G.SIZE[t] * (q - n1)) * lib[n].magnitude
            prove("rows[%s]" % n, arr._array.elem((q,)) == core.ite(q < n1, from_1, from_2))
            prove("unit[%s]" % n, arr.unit == lib[n].units)
    else:
        # sorted on load: one permutation for all variables (C06's contract), namely argsort of the key column
        key = case["sort"]
        kk = names.index(key)
        tk = case["types"][kk]

        def raw(k, t, row):
            a = smisc.decode(files[1].fileid, t, gram[1][3][k] + G.SIZE[t] * row) * lib[names[k]].magnitude
            b = smisc.decode(files[2].fileid, t, gram[2][3][k] + G.SIZE[t] * (row - n1)) * lib[names[k]].magnitude
            return core.ite(SV.lift(row) < n1, a, b)

        keycol = snp.ndarray.from_elem(lambda idx: raw(kk, tk, idx[0]), (n1 + n2,), "float64")
        perm = snp.argsort(keycol)
        for k, (n, t) in enumerate(zip(names, case["types"])):
            prove("sorted.rows[%s]" % n, part[n]._array.elem((q,)) == raw(k, t, perm.elem((q,))))


@bounded("C14", "native", "synthesized particle files (0..40 particles per cpu, descriptors mixing d/i/b/q, 1-4 cpus, sortby) and sink "
                          "CSV files (0,1,2,5 sinks; code-unit and legacy-bracket unit lines; missing file; ndim 1-3)")
def native(tier, seed):
    from pyvc import nativerun

    return nativerun.run("contracts.native_io:sweep_c14", tier, seed, timeout=3000)
