"""C14 — Particle and sink tables are loaded completely, typed and scaled correctly."""
import os

import z3

from pyvc import core
from pyvc.api import M, O, bounded, unit
from pyvc.core import SV, prove
from pyvc.stubs import misc as smisc
from pyvc.stubs import np as snp
from pyvc.stubs import pint as spint

from . import c01
from . import io_common as G
from . import io_load as IL
from . import native_io as NIO

LEVEL = "other"
EXPLANATION = ("PartReader.read_header is executed symbolically against the particle-file grammar: symbolic particle count, five "
               "skipped records of arbitrary (symbolic) byte length read off their record markers, descriptors mixing "
               "d/i/b/q types with read and skipped variables: every read lands on the payload of its record with the "
               "declared type and count, values are scaled by the unit magnitude and labelled, skipping equals reading, "
               "the particle total is accumulated once.  The particle path of the real Loader.load is executed on the "
               "file-system model (2 cpu files, symbolic counts incl. the zero-particle form): per variable the group holds "
               "the concatenation over cpu files in order, row-aligned; sorting on load is Datagroup.sortby (C06).  "
               "SinkReader.initialize is executed on a CSV model: the two header lines are concrete text per case (code-unit "
               "dialect with products/powers of m, l, t; legacy bracket dialect; ndim 1-3) and are parsed by the real string "
               "code and the real eval() over the quantities returned by the real configure_units for SYMBOLIC unit_d/l/t; the "
               "data block is an arbitrary table with one row or a symbolic number >= 2 of rows (np.loadtxt by assumed "
               "contract: called with ',' and skiprows=2 it returns the numbers of the data lines, 1-D for a single line): "
               "one row per sink, value == number in the file x the dialect's factor, unit, x/y/z merged into vectors, "
               "select=False / missing file / empty file, and history independence (another dataset with other code units "
               "parsed earlier in the same process).")
TRUSTED = c01.TRUSTED + ["np.loadtxt(csv, delimiter=',', skiprows=2): returns the numeric fields of the data lines, squeezed to 1-D for "
                         "one data line (assumed contract; the native sink sweep runs the real np.loadtxt on synthesized CSV files)",
                         "os.path.exists / os.path.getsize (replaced by the case's file model in the sink unit)"]
ASSUMPTIONS = ["sink unit lines: a fixed set of header texts per dialect (9-11 columns), not arbitrary strings; bounded native sweep "
               "(0,1,2,5 sinks, both dialects, varying code units between cases) as the second line"]

PART = "osyris.io.part"

_DESCS = [
    {"label": "d,i,b/all", "types": ["d", "i", "b"], "read": [True, True, True]},
    {"label": "d,i,b/skip_middle", "types": ["d", "i", "b"], "read": [True, False, True]},
    {"label": "d,d,q,i/skip_first", "types": ["d", "d", "q", "i"], "read": [False, True, True, True]},
    {"label": "b,d/skip_all_but_last", "types": ["b", "d"], "read": [False, True]},
]


def part_grammar(w, fid, types):
    """particle file: positions of the records; the five skipped records have the length their marker states"""
    w.rec("i", 1, "ncpu")
    w.rec("i", 1, "ndim")
    p_np = w.rec("i", 1, "npart")
    npart = smisc.decode(fid, "i", p_np)
    markers = []
    for k in range(5):
        m = smisc.decode(fid, "i", w.pos)
        markers.append((w.pos, m))
        w.skip_bytes(m, "skipped%d" % k)
    pay = [w.rec(t, npart, "var%d" % k) for k, t in enumerate(types)]
    return p_np, npart, markers, pay


@unit("C14", "PartReader.read_header", targets=[PART + ":PartReader.read_header", "osyris.io.utils:skip_binary_line",
                                                "osyris.io.utils:read_binary_data"],
      cases=_DESCS, replay=NIO.replay_particles)
def part_header(case):
    r = M(PART).PartReader()
    f = G.new_file("part")
    r.bytes = f
    r.offsets = G.zero_offsets()
    names = ["v%d" % k for k in range(len(case["types"]))]
    units, lib = G.units_library(names)
    r.descriptor_to_variables(descriptor=dict(zip(names, case["types"])), meta={}, units=units,
                              select={n: fl for n, fl in zip(names, case["read"])})
    r.initialized = True
    info = {"nparticles": core.fresh_int("already", 0)}
    before = info["nparticles"]
    w = G.Walker()
    p_np, npart, markers, pay = part_grammar(w, f.fileid, case["types"])
    core.assume(npart >= 0)
    for _, m in markers:
        core.assume(m >= 0)
    r.read_header(info)
    expected = [("npart", "i", 1, p_np)] + [("marker%d" % k, "i", 1, mp) for k, (mp, _) in enumerate(markers)]
    for k, (t, fl) in enumerate(zip(case["types"], case["read"])):
        if fl:
            expected.append(("var%d" % k, t, npart, pay[k]))
    G.prove_reads("read", f, expected)
    prove("end_of_file", G.pos(r.offsets) == w.pos)
    prove("nparticles_accumulated_once", info["nparticles"] == before + npart)
    j = core.fresh_int("j", 0)
    core.assume(j < npart)
    for k, (n, t, fl) in enumerate(zip(names, case["types"], case["read"])):
        item = r.variables[n]
        if not fl:
            prove("skipped_has_no_piece[%s]" % n, len(item["pieces"]) == 0)
            continue
        prove("one_piece[%s]" % n, len(item["pieces"]) == 1)
        piece = item["pieces"][0]
        prove("piece.length[%s]" % n, piece.shape[0] == npart)
        prove("piece.value[%s]" % n, piece._array.elem((j,)) == smisc.decode(f.fileid, t, pay[k] + G.SIZE[t] * j) * lib[n].magnitude)
        prove("piece.unit[%s]" % n, piece.unit == lib[n].units)


@unit("C14", "PartReader.read_header.uninitialized", targets=[PART + ":PartReader.read_header"], cases=[{"label": "noop"}], replay=None)
def part_uninit(case):
    r = M(PART).PartReader()
    r.bytes = G.new_file("part")
    r.offsets = G.zero_offsets()
    info = {"nparticles": 5}
    r.read_header(info)
    prove("nothing_read", len(r.bytes.reads) == 0 and info["nparticles"] == 5)


_PL = [{"label": "2cpu,d+i", "types": ["d", "i"], "sort": None}, {"label": "2cpu,d+i+b,sorted", "types": ["d", "i", "b"], "sort": "v1"},
       {"label": "2cpu,zero_in_first", "types": ["d", "i"], "sort": None, "zero": 1}]


@unit("C14", "Loader.load.particles", targets=["osyris.io.loader:Loader.load", PART + ":PartReader.initialize",
                                                PART + ":PartReader.read_header", "osyris.core.datagroup:Datagroup.sortby"],
      cases=_PL, replay=NIO.replay_particles, max_paths=64)
def part_load(case):
    names = ["v%d" % k for k in range(len(case["types"]))]
    fs = IL.FS({"part_file_descriptor": [[str(k + 1), " " + n, " " + t] for k, (n, t) in enumerate(zip(names, case["types"]))]})
    fs.install()
    try:
        files, gram = {}, {}
        for c in (1, 2):
            f = fs.open(IL.fname("part", c), "rb")
            files[c] = f
            w = G.Walker()
            gram[c] = part_grammar(w, f.fileid, case["types"]) + (w,)
            core.assume(gram[c][1] >= (0 if case.get("zero") != c else 0))
            if case.get("zero") == c:
                core.assume(gram[c][1] == 0)
            for _, m in gram[c][2]:
                core.assume(m >= 0)
        del fs.opened[:]
        L = M("osyris.io.loader")
        units, lib = G.units_library(names)
        meta = {"ncpu": 2, "levelmax": 1, "ndim": 3, "boxlen": 1.0, "infile": "output_00001", "nout": 1, "path": "",
                "infofile": "output_00001/info_00001.txt", "ordering type": "none", "ncells": 0, "nparticles": 0}
        ld = L.Loader(nout=1, path="")
        sortby = {"part": case["sort"]} if case["sort"] else None
        out = ld.load(select={"mesh": False}, meta=meta, units=units, sortby=sortby)
    finally:
        fs.uninstall()
    prove("part_files_read", [n for n in fs.opened if "part_" in n] == [IL.fname("part", 1), IL.fname("part", 2)])
    prove("no_mesh_files", not any("amr_" in n or "hydro_" in n for n in fs.opened))
    n1, n2 = gram[1][1], gram[2][1]
    prove("meta.nparticles", meta["nparticles"] == n1 + n2)
    part = out["part"]
    if len(part.keys()) == 0:
        prove("empty_only_if_no_particles", n1 + n2 == 0)
        return
    prove("all_variables_present", list(part.keys()) == names)
    q = core.fresh_int("q", 0)
    core.assume(q < n1 + n2)
    if case["sort"] is None:
        for k, (n, t) in enumerate(zip(names, case["types"])):
            arr = part[n]
            prove("length[%s]" % n, arr.shape[0] == n1 + n2)
            from_1 = smisc.decode(files[1].fileid, t, gram[1][3][k] + G.SIZE[t] * q) * lib[n].magnitude
            from_2 = smisc.decode(files[2].fileid, t, gram[2][3][k] + G.SIZE[t] * (q - n1)) * lib[n].magnitude
            prove("rows[%s]" % n, arr._array.elem((q,)) == core.ite(q < n1, from_1, from_2))
            prove("unit[%s]" % n, arr.unit == lib[n].units)
    else:
        # sorted on load: one permutation for all variables (C06's contract), namely argsort of the key column
        key = case["sort"]
        kk = names.index(key)
        tk = case["types"][kk]

        def raw(k, t, row):
            a = smisc.decode(files[1].fileid, t, gram[1][3][k] + G.SIZE[t] * row) * lib[names[k]].magnitude
            b = smisc.decode(files[2].fileid, t, gram[2][3][k] + G.SIZE[t] * (row - n1)) * lib[names[k]].magnitude
            return core.ite(SV.lift(row) < n1, a, b)

        keycol = snp.ndarray.from_elem(lambda idx: raw(kk, tk, idx[0]), (n1 + n2,), "float64")
        perm = snp.argsort(keycol)
        for k, (n, t) in enumerate(zip(names, case["types"])):
            prove("sorted.rows[%s]" % n, part[n]._array.elem((q,)) == raw(k, t, perm.elem((q,))))


@bounded("C14", "native", "synthesized particle files (0..40 particles per cpu, descriptors mixing d/i/b/q, 1-4 cpus, sortby) and sink "
                          "CSV files (0,1,2,5 sinks; code-unit and legacy-bracket unit lines; missing file; ndim 1-3)")
def native(tier, seed):
    from pyvc import nativerun

    return nativerun.run("contracts.native_io:sweep_c14", tier, seed, timeout=3000)


# --------------------------------------------------------------------------------------
# sinks: SinkReader.initialize against the CSV dialects
# --------------------------------------------------------------------------------------
SINKMOD = "osyris.io.sink"


# the same reader object asked twice for the same file (as Loader does on a second load of one dataset)
_SINK_TWICE = {"label": "ndim=3,code_units,many,same_reader_twice", "mode": "table", "ndim": 3, "legacy": False, "rows": "many",
               "twice": True}


def _sink_cases():
    out = [{"label": "select_false", "mode": "off"}, {"label": "missing_file", "mode": "missing"}, {"label": "empty_file", "mode": "empty"}]
    for ndim in (1, 2, 3):
        for legacy in (False, True):
            for rows in ("one", "many"):
                out.append({"label": "ndim=%d,%s,%s" % (ndim, "legacy" if legacy else "code_units", rows), "mode": "table",
                            "ndim": ndim, "legacy": legacy, "rows": rows})
    # the same reader class used for another dataset (other code units, other table) earlier in the process
    out.append({"label": "ndim=3,code_units,many,after_other_dataset", "mode": "table", "ndim": 3, "legacy": False, "rows": "many",
                "warmup": True})
    out.append({"label": "ndim=2,legacy,one,after_other_dataset", "mode": "table", "ndim": 2, "legacy": True, "rows": "one",
                "warmup": True})
    out.append(_SINK_TWICE)
    return out


def _sink_columns(ndim, legacy):
    """(key, unit text in the file, magnitude clause, unit expression) per CSV column, in file order.
    code-unit dialect: products of m, l, t separated by blanks; legacy dialect: bracketed absolute units"""
    comps = "xyz"[:ndim]
    cols = [("id", "[1]" if legacy else "1", lambda mg, m, l, t: mg == 1, "dimensionless"),
            ("msink", "[g]" if legacy else "m", (lambda mg, m, l, t: mg == 1) if legacy else (lambda mg, m, l, t: mg == m), "g")]
    for c in comps:
        cols.append((c, "[cm]" if legacy else "l", (lambda mg, m, l, t: mg == 1) if legacy else (lambda mg, m, l, t: mg == l), "cm"))
    for c in comps:
        cols.append(("v" + c, "[km/s]" if legacy else "l t**-1",
                     (lambda mg, m, l, t: mg == 1) if legacy else (lambda mg, m, l, t: mg * t == l), "km/s" if legacy else "cm / s"))
    cols.append(("age", "[s]" if legacy else "t", (lambda mg, m, l, t: mg == 1) if legacy else (lambda mg, m, l, t: mg == t), "s"))
    cols.append(("lx", "[1]" if legacy else "m l**2 t**-1", (lambda mg, m, l, t: mg == 1) if legacy else (lambda mg, m, l, t: mg * t == m * l * l),
                 "dimensionless" if legacy else "g * cm**2 / s"))
    return cols


@unit("C14", "SinkReader.initialize", targets=[SINKMOD + ":SinkReader.initialize", "osyris.io.utils:make_vector_arrays",
                                               "osyris.config.defaults:configure_units"],
      cases=_sink_cases(), replay=NIO.replay_sinks)
def sink_initialize(case):
    import types

    osy = O()
    S = M(SINKMOD)
    d = M("osyris.config.defaults")
    ud, ul, ut = [core.fresh_real(n) for n in ("unit_d", "unit_l", "unit_t")]
    for v in (ud, ul, ut):
        core.assume(v > 0)
    units = d.configure_units(osy.units, ud, ul, ut)
    mass = ud * ul * ul * ul
    mode = case["mode"]
    ndim = case.get("ndim", 3)
    cols = _sink_columns(ndim, case.get("legacy", False))
    k = len(cols)
    want_name = "output_00007/sink_00007.csv"
    log = {"exists": [], "getsize": [], "open": [], "loadtxt": []}
    if mode == "table":
        if case["rows"] == "one":
            n = 1
            table = snp.sym_array("csv", (k,), "float64")  # numpy: one data line gives a 1-D result
            cell = lambda i, j: table.elem((j,))
        else:
            n = core.fresh_int("nsink", 2)
            table = snp.sym_array("csv", (n, k), "float64")
            cell = lambda i, j: table.elem((i, j))
    lines = [" # " + ",".join(c[0] for c in cols) + "\n", " # " + ",".join(c[1] for c in cols) + "\n"]

    def exists(p):
        log["exists"].append(p)
        return mode in ("empty", "table")

    def getsize(p):
        log["getsize"].append(p)
        return 0 if mode == "empty" else 1000

    def open_(p, m):
        log["open"].append((p, m))
        return list(lines) + ["<data>\n"] * 3

    def loadtxt(fname, dtype, delimiter, skiprows):
        log["loadtxt"].append((fname, dtype, delimiter, skiprows))
        return table

    real_os = S.os
    S.os = types.SimpleNamespace(path=types.SimpleNamespace(exists=exists, getsize=getsize, join=os.path.join,
                                                            getmtime=lambda p: 1234.5, getctime=lambda p: 1234.5),
                                 stat=lambda p: os.stat_result((0o100644, 1, 1, 1, 0, 0, 1000, 1234, 1234, 1234)))
    smisc.FILES["open"], smisc.FILES["loadtxt"] = open_, loadtxt
    try:
        if case.get("warmup"):
            # an earlier dataset in the same process: arbitrary other code units and table (history independence)
            ud0, ul0, ut0 = [core.fresh_real(n) for n in ("unit_d0", "unit_l0", "unit_t0")]
            for v in (ud0, ul0, ut0):
                core.assume(v > 0)
            units0 = d.configure_units(osy.units, ud0, ul0, ut0)
            keep = table
            table = snp.sym_array("csv0", (3, k), "float64")
            S.SinkReader().initialize({"nout": 7, "path": "", "ndim": ndim}, units0, True)
            table = keep
            for v in log.values():
                del v[:]
        r = S.SinkReader()
        meta = {"nout": 7, "path": "", "ndim": ndim}
        first = None
        if case.get("twice"):
            first = r.initialize(dict(meta), units, True)
            for v in log.values():
                del v[:]
        out = r.initialize(meta, units, False if mode == "off" else True)
    finally:
        S.os = real_os
        smisc.FILES["open"], smisc.FILES["loadtxt"] = None, None
    if mode == "off":
        prove("nothing_touched", out is None and not any(log.values()))
        return
    prove("file_name", all(p == want_name for p in log["exists"] + log["getsize"]) and len(log["exists"]) >= 1)
    if mode == "missing":
        prove("no_group", out is None and not log["open"] and not log["loadtxt"])
        return
    if mode == "empty":
        prove("empty_group", isinstance(out, osy.Datagroup) and len(out.keys()) == 0 and not log["loadtxt"])
        return
    # assumed contract of np.loadtxt: called on the CSV with ',' and the two header lines skipped, it returns the numbers of the
    # data lines (row i, field j) -- squeezed to 1-D for a single data line
    if first is None:  # (a second request for an unchanged file may legitimately be answered without reading it again)
        prove("loadtxt.call", len(log["loadtxt"]) == 1 and log["loadtxt"][0][0] == want_name and log["loadtxt"][0][1] is float
              and log["loadtxt"][0][2] == "," and log["loadtxt"][0][3] == 2)
        prove("header.read_from_same_file", [p for p, _ in log["open"]] == [want_name])
    prove("is_group", isinstance(out, osy.Datagroup))
    if first is not None:
        # what the caller did to the earlier result (sorting it in place, say) must not be visible in this one
        prove("repeat.fresh_group", out is not first)
        prove("repeat.fresh_members", all(out[key] is not first[key] for key in out.keys() if key in first.keys()))
        prove("repeat.no_shared_buffers", not any(
            snp.shares_memory(a._array, b._array) for key in out.keys() if key in first.keys()
            for a, b in zip(_leaves(out[key]), _leaves(first[key]))))
    comps = "xyz"[:ndim]
    expect_keys = ["id", "msink"] + (["position", "v"] if ndim > 1 else ["x", "vx"]) + ["age", "lx"]
    prove("keys", sorted(out.keys()) == sorted(expect_keys))
    j = core.fresh_int("row", 0)
    core.assume(SV.lift(j) < n)
    for ci, (key, _, magc, uexpr) in enumerate(cols):
        if ndim > 1 and key in comps:
            arr = getattr(out["position"], key)
        elif ndim > 1 and key[0] == "v" and key[1:] in comps:
            arr = getattr(out["v"], key[1:])
        else:
            arr = out[key]
        prove("column[%s].one_row_per_sink" % key, arr.shape == (n,) if isinstance(n, int) else
              (len(arr.shape) == 1 and core.conj(SV.lift(arr.shape[0]) == n)))
        mg = core.fresh_real("mg_" + key)
        # value == number in the file x factor, where the factor satisfies the dialect's clause
        val = arr._array.elem((j,))
        raw = cell(j, ci)
        fac = _sink_factor(key, case["legacy"], ud * ul * ul * ul, ul, ut)
        prove("column[%s].value" % key, fac(val, raw))
        prove("column[%s].unit" % key, arr.unit == osy.units(uexpr))


def _leaves(x):
    """component Arrays of a Vector, or the Array itself"""
    if hasattr(x, "nvec"):
        return [getattr(x, c) for c in "xyz"[: x.nvec]]
    return [x]


def _sink_factor(key, legacy, m, l, t):
    """value/raw relation per column (division-free)"""
    if legacy or key == "id":
        return lambda v, raw: v == raw
    if key == "msink":
        return lambda v, raw: v == raw * m
    if key in ("x", "y", "z"):
        return lambda v, raw: v == raw * l
    if key in ("vx", "vy", "vz"):
        return lambda v, raw: v * t == raw * l
    if key == "age":
        return lambda v, raw: v == raw * t
    if key == "lx":
        return lambda v, raw: v * t == raw * m * l * l
    raise KeyError(key)


# the repeat case also belongs to C15 (a second load on one dataset asks the same reader again)
unit("C15", "SinkReader.initialize", targets=[SINKMOD + ":SinkReader.initialize"], cases=[_SINK_TWICE],
     replay=NIO.replay_history)(sink_initialize)
