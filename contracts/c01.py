"""C01 — Full load returns every leaf cell exactly once with true geometry, values, units."""
import fractions

import z3

from pyvc import core
from pyvc.api import M, O, bounded, unit
from pyvc.core import SV, prove
from pyvc.stubs import misc as smisc
from pyvc.stubs import np as snp
from pyvc.stubs import pint as spint

from . import arrays as A
from . import io_common as G
from . import native_io as NIO

LEVEL = "other"
EXPLANATION = ("Reader methods of the working tree are executed symbolically against the RAMSES record grammar "
               "(io_common.py): every struct.unpack lands on the payload of the intended record and the byte position "
               "implied by the offset counters equals the start of the next record, for symbolic ncpu, levelmax, "
               "nboundary, noutput, ncoarse, key size, grid counts and ndim in {1,2,3}; skipping a block advances "
               "exactly as reading it; per-block geometry (level, cpu, dx, cell centres), leaf mask, value scaling and "
               "unit labels; the unit library against dimensional analysis; derived variables.  The loop nest of "
               "Loader.load is covered by an inductive offset invariant per (level, domain) iteration and by a "
               "structure-bounded symbolic composition; the end-to-end statement (rows == leaf cells of the tree) is "
               "additionally checked natively against synthesized outputs (bounded).")
TRUSTED = ["the RAMSES record grammar and ownership model in contracts/io_common.py (definition of 'well-formed output')",
           "struct.unpack (native order, standard sizes), numpy reshape/transpose/concatenate/boolean indexing stubs",
           "info-file parsing (read_parameter_file uses eval) is not verified: contracts start from the parsed meta dict"]
ASSUMPTIONS = ["every hydro/grav/rt variable is a double (RAMSES writes real(dp)); Reader.step_over hard-wires that",
               "nout=-1 (glob) and info-file text parsing: bounded native check only"]

IOU = "osyris.io.utils"
RD = "osyris.io.reader"
AMR = "osyris.io.amr"


# --------------------------------------------------------------------------------------
# read_binary_data / skip_binary_line
# --------------------------------------------------------------------------------------
_RB = [{"label": "%s,skip_head=%s,increment=%s" % (f, sh, inc), "fmt": f, "skip_head": sh, "increment": inc}
       for f in ("i", "d", "3i", "Nd", "Ni", "Nb", "Nq") for sh in (True, False) for inc in (True, False)]


@unit("C01", "read_binary_data", targets=[IOU + ":read_binary_data"], cases=_RB, replay=NIO.replay_read_binary)
def read_binary(case):
    utils = M(IOU)
    f = G.new_file("file")
    off = G.fresh_offsets()
    before = dict(off)
    p0 = G.pos(off)
    fmt = case["fmt"]
    if fmt[0] == "N":
        n = core.fresh_int("count", 0)
        t = fmt[1]
        fmt_s = "{}{}".format(n, t)
    else:
        t = fmt[-1]
        n = int(fmt[:-1]) if len(fmt) > 1 else 1
        fmt_s = fmt
    res = utils.read_binary_data(content=f, fmt=fmt_s, offsets=off, skip_head=case["skip_head"], increment=case["increment"])
    start = p0 + (4 if case["skip_head"] else 0)
    prove("one_unpack", len(f.reads) == 1)
    rt, rc, rp = f.reads[0]
    prove("position", SV.lift(rp) == start)
    prove("type_and_count", core.conj(rt == t, SV.lift(rc) == n))
    k = core.fresh_int("k", 0)
    core.assume(k < n)
    got = res[k] if not isinstance(res, tuple) else snp._select(list(res), k)
    prove("value", got == smisc.decode(f.fileid, t, start + k * G.SIZE[t]))
    adv = (n * G.SIZE[t] if case["increment"] else 0) + 8
    prove("advance", G.pos(off) == p0 + adv)
    for key in G.OFFSET_KEYS:
        if key not in (t, "n"):
            prove("frame[%s]" % key, True if off[key] is before[key] else (off[key] == before[key]))
    prove("record_count", off["n"] == before["n"] + 1)


@unit("C01", "skip_binary_line", targets=[IOU + ":skip_binary_line"], cases=[{"label": "marker"}], replay=NIO.replay_read_binary)
def skip_line(case):
    utils = M(IOU)
    f = G.new_file("file")
    off = G.fresh_offsets()
    p0 = G.pos(off)
    nbytes = utils.skip_binary_line(content=f, offsets=off)
    prove("reads_the_record_marker", core.conj(len(f.reads) == 1, SV.lift(f.reads[0][2]) == p0, f.reads[0][0] == "i"))
    prove("returns_marker_value", nbytes == smisc.decode(f.fileid, "i", p0))
    prove("advance_two_markers", G.pos(off) == p0 + 8)


# --------------------------------------------------------------------------------------
# AMR header
# --------------------------------------------------------------------------------------
def mk_info(ndim=3, **over):
    info = {"ncpu": core.fresh_int("ncpu", 1), "levelmax": core.fresh_int("levelmax", 1), "ndim": ndim,
            "boxlen": core.fresh_real("boxlen"), "lmax": None}
    info["lmax"] = info["levelmax"]
    info.update(over)
    return info


def amr_reader(f=None):
    r = M(AMR).AmrReader()
    r.bytes = f if f is not None else G.new_file("amr")
    r.offsets = G.zero_offsets()
    return r


@unit("C01", "AmrReader.read_header", targets=[AMR + ":AmrReader.read_header"], cases=[{"label": "any_header"}],
      replay=NIO.replay_loader, uses=[], inline=["read_binary_data (verified separately, executed here)"])
def amr_header(case):
    r = amr_reader()
    f = r.bytes
    info = mk_info()
    ncpu, lm = info["ncpu"], info["levelmax"]
    # header parameters as the file holds them (the grammar is a function of these)
    fid = f.fileid
    P = {"ncpu": ncpu, "levelmax": lm}
    w0 = G.Walker()
    first = {}
    # positions of the records that *define* the sizes: read them off the grammar prefix
    w = G.Walker()
    w.rec("i", 1)
    w.rec("i", 1)
    p_nxyz = w.rec("i", 3)
    w.rec("i", 1)
    w.rec("i", 1)
    p_nb = w.rec("i", 1)
    w.rec("i", 1)
    w.rec("d", 1)
    p_nout = w.rec("i", 3)
    nx, ny, nz = [smisc.decode(fid, "i", p_nxyz + 4 * k) for k in range(3)]
    nboundary = smisc.decode(fid, "i", p_nb)
    noutput = smisc.decode(fid, "i", p_nout)
    # well-formedness of the file (preconditions): non-negative sizes
    for v in (nx, ny, nz):
        core.assume(v >= 1)
    core.assume(nboundary >= 0)
    core.assume(noutput >= 0)
    r.read_header(info)
    has_b = bool(nboundary > 0)
    P.update(nboundary=nboundary, noutput=noutput, ncoarse=nx * ny * nz, has_boundary=has_b)
    wk = G.Walker()
    # key_size is whatever the record marker of bound_key says
    P["key_size"] = core.fresh_int("key_size_placeholder", 0, register=False)
    pos_by = G.amr_header(wk, P)
    key_size = smisc.decode(fid, "i", pos_by["bound_key_marker"])
    P["key_size"] = key_size
    wk = G.Walker()
    pos_by = G.amr_header(wk, P)
    expected = [("nxyz", "i", 3, pos_by["nxyz"]), ("nboundary", "i", 1, pos_by["nboundary"]),
                ("noutput", "i", 1, pos_by["noutput"]), ("dtold", "d", lm, pos_by["dtold"]),
                ("dtnew", "d", lm, pos_by["dtnew"]), ("numbl", "i", ncpu * lm, pos_by["numbl"])]
    if has_b:
        expected.append(("numbb", "i", nboundary * lm, pos_by["numbb"]))
    expected.append(("keysize", "i", 1, pos_by["bound_key_marker"]))
    G.prove_reads("read", f, expected)
    prove("end_at_first_block", G.pos(r.offsets) == pos_by["end"])
    prove("meta.nboundary", r.meta["nboundary"] == nboundary)
    for k, v in enumerate((nx, ny, nz)):
        prove("meta.xbound[%d]" % k, r.meta["xbound"][k] == SV(core.trunc(SV(v.real(), "r") / 2).real(), "r"))
    # grid-count table layout: ngridlevel[c, l] is entry (l * ncpu + c) of numbl
    c = core.fresh_int("c", 0)
    l = core.fresh_int("l", 0)
    core.assume(c < ncpu)
    core.assume(l < lm)
    tab = r.meta["ngridlevel"]
    prove("numbl.layout", tab.elem((c, l)) == smisc.decode(fid, "i", pos_by["numbl"] + 4 * (l * ncpu + c)))
    if has_b:
        b = core.fresh_int("b", 0)
        core.assume(b < nboundary)
        prove("numbb.layout", tab.elem((ncpu + b, l)) == smisc.decode(fid, "i", pos_by["numbb"] + 4 * (l * nboundary + b)))
    prove("table.shape", core.conj(tab.shape[0] == ncpu + nboundary, tab.shape[1] == lm))
    j = core.fresh_int("j", 0)
    core.assume(j < lm)
    prove("dtold.value", info["dtold"].elem((j,)) == smisc.decode(fid, "d", pos_by["dtold"] + 8 * j))
    prove("dtnew.value", info["dtnew"].elem((j,)) == smisc.decode(fid, "d", pos_by["dtnew"] + 8 * j))
    core.cover("with_boundary" if has_b else "without_boundary")


_VH = [{"label": k, "kind": k} for k in ("hydro", "grav", "rt")]


@unit("C01", "read_header", targets=["osyris.io.hydro:HydroReader.read_header", "osyris.io.grav:GravReader.read_header",
                                     "osyris.io.rt:RtReader.read_header", "osyris.io.hydro:HydroReader.read_domain_header",
                                     "osyris.io.grav:GravReader.read_domain_header", "osyris.io.rt:RtReader.read_domain_header"],
      cases=_VH, replay=NIO.replay_loader)
def var_headers(case):
    cls = {"hydro": ("osyris.io.hydro", "HydroReader"), "grav": ("osyris.io.grav", "GravReader"),
           "rt": ("osyris.io.rt", "RtReader")}[case["kind"]]
    r = getattr(M(cls[0]), cls[1])()
    r.bytes = G.new_file(case["kind"])
    r.offsets = G.zero_offsets()
    info = {}
    r.read_header(info)
    w = G.Walker()
    h = G.var_header(w, case["kind"])
    prove("header.end", G.pos(r.offsets) == h["end"])
    if case["kind"] == "hydro":
        prove("gamma.position", core.conj(len(r.bytes.reads) == 1, SV.lift(r.bytes.reads[0][2]) == h["gamma"]))
        prove("gamma.value", info["gamma"] == smisc.decode(r.bytes.fileid, "d", h["gamma"]))
    p0 = G.pos(r.offsets)
    r.read_domain_header()
    w2 = G.Walker(p0)
    prove("domain_header.advance", G.pos(r.offsets) == G.var_domain_header(w2))


# --------------------------------------------------------------------------------------
# one (level, domain) block of the AMR file: geometry, leaf mask, offsets
# --------------------------------------------------------------------------------------
_BLK = [{"label": "ndim=%d" % d, "ndim": d} for d in (1, 2, 3)]


def amr_block_setup(ndim, lmax_rel="any"):
    r = amr_reader()
    info = mk_info(ndim=ndim)
    units, lib = G.units_library(["level", "cpu", "dx", "position_x", "position_y", "position_z", "x"])
    info["ordering type"] = "none"  # cpu pre-selection is C04's subject
    info["infofile"] = "info"
    r.initialize(meta=info, units=units, select={})
    r.offsets = G.fresh_offsets("amr")
    r.meta["xbound"] = [core.fresh_real("xb%d" % k) for k in range(3)]
    return r, info, units, lib


def amr_block_body(case, full_load=True):
    """one owned (level, domain) block.  full_load: the preconditions of an unselected load of a
    well-formed output (lmax == levelmax; no cell of the deepest level is refined)"""
    return _amr_block(case, full_load)


@unit("C01", "AmrReader.block", targets=[AMR + ":AmrReader.initialize", AMR + ":AmrReader.allocate_buffers",
                                         AMR + ":AmrReader.read_level_header", AMR + ":AmrReader.read_cacheline_header",
                                         AMR + ":AmrReader.read_variables", AMR + ":AmrReader.read_footer",
                                         AMR + ":AmrReader.make_conditions", RD + ":Reader.descriptor_to_variables",
                                         RD + ":Reader.allocate_buffers", RD + ":Reader.make_conditions"],
      cases=_BLK, replay=NIO.replay_loader, max_paths=64)
def amr_block(case):
    _amr_block(case, True)


def _amr_block(case, full_load):
    ndim = case["ndim"]
    tt = 2 ** ndim
    r, info, units, lib = amr_block_setup(ndim)
    if not full_load:
        lm = core.fresh_int("lmax", 1)
        core.assume(lm <= info["levelmax"])
        info["lmax"] = lm
    f = r.bytes
    g = core.fresh_int("ncache", 1)
    ilevel = core.fresh_int("ilevel", 0)
    core.assume(ilevel < info["levelmax"])
    cpuid = core.fresh_int("cpuid", 0)
    p0 = G.pos(r.offsets)
    r.allocate_buffers(g, tt)
    r.read_level_header(ilevel, tt)
    r.read_cacheline_header(g, ndim)
    w = G.Walker(p0)
    blk = G.amr_block(w, g, ndim)
    prove("xg.reads", core.conj(len(f.reads) == ndim, [core.conj(SV.lift(f.reads[k][2]) == blk["xg"][k], f.reads[k][0] == "d",
                                                                                    SV.lift(f.reads[k][1]) == g) for k in range(min(ndim, len(f.reads)))]))
    prove("son.start", G.pos(r.offsets) == blk["son"][0] - 4)
    for ind in range(tt):
        r.read_variables(g, ind, ilevel, cpuid, info)
    prove("son.reads", core.conj(len(f.reads) == ndim + tt, [SV.lift(f.reads[ndim + k][2]) == blk["son"][k] for k in range(tt) if ndim + k < len(f.reads)]))
    r.read_footer(g, tt)
    prove("block.end", G.pos(r.offsets) == blk["end"])
    # contents of the buffers for an arbitrary grid j and every cell index ind
    j = core.fresh_int("j", 0)
    core.assume(j < g)
    half = core.pow2(-(ilevel + 1))  # cell size at 1-based level ilevel+1
    for ind in range(tt):
        row = ind * g + j
        bits = [ind % 2, (ind // 2) % 2, ind // 4]
        V = r.variables
        prove("level[%d]" % ind, V["level"]["buffer"]._array.elem((row,)) == ilevel + 1)
        prove("cpu[%d]" % ind, V["cpu"]["buffer"]._array.elem((row,)) == cpuid + 1)
        prove("dx[%d]" % ind, V["dx"]["buffer"]._array.elem((row,)) == half * info["boxlen"] * lib["dx"].magnitude)
        for d in range(ndim):
            key = "position_" + "xyz"[d]
            xg = smisc.decode(f.fileid, "d", blk["xg"][d] + 8 * j)
            centre = (xg + (bits[d] - 0.5) * half - r.meta["xbound"][d]) * info["boxlen"] * lib[key].magnitude
            prove("%s[%d]" % (key, ind), V[key]["buffer"]._array.elem((row,)) == centre)
        son = smisc.decode(f.fileid, "i", blk["son"][ind] + 4 * j)
        if full_load:
            # well-formed tree: a cell of the deepest level has no son oct
            core.assume((ilevel < info["levelmax"] - 1) | (son <= 0))
            leaf = ~(son > 0)
        else:
            leaf = ~((son > 0) & (ilevel < info["lmax"] - 1))
        prove("leaf[%d]" % ind, SV(core.bterm(r.ref.elem((row,))) == core.bterm(leaf), "b"))
    for key in ("level", "cpu", "dx") + tuple("position_" + c for c in "xyz"[:ndim]):
        prove("unit[%s]" % key, r.variables[key]["buffer"].unit == lib[key].units)
        prove("buffer_length[%s]" % key, r.variables[key]["buffer"].shape[0] == g * tt)
    cond = r.make_conditions({})
    prove("conditions.leaf_only", list(cond.keys()) == ["leaf"] and cond["leaf"] is r.ref)


@unit("C01", "AmrReader.step_over", targets=[AMR + ":AmrReader.step_over"], cases=_BLK, replay=NIO.replay_loader)
def amr_step_over(case):
    ndim = case["ndim"]
    r = amr_reader()
    r.offsets = G.fresh_offsets("amr")
    g = core.fresh_int("ncache", 1)
    p0 = G.pos(r.offsets)
    r.step_over(g, 2 ** ndim, ndim)
    w = G.Walker(p0)
    blk = G.amr_block(w, g, ndim)
    prove("skip_equals_block", G.pos(r.offsets) == blk["end"])


# --------------------------------------------------------------------------------------
# hydro / grav / rt variables of one block
# --------------------------------------------------------------------------------------
_VB = [{"label": "ndim=%d,%s" % (d, sel), "ndim": d, "select": sel} for d in (1, 2, 3) for sel in ("all",)]
_VB_SKIP = [{"label": "ndim=%d,%s" % (d, sel), "ndim": d, "select": sel} for d in (1, 2, 3) for sel in ("some_skipped",)]


def var_reader(names, read_flags, lib_units):
    r = M(RD).Reader(kind="mesh")
    r.bytes = G.new_file("hydro")
    r.offsets = G.fresh_offsets("hyd")
    descriptor = {n: "d" for n in names}
    select = {n: flag for n, flag in zip(names, read_flags)}
    r.descriptor_to_variables(descriptor=descriptor, meta={}, units=lib_units, select=select)
    return r


@unit("C01", "Reader.block", targets=[RD + ":Reader.read_variables", RD + ":Reader.allocate_buffers",
                                      RD + ":Reader.descriptor_to_variables", RD + ":Reader.step_over"],
      cases=_VB, replay=NIO.replay_loader, max_paths=64)
def var_block(case):
    _var_block(case)


def _var_block(case):
    ndim = case["ndim"]
    tt = 2 ** ndim
    names = ["density", "velocity_x", "pressure"]
    flags = [True, True, True] if case["select"] == "all" else [True, False, True]
    units, lib = G.units_library(names)
    r = var_reader(names, flags, units)
    f = r.bytes
    g = core.fresh_int("ncache", 1)
    p0 = G.pos(r.offsets)
    r.allocate_buffers(g, tt)
    for ind in range(tt):
        r.read_variables(g, ind, 0, 0, {})
    w = G.Walker(p0)
    pay = G.var_block(w, g, ndim, ["d"] * len(names))
    prove("block.end", G.pos(r.offsets) == w.pos)
    j = core.fresh_int("j", 0)
    core.assume(j < g)
    for iv, (n, fl) in enumerate(zip(names, flags)):
        item = r.variables[n]
        prove("read_flag[%s]" % n, item["read"] is fl)
        if not fl:
            prove("skipped_has_no_buffer[%s]" % n, item["buffer"] is None)
            continue
        prove("unit[%s]" % n, item["buffer"].unit == lib[n].units)
        for ind in range(tt):
            want = smisc.decode(f.fileid, "d", pay[ind][iv] + 8 * j) * lib[n].magnitude
            prove("value[%s,%d]" % (n, ind), item["buffer"]._array.elem((ind * g + j,)) == want)
    # skipping the whole block advances exactly as reading it
    r2 = var_reader(names, flags, units)
    r2.offsets = dict(zip(G.OFFSET_KEYS, [core.fresh_int("q_" + k, 0) for k in G.OFFSET_KEYS]))
    q0 = G.pos(r2.offsets)
    r2.step_over(g, tt, ndim)
    w2 = G.Walker(q0)
    G.var_block(w2, g, ndim, ["d"] * len(names))
    prove("step_over.skip_equals_block", G.pos(r2.offsets) == w2.pos)


# --------------------------------------------------------------------------------------
# unit library and derived variables
# --------------------------------------------------------------------------------------
@unit("C01", "configure_units", targets=["osyris.config.defaults:configure_units"], cases=[{"label": "library"}], replay=NIO.replay_units)
def configure_units(case):
    d = M("osyris.config.defaults")
    units = O().units
    ud, ul, ut = [core.fresh_real(n) for n in ("unit_d", "unit_l", "unit_t")]
    for v in (ud, ul, ut):
        core.assume(v > 0)
    lib = d.configure_units(units, ud, ul, ut)

    def chk(keys, mag, unit_expr, tag=None):
        want = units(unit_expr)
        for k in keys:
            q = lib[k]
            prove("%s.magnitude" % k, mag(q.magnitude))
            prove("%s.unit" % k, q.units == want)

    vel = ul / ut
    chk(["density"], lambda m: m == ud, "g / cm**3")
    chk(["velocity", "velocity_*"], lambda m: m * ut == ul, "cm / s")
    chk(["momentum", "momentum_*"], lambda m: m * ut == ud * ul, "g / cm**2 / s")
    chk(["acceleration", "grav_acceleration", "grav_acceleration_*"], lambda m: m * ut * ut == ul, "cm / s**2")
    chk(["energy", "internal_energy", "thermal_pressure", "pressure", "radiative_energy", "radiative_energy_*"],
        lambda m: m * ut * ut == ud * ul * ul, "erg / cm**3")
    chk(["time"], lambda m: m == ut, "s")
    chk(["length", "x", "y", "z", "position", "position_*", "dx"], lambda m: m == ul, "cm")
    chk(["mass"], lambda m: m == ud * ul * ul * ul, "g")
    chk(["temperature"], lambda m: m == 1, "K")
    chk(["grav_potential"], lambda m: m * ut * ut == ul * ul, "cm**2 / s**2")
    pi4 = core.rv(fractions.Fraction(4 * 3.141592653589793))
    for k in ("magnetic_field", "B_left", "B_left_*", "B_right", "B_right_*", "B_field", "B_field_*", "B_*_left", "B_*_right"):
        m = lib[k].magnitude
        prove("%s.magnitude" % k, (m >= 0) & (m * m * ut * ut == SV(pi4, "r") * ud * ul * ul))
        prove("%s.unit" % k, lib[k].units == units("G"))
    prove("code_units_kept", lib["unit_d"] is ud and lib["unit_l"] is ul and lib["unit_t"] is ut)


_UL = [{"label": l} for l in ("exact", "wildcard_suffix", "wildcard_infix", "default", "exact_beats_wildcard")]


@unit("C01", "UnitsLibrary.__getitem__", targets=["osyris.units.library:UnitsLibrary.__getitem__"], cases=_UL, replay=NIO.replay_units)
def units_library_lookup(case):
    ul = M("osyris.units.library").UnitsLibrary
    q = {k: object() for k in ("density", "velocity_*", "B_*_left", "velocity_x")}
    default = object()
    lib = ul(library=dict(q), default_unit=default)
    if case["label"] == "exact":
        prove("exact", lib["density"] is q["density"])
    elif case["label"] == "wildcard_suffix":
        prove("suffix", lib["velocity_y"] is q["velocity_*"] and lib["velocity_zz"] is q["velocity_*"])
        prove("needs_one_char", lib["velocity_"] is default)
    elif case["label"] == "wildcard_infix":
        prove("infix", lib["B_x_left"] is q["B_*_left"])
    elif case["label"] == "default":
        prove("default", lib["unknown_var"] is default and lib["dens"] is default)
    else:
        prove("exact_first", lib["velocity_x"] is q["velocity_x"])


@unit("C01", "additional_variables", targets=["osyris.config.defaults:additional_variables"],
      uses=["_binary_op", "Array.to", "Array._wrap_numpy"], cases=[{"label": "mass"}, {"label": "B_field"}, {"label": "missing"}],
      replay=NIO.replay_units)
def additional_variables(case):
    osy = O()
    d = M("osyris.config.defaults")
    dims = A.Dims()
    core.assume(dims.n >= 1)
    g = osy.Datagroup()
    data = {"mesh": g}
    i = core.fresh_int("i", 0)
    core.assume(i < dims.n)
    if case["label"] == "mass":
        rho = A.mk_array("rho", dims, "1d", unit=osy.units("g/cm**3"), dt=snp.dtype("float64"))
        dx = A.mk_array("dx", dims, "1d", unit=osy.units("cm"), dt=snp.dtype("float64"))
        g["density"], g["dx"] = rho, dx
        d.additional_variables(data)
        m = g["mass"]
        msun = osy.units("M_sun")
        prove("mass.unit", m.unit == msun)
        prove("mass.value", m._array.elem((i,)) * msun.scale == rho._array.elem((i,)) * dx._array.elem((i,)) ** 3)
        prove("no_B_field", "B_field" not in g.keys())
    elif case["label"] == "B_field":
        u = spint.sym_unit("uB")
        dt = snp.dtype("float64")
        bl = osy.Vector(*[A.mk_array("bl" + c, dims, "1d", unit=u, dt=dt) for c in "xyz"])
        br = osy.Vector(*[A.mk_array("br" + c, dims, "1d", unit=u, dt=dt) for c in "xyz"])
        g["B_left"], g["B_right"] = bl, br
        d.additional_variables(data)
        b = g["B_field"]
        for c in "xyz":
            bc = getattr(b, c)
            prove("B_field.%s" % c, bc._array.elem((i,)) * bc.unit.scale * 2
                  == (getattr(bl, c)._array.elem((i,)) + getattr(br, c)._array.elem((i,))) * u.scale)
            prove("B_field.dimension.%s" % c, bc.unit.same_dim(u))
    else:
        g["density"] = A.mk_array("rho", dims, "1d")
        d.additional_variables(data)
        prove("nothing_added", list(g.keys()) == ["density"])


@bounded("C01", "native", "end-to-end: synthesized RAMSES outputs (ndim 1-3, ncpu 1-4, levelmax<=5, nboundary 0-2, noutput 1-5, "
                          "ghost/boundary grids, 2-8 variables, grav/rt, random unit_d/l/t) loaded and compared with the written tree")
def native(tier, seed):
    from pyvc import nativerun

    return nativerun.run("contracts.native_io:sweep_c01", tier, seed, timeout=3000)


# --------------------------------------------------------------------------------------
# composition: the real Loader.load on a file-system model (structure bounded, contents symbolic)
# --------------------------------------------------------------------------------------
from . import io_load as IL  # noqa: E402

import os  # noqa: E402

LAYOUTS = {
    "1d,1cpu,2lev": dict(ndim=1, ncpu=1, levelmax=2, nboundary=0),
    "1d,2cpu,1lev,ghosts": dict(ndim=1, ncpu=2, levelmax=1, nboundary=0),
    "2d,1cpu,2lev": dict(ndim=2, ncpu=1, levelmax=2, nboundary=0),
    "1d,2cpu,2lev,ghosts": dict(ndim=1, ncpu=2, levelmax=2, nboundary=0),
    "3d,2cpu,1lev,boundary": dict(ndim=3, ncpu=2, levelmax=1, nboundary=1),
    "2d,2cpu,2lev,some_empty": dict(ndim=2, ncpu=2, levelmax=2, nboundary=1, empty=((1, 1, 1), (2, 0, 2), (2, 1, 0))),
}


@unit("C01", "Loader.load", targets=["osyris.io.loader:Loader.load", "osyris.io.loader:Loader.__init__",
                                     "osyris.io.hydro:HydroReader.initialize", AMR + ":AmrReader.initialize",
                                     IOU + ":generate_fname", IOU + ":make_vector_arrays"],
      cases=[{"label": k, "layout": k} for k in LAYOUTS
             if os.environ.get("PYVC_TIER") == "thorough" or k in ("1d,1cpu,2lev", "1d,2cpu,1lev,ghosts")],
      replay=NIO.replay_loader, max_paths=256,
      inline=["all reader methods (each also verified separately above)", "Datagroup.__setitem__", "Vector.__init__"])
def load_full(case):
    lay = IL.Layout(label=case["layout"], **LAYOUTS[case["layout"]]).setup()
    try:
        ld, meta, units, lib, out = IL.run_load(lay)
    finally:
        lay.fs.uninstall()
    prove("groups", sorted(out.keys()) == ["mesh", "part"] or sorted(out.keys()) == ["mesh"])
    pieces, masks = lay.expected(lib, meta, actual_masks=lay.masks_seen)
    # every file of every cpu was opened, each reader ended exactly at the end of its file's grammar
    for c in range(1, lay.ncpu + 1):
        prove("opened[%d]" % c, IL.fname("amr", c) in lay.fs.opened and IL.fname("hydro", c) in lay.fs.opened)
    c_last = lay.ncpu
    prove("amr.ends_at_end_of_file", G.pos(ld.readers["amr"].offsets) == lay.end_amr[c_last])
    prove("hydro.ends_at_end_of_file", G.pos(ld.readers["hydro"].offsets) == lay.end_hydro[c_last])
    total = IL.compare_mesh("mesh", lay, out, pieces, lib, lay.ndim)
    prove("meta.ncells", meta["ncells"] == total)
    if "level" in out["mesh"].keys():
        if lay.ndim > 1:
            prove("vectors_assembled", "position" in out["mesh"].keys() and "position_x" not in out["mesh"].keys())
        else:
            prove("1d_position_stays_scalar", "position_x" in out["mesh"].keys())
