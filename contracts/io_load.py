"""Structure-bounded symbolic composition of Loader.load (shared by C01, C12, C13, C15).

The real Loader.load and all reader methods are executed on a file system model whose binary files
have ARBITRARY contents (observed through the ghost `decode`) and arbitrary symbolic header sizes,
grid counts and unit factors; what is fixed per case is the loop structure only: ncpu, levelmax,
nboundary, ndim and which (level, domain) blocks are empty.  The expected result is rebuilt
independently from the record grammar (io_common.Walker).
"""
import z3

from pyvc import core
from pyvc.api import M, O
from pyvc.core import SV, prove
from pyvc.stubs import misc as smisc
from pyvc.stubs import np as snp
from pyvc.stubs import pint as spint

from . import io_common as G


class FS:
    """file system model: binary files by name, descriptor tables"""

    def __init__(self, descriptors):
        self.files = {}
        self.descriptors = descriptors  # name fragment -> rows
        self.opened = []

    def open(self, name, mode):
        self.opened.append(name)
        if name not in self.files:
            self.files[name] = G.new_file(name)
        return self.files[name]

    def loadtxt(self, fname, dtype, delimiter, skiprows):
        for frag, rows in self.descriptors.items():
            if frag in fname:
                return smisc.StrTable(rows)
        raise IOError(fname)

    def install(self):
        smisc.FILES["open"] = self.open
        smisc.FILES["loadtxt"] = self.loadtxt

    def uninstall(self):
        smisc.FILES["open"] = None
        smisc.FILES["loadtxt"] = None


def fname(kind, cpu, nout=1):
    return "output_%05d/%s_%05d.out%05d" % (nout, kind, nout, cpu)


class Layout:
    """one structural case: concrete ncpu/levelmax/nboundary/ndim and the emptiness pattern;
    everything else about the files is symbolic"""

    def __init__(self, ndim, ncpu, levelmax, nboundary, empty=(), hydro_vars=("density", "pressure"), label=""):
        self.ndim, self.ncpu, self.levelmax, self.nboundary = ndim, ncpu, levelmax, nboundary
        self.empty = set(empty)  # (cpu file, level0, domain0) blocks with zero grids
        self.hydro_vars = list(hydro_vars)
        self.label = label
        self.ndom = ncpu + nboundary

    def setup(self):
        """assume the header values that fix the structure; returns per file the grammar positions"""
        self.fs = FS({"hydro_file_descriptor": [[str(k + 1), " " + n, " d"] for k, n in enumerate(self.hydro_vars)]})
        self.fs.install()
        self.amr, self.hyd = {}, {}
        self.P, self.hdr, self.numb = {}, {}, {}
        for c in range(1, self.ncpu + 1):
            f = self.fs.open(fname("amr", c), "rb")
            h = self.fs.open(fname("hydro", c), "rb")
            self.amr[c], self.hyd[c] = f, h
            fid = f.fileid
            w = G.Walker()
            w.rec("i", 1)
            w.rec("i", 1)
            p_nxyz = w.rec("i", 3)
            w.rec("i", 1)
            w.rec("i", 1)
            p_nb = w.rec("i", 1)
            w.rec("i", 1)
            w.rec("d", 1)
            p_nout = w.rec("i", 3)
            nxyz = [smisc.decode(fid, "i", p_nxyz + 4 * k) for k in range(3)]
            for v in nxyz:
                core.assume(v >= 1)
            nb = smisc.decode(fid, "i", p_nb)
            core.assume(nb == self.nboundary)
            nout = smisc.decode(fid, "i", p_nout)
            core.assume(nout >= 0)
            P = {"ncpu": self.ncpu, "levelmax": self.levelmax, "nboundary": self.nboundary, "noutput": nout,
                 "ncoarse": nxyz[0] * nxyz[1] * nxyz[2], "has_boundary": self.nboundary > 0, "key_size": 0}
            wk = G.Walker()
            pos0 = G.amr_header(wk, P)
            ks = smisc.decode(fid, "i", pos0["bound_key_marker"])
            core.assume(ks >= 0)
            P["key_size"] = ks
            wk = G.Walker()
            pos_by = G.amr_header(wk, P)
            self.P[c], self.hdr[c] = P, pos_by
            self.P[c]["nxyz"] = nxyz
            # grid counts: numb[c][(level0, domain0)]
            numb = {}
            for l in range(self.levelmax):
                for d in range(self.ndom):
                    if d < self.ncpu:
                        t = smisc.decode(fid, "i", pos_by["numbl"] + 4 * (l * self.ncpu + d))
                    else:
                        t = smisc.decode(fid, "i", pos_by["numbb"] + 4 * (l * self.nboundary + (d - self.ncpu)))
                    if (c, l, d) in self.empty:
                        core.assume(t == 0)
                        numb[(l, d)] = 0
                    else:
                        core.assume(t >= 1)
                        numb[(l, d)] = t
            self.numb[c] = numb
        del self.fs.opened[:]
        return self

    def meta(self):
        return {"ncpu": self.ncpu, "levelmax": self.levelmax, "levelmin": self.levelmax, "ndim": self.ndim, "boxlen": core.fresh_real("boxlen"),
                "infile": "output_00001", "nout": 1, "path": "", "infofile": "output_00001/info_00001.txt",
                "ordering type": "none", "ncells": 0, "nparticles": 0}

    # -- expected data from the grammar ---------------------------------------------------
    def blocks(self, c):
        """walk both files of cpu c: per (level0, domain0) the grammar positions of the block"""
        wa = G.Walker(self.hdr[c]["end"])
        wh = G.Walker()
        G.var_header(wh, "hydro")
        out = {}
        for l in range(self.levelmax):
            for d in range(self.ndom):
                G.var_domain_header(wh)
                g = self.numb[c][(l, d)]
                if isinstance(g, int) and g == 0:
                    continue
                a = G.amr_block(wa, g, self.ndim)
                v = G.var_block(wh, g, self.ndim, ["d"] * len(self.hydro_vars))
                out[(l, d)] = (g, a, v)
        self.end_amr, self.end_hydro = getattr(self, "end_amr", {}), getattr(self, "end_hydro", {})
        self.end_amr[c], self.end_hydro[c] = wa.pos, wh.pos
        return out

    def amr_end_after_levels(self, c, lmax):
        """byte position in the AMR file of cpu c after the blocks of levels 1..lmax"""
        wa = G.Walker(self.hdr[c]["end"])
        for l in range(lmax):
            for d in range(self.ndom):
                g = self.numb[c][(l, d)]
                if isinstance(g, int) and g == 0:
                    continue
                G.amr_block(wa, g, self.ndim)
        return wa.pos

    def expected(self, lib, info, lmax=None, cpus=None, actual_masks=None, level_pred=None, extra_mask=None):
        """dict variable -> (list of piece arrays in order) rebuilt from the grammar.  `actual_masks`:
        the selection masks the code built, in block order; each is proved to be the leaf mask and is
        then used to select the expected rows (so that code and specification share one row map)"""
        lmax = self.levelmax if lmax is None else lmax
        actual = list(actual_masks) if actual_masks is not None else None
        tt = 2 ** self.ndim
        pieces = {k: [] for k in ["level", "cpu", "dx"] + ["position_" + c for c in "xyz"[: self.ndim]] + self.hydro_vars}
        masks = []
        for c in (cpus or range(1, self.ncpu + 1)):
            blocks = self.blocks(c)
            fa, fh = self.amr[c].fileid, self.hyd[c].fileid
            xb = [core.trunc(SV(v.real(), "r") / 2).real() for v in self.P[c]["nxyz"]]
            xb = [SV(t, "r") for t in xb]
            for l in range(lmax):
                key = (l, c - 1)
                if key not in blocks:
                    continue
                g, a, v = blocks[key]
                half = core.pow2(-(l + 1))
                n = g * tt

                def ind_j(row, g=g):
                    # rows of a block buffer are ind-major: row = ind * g + j  (ind concrete per slice)
                    return row

                def son_at(idx, a=a, g=g, fa=fa):
                    out = None
                    for ind in range(tt - 1, -1, -1):
                        val = smisc.decode(fa, "i", a["son"][ind] + 4 * (idx[0] - ind * g))
                        out = val if out is None else core.ite(SV.lift(idx[0]) < (ind + 1) * g, val, out)
                    return out

                def per_ind(f, g=g, n=n):
                    # same shape of construction as a block buffer: one slice assignment per cell index
                    buf = snp.empty((n,), "float64")
                    for ind in range(tt):
                        buf[ind * g:(ind + 1) * g] = snp.ndarray.from_elem(lambda idx, ind=ind: f(ind, idx[0]), (g,), "float64")
                    return buf.snapshot()

                # element functions of every variable of this block, from the grammar
                elem_of = {"level": (lambda idx, l=l: l + 1), "cpu": (lambda idx, c=c: c),
                           "dx": (lambda idx, half=half: half * info["boxlen"] * lib["dx"].magnitude)}
                for dd in range(self.ndim):
                    k = "position_" + "xyz"[dd]

                    def pos_fn(ind, j, dd=dd, a=a, half=half, k=k, fa=fa, xb=xb):
                        bit = [ind % 2, (ind // 2) % 2, ind // 4][dd]
                        xg = smisc.decode(fa, "d", a["xg"][dd] + 8 * j)
                        return (xg + (bit - 0.5) * half - xb[dd]) * info["boxlen"] * lib[k].magnitude

                    elem_of[k] = per_ind(pos_fn)
                for iv, name in enumerate(self.hydro_vars):
                    def val_fn(ind, j, iv=iv, v=v, name=name, fh=fh):
                        return smisc.decode(fh, "d", v[ind][iv] + 8 * j) * lib[name].magnitude

                    elem_of[name] = per_ind(val_fn)

                keep = True if level_pred is None else bool(level_pred(l + 1))
                if not keep:
                    base = lambda idx: False  # noqa: E731
                elif l < lmax - 1:
                    base = lambda idx, s=son_at: ~(s(idx) > 0)  # noqa: E731
                else:
                    base = lambda idx: True  # noqa: E731
                if extra_mask is not None:
                    def mfn(idx, base=base, elem_of=elem_of, c=c, l=l):
                        b = base(idx)
                        e = extra_mask(c, l, lambda name: elem_of[name](idx))
                        if b is True:
                            return e
                        if b is False:
                            return False
                        return SV.lift(b) & SV.lift(e)
                else:
                    mfn = base
                mask = snp.ndarray.from_elem(mfn, (n,), "bool")
                if actual is not None:
                    got = actual.pop(0) if actual else None
                    prove("sel.one_mask_per_owned_block[cpu%d,level%d]" % (c, l + 1), got is not None)
                    if got is not None:
                        prove("sel.length[cpu%d,level%d]" % (c, l + 1), core.conj(got.ndim == 1, got.shape[0] == n))
                        r0 = core.fresh_int("selrow_%d_%d" % (c, l), 0, register=False)
                        core.assume(r0 < n)
                        prove("sel.is_the_specified_mask[cpu%d,level%d]" % (c, l + 1),
                              SV(core.bterm(snp._to_bool(got.elem((r0,)))) == core.bterm(snp._to_bool(mask.elem((r0,)))), "b"))
                        mask = got
                masks.append(mask)

                def piece(fn, dt="float64", n=n, mask=mask):
                    arr = snp.ndarray.from_elem(fn, (n,), dt)
                    return arr[mask]

                pieces["level"].append(piece(elem_of["level"], "int32"))
                pieces["cpu"].append(piece(elem_of["cpu"], "int32"))
                pieces["dx"].append(piece(elem_of["dx"]))
                for dd in range(self.ndim):
                    k = "position_" + "xyz"[dd]
                    pieces[k].append(piece(elem_of[k]))
                for name in self.hydro_vars:
                    pieces[name].append(piece(elem_of[name]))
        if actual is not None:
            prove("sel.no_other_masks", len(actual) == 0)
        return pieces, masks


def run_load(layout, select=None, cpu_list=None, loader=None, meta=None, units=None):
    """execute the real Loader.load on the layout's file model"""
    L = M("osyris.io.loader")
    names = ["dx", "x", "position_*"] + list(layout.hydro_vars)
    if units is None:
        units, _ = G.units_library(names)
    lib = units  # look entries up the way the code does (wildcards, default)
    ld = loader if loader is not None else L.Loader(nout=1, path="")
    meta = meta if meta is not None else layout.meta()
    snp.ASTYPE_BOOL_LOG[0] = []
    try:
        out = ld.load(select=select, cpu_list=cpu_list, meta=meta, units=units)
    finally:
        layout.masks_seen = snp.ASTYPE_BOOL_LOG[0]
        snp.ASTYPE_BOOL_LOG[0] = None
    return ld, meta, units, lib, out


def compare_mesh(tag, layout, out, pieces, lib, ndim, names=None):
    """the mesh group equals the concatenation of the expected pieces (row by row, all variables)"""
    mesh = out["mesh"]
    total = 0
    for p in pieces["level"]:
        total = total + p.shape[0]
    if len(mesh.keys()) == 0:
        # nothing selected at all: legal only when there are no rows
        prove("%s.empty_only_if_no_rows" % tag, SV.lift(total) == 0)
        return total
    keys = names if names is not None else [k for k in pieces]
    for k in keys:
        if k.startswith("position_") and ndim > 1:
            arr = getattr(mesh["position"], k[-1])
        else:
            arr = mesh[k]
        prove("%s.length[%s]" % (tag, k), core.conj(arr._array.ndim == 1, arr._array.shape[0] == total))
        want = snp.concatenate(pieces[k]) if len(pieces[k]) > 1 else pieces[k][0]
        q = core.fresh_int("row_%s" % k, 0)
        core.assume(q < total)
        prove("%s.rows[%s]" % (tag, k), arr._array.elem((q,)) == want.elem((q,)))
        unit_key = k
        prove("%s.unit[%s]" % (tag, k), arr.unit == lib[unit_key].units)
    return total
