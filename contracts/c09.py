"""C09 — Vector operations are the component-wise lifting of Array operations."""
import operator

import z3

from pyvc import core
from pyvc.api import O, bounded, unit
from pyvc.core import SV, prove
from pyvc.stubs import np as snp
from pyvc.stubs import pint as spint

from . import arrays as A
from . import native_arrays as N

LEVEL = "proof"
EXPLANATION = ("Vector._binary_op, every Vector dunder, Vector._wrap_numpy (three call shapes), Vector.__init__ "
               "validation, norm, dot and cross are executed symbolically.  Lifting: each component of the result "
               "is proved equal to the same Array operation applied to the corresponding components (Array "
               "operations carry their own contracts, C02/C07).  norm/dot/cross: value and unit postconditions over "
               "phys(), and the algebraic laws (symmetry, antisymmetry, a.(a x b)=0, Lagrange) as polynomial VCs.")
TRUSTED = ["numpy/pint stubs as in C02"]
ASSUMPTIONS = ["dot/cross are specified for operands with the same number of components (cross: 3)",
               "nonlinear real arithmetic: z3 nlsat decides the polynomial identities"]

VEC = "osyris.core.vector"
ARR = A.ARRAY
USES = ["_binary_op", "Array.to", "Array._wrap_numpy"]


def mk_vector(name, dims, nvec, unit=None, dt=None, shape="1d"):
    Vector = O().Vector
    unit = unit if unit is not None else spint.sym_unit("u" + name)
    dt = dt if dt is not None else snp.sym_dtype("dt" + name)
    return Vector(*[A.mk_array(name + c, dims, shape, unit=unit, dt=dt) for c in "xyz"[:nvec]])


def vclone(v):
    Vector = O().Vector
    return Vector(*[A.clone(c) for c in v._xyz.values()], name=v.name)


BIN = {"__add__": operator.add, "__sub__": operator.sub, "__mul__": operator.mul, "__truediv__": operator.truediv,
       "__lt__": operator.lt, "__le__": operator.le, "__gt__": operator.gt, "__ge__": operator.ge,
       "__eq__": operator.eq, "__ne__": operator.ne}
LOGIC = {"__and__": operator.and_, "__or__": operator.or_, "__xor__": operator.xor}
RKINDS = ["Vector", "Array", "number_float", "number_int", "ndarray", "Quantity"]

_BIN_CASES = [{"label": "%s,nvec=%d,%s" % (o, n, k), "op": o, "nvec": n, "kind": k}
              for o in BIN for n in (1, 2, 3) for k in RKINDS]


def component_equiv(tag, got, want):
    """component Array of the Vector result == the Array-level result"""
    Array = O().Array
    prove(tag + ".is_array", isinstance(got, Array) and isinstance(want, Array))
    ga, wa = got._array, want._array
    prove(tag + ".ndim", ga.ndim == wa.ndim)
    prove(tag + ".shape", SV(snp._shape_eq_term(ga.shape, wa.shape), "b"))
    prove(tag + ".dtype", ga.dtype.idx() == wa.dtype.idx())
    idx = A.skolem_index(wa.shape, "r")
    prove(tag + ".values", A._eqv(ga.elem(idx), wa.elem(idx)))
    prove(tag + ".unit", A.same_unit_quantity(got.unit, want.unit))


@unit("C09", "Vector._binary_op", targets=[VEC + ":_binary_op"] + [VEC + ":Vector." + o for o in BIN], uses=USES,
      cases=_BIN_CASES, replay=N.replay_vector_op,
      inline=["Vector.__init__", "Vector._xyz", "Vector._validate_component", "Vector.nvec", "Base.__array_ufunc__"])
def lifting(case):
    Vector, Array = O().Vector, O().Array
    dims = A.Dims()
    n = case["nvec"]
    v = mk_vector("v", dims, n)
    if case["kind"] == "Vector":
        w = mk_vector("w", dims, n)
    else:
        w = A.mk_operand(case["kind"], "w", dims, "1d" if case["kind"] in ("Array", "ndarray") else "0d")
    op = BIN[case["op"]]
    v2 = vclone(v)
    w2 = vclone(w) if case["kind"] == "Vector" else A.clone(w)
    exc = (spint.DimensionalityError, ValueError)
    want = {}
    want_exc = None
    try:
        for c in "xyz"[:n]:
            wc = getattr(w2, c) if case["kind"] == "Vector" else w2
            want[c] = op(getattr(v2, c), wc)
    except exc as e:
        want_exc = e
    try:
        r, got_exc = op(v, w), None
    except exc as e:
        r, got_exc = None, e
    prove("raises_iff_component_op_raises", (want_exc is None) == (got_exc is None))
    if want_exc is not None or got_exc is not None:
        return
    prove("result_is_vector", isinstance(r, Vector))
    prove("nvec", r.nvec == n)
    for c in "xyz"[:n]:
        component_equiv("lift." + c, getattr(r, c), want[c])
    for c in "xyz"[n:]:
        prove("absent." + c, getattr(r, c) is None)
    core.cover("lifted")


_MISMATCH = [{"label": "%s,%dvs%d" % (o, a, b), "op": o, "a": a, "b": b} for o in ("__add__", "__mul__", "__lt__")
             for a, b in ((1, 2), (2, 3), (3, 1), (3, 2))]


@unit("C09", "Vector._binary_op.nvec", targets=[VEC + ":_binary_op"], uses=USES, cases=_MISMATCH, replay=N.replay_vector_op)
def nvec_mismatch(case):
    dims = A.Dims()
    v = mk_vector("v", dims, case["a"])
    w = mk_vector("w", dims, case["b"], unit=v.unit)
    try:
        BIN[case["op"]](v, w)
        raised = False
    except ValueError:
        raised = True
    prove("rejected", raised)


_UN = [{"label": "%s,nvec=%d" % (o, n), "op": o, "nvec": n} for o in ("__neg__", "__pow__2", "__rmul__", "__rtruediv__",
                                                                      "__radd__", "__rsub__", "__invert__")
       for n in (1, 2, 3)]


@unit("C09", "Vector.unary_reflected", targets=[VEC + ":Vector.__neg__", VEC + ":Vector.__pow__", VEC + ":Vector.__rmul__",
                                                 VEC + ":Vector.__rtruediv__", VEC + ":Vector.__radd__",
                                                 VEC + ":Vector.__rsub__", VEC + ":Vector.__invert__"], uses=USES,
      cases=_UN, replay=N.replay_vector_op, inline=["Vector._wrap_numpy", "Base.__array_ufunc__"])
def unary(case):
    Vector = O().Vector
    dims = A.Dims()
    n = case["nvec"]
    op = case["op"]
    if op == "__invert__":
        v = Vector(*[A.mk_array("v" + c, dims, "1d", unit=spint.REGISTRY.dimensionless, dt=snp.dtype("bool"), kind="b")
                     for c in "xyz"[:n]])
    elif op in ("__radd__", "__rsub__"):
        v = mk_vector("v", dims, n, unit=spint.REGISTRY.dimensionless)
    else:
        v = mk_vector("v", dims, n)
    v2 = vclone(v)
    k = core.fresh_real("k")
    f = {"__neg__": lambda x: -x, "__pow__2": lambda x: x ** 2, "__rmul__": lambda x: k * x,
         "__rtruediv__": lambda x: k / x, "__radd__": lambda x: k + x, "__rsub__": lambda x: k - x,
         "__invert__": lambda x: ~x}[op]
    r = f(v)
    prove("result_is_vector", isinstance(r, Vector) and r.nvec == n)
    for c in "xyz"[:n]:
        got = getattr(r, c)
        comp = getattr(v2, c)
        idx = A.skolem_index(comp.shape, "r")
        x = comp._array.elem(idx)
        s = comp.unit.scale
        g = got._array.elem(idx) * got.unit.scale
        if op == "__neg__":
            prove(c + ".phys", g == -(x * s))
        elif op == "__pow__2":
            prove(c + ".phys", g == (x * s) * (x * s))
        elif op == "__rmul__":
            prove(c + ".phys", g == k * (x * s))
        elif op == "__rtruediv__":
            core.assume(x != 0)
            core.assume(k != 0)
            prove(c + ".phys", g * (x * s) == k)
        elif op == "__radd__":
            prove(c + ".phys", g == k + x * s)
        elif op == "__rsub__":
            prove(c + ".phys", g == k - x * s)
        else:
            prove(c + ".value", SV(core.bterm(got._array.elem(idx)) == z3.Not(core.bterm(x)), "b"))


# --------------------------------------------------------------------------------------
_WN = [{"label": "%s,nvec=%d" % (s, n), "shape": s, "nvec": n} for s in ("unary", "binary", "binary_scalar", "seq")
       for n in (1, 2, 3)]


@unit("C09", "Vector._wrap_numpy", targets=[VEC + ":Vector._wrap_numpy", "osyris.core.base:Base.__array_ufunc__",
                                            "osyris.core.base:Base.__array_function__"], uses=USES, cases=_WN,
      replay=N.replay_vector_numpy)
def wrap_numpy(case):
    Vector = O().Vector
    dims = A.Dims()
    n = case["nvec"]
    v = mk_vector("v", dims, n)
    v2 = vclone(v)
    sh = case["shape"]
    if sh == "unary":
        r = snp.sqrt(v)
        want = {c: snp.sqrt(getattr(v2, c)) for c in "xyz"[:n]}
    elif sh == "binary":
        w = mk_vector("w", dims, n)
        w2 = vclone(w)
        r = snp.multiply(v, w)
        want = {c: snp.multiply(getattr(v2, c), getattr(w2, c)) for c in "xyz"[:n]}
    elif sh == "binary_scalar":
        k = core.fresh_real("k")
        r = snp.multiply(v, k)
        want = {c: snp.multiply(getattr(v2, c), k) for c in "xyz"[:n]}
    else:
        w = mk_vector("w", dims, n, unit=v.unit)
        w2 = vclone(w)
        r = snp.concatenate([v, w])
        want = {c: snp.concatenate([getattr(v2, c), getattr(w2, c)]) for c in "xyz"[:n]}
    prove("result_is_vector", isinstance(r, Vector) and r.nvec == n)
    for c in "xyz"[:n]:
        component_equiv("lift." + c, getattr(r, c), want[c])


@unit("C09", "Vector.__init__", targets=[VEC + ":Vector.__init__", VEC + ":Vector._validate_component"],
      cases=[{"label": l} for l in ("ok", "bad_shape", "bad_unit", "unit_with_array")], replay=None)
def init(case):
    Vector = O().Vector
    dims = A.Dims()
    x = A.mk_array("x", dims, "1d")
    if case["label"] == "ok":
        y = A.mk_array("y", dims, "1d", unit=x.unit)
        v = Vector(x, y)
        prove("nvec", v.nvec == 2)
        prove("shares_x_buffer", v.x._array.buf is x._array.buf)
        prove("unit", v.y.unit == x.unit and v.unit == x.unit)
        return
    try:
        if case["label"] == "bad_shape":
            k = core.fresh_int("k", 0)
            core.assume(k != dims.n)
            y = A.mk_array("y", dims, "1d", unit=x.unit)
            y._array = snp.sym_array("y2", (k,), y._array.dtype)
            Vector(x, y)
        elif case["label"] == "bad_unit":
            y = A.mk_array("y", dims, "1d")
            core.assume(~(y.unit == x.unit))
            Vector(x, y)
        else:
            Vector(x, unit=spint.sym_unit("uu"))
        raised = False
    except ValueError:
        raised = True
    prove("rejected", raised)


# --------------------------------------------------------------------------------------
def pv(v, idx):
    """phys of each component at idx"""
    return [getattr(v, c)._array.elem(idx) * getattr(v, c).unit.scale for c in "xyz"[: v.nvec]]


@unit("C09", "Vector.norm", targets=[VEC + ":Vector.norm"], cases=[{"label": "nvec=%d" % n, "nvec": n} for n in (1, 2, 3)],
      replay=N.replay_norm)
def norm(case):
    dims = A.Dims()
    v = mk_vector("v", dims, case["nvec"])
    r = v.norm
    idx = A.skolem_index(v.shape)
    p = pv(v, idx)
    g = r._array.elem(idx) * r.unit.scale
    tot = p[0] * p[0]
    for q in p[1:]:
        tot = tot + q * q
    prove("nonnegative", g >= 0)
    prove("value", g * g == tot)
    prove("unit", A.same_unit_quantity(r.unit, v.unit))


@unit("C09", "Vector.norm.current_components", targets=[VEC + ":Vector.norm"], uses=USES,
      cases=[{"label": "nvec=%d,%s" % (n, how), "nvec": n, "how": how} for n in (2, 3) for how in ("component_handle", "result_mutated")],
      replay=N.replay_norm)
def norm_history(case):
    """norm is a function of the components as they are NOW: an earlier norm call, an in-place update of a component through
    a handle kept by the caller, or an in-place update of an earlier result must not show in a later result"""
    dims = A.Dims()
    v = mk_vector("v", dims, case["nvec"])
    r0 = v.norm
    if case["how"] == "component_handle":
        h = v.y
        h += h  # Array.__iadd__ doubles the values in place and keeps the unit (C17); no attribute of v is re-assigned
        prove("same_component_object", v.y is h)
    else:
        r0 += r0
    r = v.norm
    idx = A.skolem_index(v.shape)
    p = pv(v, idx)
    g = r._array.elem(idx) * r.unit.scale
    tot = p[0] * p[0]
    for q in p[1:]:
        tot = tot + q * q
    prove("nonnegative", g >= 0)
    prove("value", g * g == tot)
    prove("fresh_result", r is not r0 and not snp.shares_memory(r._array, r0._array))


_UNITREL = ("same", "compatible")


@unit("C09", "Vector.dot", targets=[VEC + ":Vector.dot"], uses=USES,
      cases=[{"label": "nvec=%d,%s" % (n, u), "nvec": n, "rel": u} for n in (1, 2, 3) for u in _UNITREL],
      replay=N.replay_dot)
def dot(case):
    dims = A.Dims()
    a = mk_vector("a", dims, case["nvec"])
    ub = a.unit if case["rel"] == "same" else spint.sym_unit("ub", family=a.unit)
    b = mk_vector("b", dims, case["nvec"], unit=ub)
    r = a.dot(b)
    r2 = b.dot(a)
    idx = A.skolem_index(a.shape)
    pa, pb = pv(a, idx), pv(b, idx)
    want = pa[0] * pb[0]
    for x, y in zip(pa[1:], pb[1:]):
        want = want + x * y
    g = r._array.elem(idx) * r.unit.scale
    prove("value", g == want)
    da, db, dr = [d.t for d in a.unit.dims], [d.t for d in ub.dims], [d.t for d in r.unit.dims]
    prove("unit_dim_is_product", SV(z3.And(*[x == y + w for x, y, w in zip(dr, da, db)]), "b"))
    prove("symmetric", g == r2._array.elem(idx) * r2.unit.scale)


@unit("C09", "Vector.cross", targets=[VEC + ":Vector.cross"], uses=USES,
      cases=[{"label": u, "rel": u} for u in _UNITREL], replay=N.replay_cross)
def cross(case):
    dims = A.Dims()
    a = mk_vector("a", dims, 3)
    ub = a.unit if case["rel"] == "same" else spint.sym_unit("ub", family=a.unit)
    b = mk_vector("b", dims, 3, unit=ub)
    r = a.cross(b)
    r2 = b.cross(a)
    idx = A.skolem_index(a.shape)
    (ax, ay, az), (bx, by, bz) = pv(a, idx), pv(b, idx)
    g = pv(r, idx)
    g2 = pv(r2, idx)
    prove("value.x", g[0] == ay * bz - az * by)
    prove("value.y", g[1] == az * bx - ax * bz)
    prove("value.z", g[2] == ax * by - ay * bx)
    da, db, dr = [d.t for d in a.unit.dims], [d.t for d in ub.dims], [d.t for d in r.unit.dims]
    prove("unit_dim_is_product", SV(z3.And(*[x == y + w for x, y, w in zip(dr, da, db)]), "b"))
    for k, c in enumerate("xyz"):
        prove("antisymmetric." + c, g[k] == -g2[k])
    prove("triple_product_zero", ax * g[0] + ay * g[1] + az * g[2] == 0)
    d = ax * bx + ay * by + az * bz
    prove("lagrange", g[0] * g[0] + g[1] * g[1] + g[2] * g[2] + d * d
          == (ax * ax + ay * ay + az * az) * (bx * bx + by * by + bz * bz))


@bounded("C09", "native", "operators x nvec 1-3 x rhs kinds x unit pairs; norm/dot/cross identities on random vectors")
def native(tier, seed):
    from pyvc import nativerun

    return nativerun.run("contracts.native_c09:sweep", tier, seed)


from . import foundation  # noqa: E402

foundation.register("C09")
