"""C08 — Unit conversion preserves the physical quantity; defined units have true values."""
import ast
import fractions
import os
import re

import z3

from pyvc import core, loader
from pyvc.api import O, bounded, unit
from pyvc.core import SV, prove
from pyvc.stubs import np as snp
from pyvc.stubs import pint as spint

from . import arrays as A
from . import native_arrays as N
from .c02 import check_to

LEVEL = "other"
EXPLANATION = ("Array.to and Vector.to are verified deductively (same quantity, exact ratio, source untouched, "
               "raises on dimension mismatch, round trip and chain lemmas over the contract of `to`). The catalogue "
               "of constants is a finite, exhaustive exact-rational check of every units.define literal found in "
               "the AST of configure_constants against reference values. 'Equivalent spellings give the same unit' "
               "is a property of pint's parser: bounded run-time table only.")
TRUSTED = ["pint Quantity.to / unit algebra (pyvc/stubs/pint.py)", "reference values in contracts/ref_constants.py "
           "(IAU 2015 nominal values, CODATA)"]
ASSUMPTIONS = ["round trip 'to rounding' is proved exactly over the reals",
               "unit spelling equivalence is exercised on a finite table only (bounded)"]

ARR = A.ARRAY
VEC = "osyris.core.vector"


@unit("C08", "Array.to", targets=[ARR + ":Array.to"], cases=[{"label": s, "shape": s} for s in A.SHAPES],
      replay=N.replay_to, inline=["Units.__call__", "Array.__init__"])
def to_unit(case):
    check_to(case["shape"])


@unit("C08", "Array.to.lemmas", targets=[ARR + ":Array.to"], uses=["Array.to"],
      cases=[{"label": "roundtrip"}, {"label": "chain"}], replay=N.replay_to)
def to_lemmas(case):
    """lemmas over the contract of `to` (callee replaced by its contract)"""
    dims = A.Dims()
    a = A.mk_array("a", dims, "1d")
    ub = spint.sym_unit("ub", family=a.unit)
    uc = spint.sym_unit("uc", family=a.unit)
    idx = A.skolem_index(a.shape)
    v0 = a._array.elem(idx)
    if case["label"] == "roundtrip":
        back = a.to(ub).to(a.unit)
        prove("roundtrip.values", back._array.elem(idx) == v0)
        prove("roundtrip.unit", back.unit == a.unit)
    else:
        via = a.to(ub).to(uc)
        direct = a.to(uc)
        prove("chain.values", via._array.elem(idx) == direct._array.elem(idx))
        prove("chain.unit", via.unit == direct.unit)


@unit("C08", "Array.to.history", targets=[ARR + ":Array.to", ARR + ":Array.unit"],
      cases=[{"label": "convert,relabel,convert"}, {"label": "convert,inplace_multiply,convert"}], replay=N.replay_to_history,
      inline=["Units.__call__", "Array.__init__"])
def to_history(case):
    """the result of to() depends on the array's current values and unit only, not on earlier conversions"""
    Array = O().Array
    dims = A.Dims()
    a = A.mk_array("a", dims, "1d")
    target = spint.sym_unit("ut", family=None)
    try:
        a.to(target)
    except spint.DimensionalityError:
        pass
    u2 = spint.sym_unit("u2")
    if case["label"].startswith("convert,relabel"):
        a.unit = u2
    else:
        a._unit = u2  # what an in-place operation does to the unit (Array._wrap_numpy, out=)
        a.unit = u2
    snap = A.snapshot(a)
    try:
        r = a.to(target)
    except spint.DimensionalityError:
        prove("raises_only_if_dim_differs", ~u2.same_dim(target))
        return
    prove("no_raise_implies_same_dim", u2.same_dim(target))
    idx = A.skolem_index(a.shape)
    prove("same_quantity_as_current_state", r._array.elem(idx) * target.scale == snap["elem"](idx) * u2.scale)
    prove("unit_is_requested", r.unit == target)


@unit("C08", "Vector.to", targets=[VEC + ":Vector.to"], uses=["Array.to"],
      cases=[{"label": "nvec=%d" % n, "nvec": n} for n in (1, 2, 3)], replay=N.replay_vector_to,
      inline=["Vector.__init__", "Vector._xyz", "Vector._validate_component"])
def vector_to(case):
    Vector = O().Vector
    dims = A.Dims()
    u = spint.sym_unit("ua")
    dt = snp.sym_dtype("dt")
    comps = [A.mk_array("v" + c, dims, "1d", unit=u, dt=dt) for c in "xyz"[: case["nvec"]]]
    v = Vector(*comps)
    target = spint.sym_unit("ut")
    snaps = {c: A.snapshot(getattr(v, c)) for c in "xyz"[: case["nvec"]]}
    try:
        r = v.to(target)
    except spint.DimensionalityError:
        prove("raises_only_if_dim_differs", ~u.same_dim(target))
        for c, s in snaps.items():
            A.unchanged("raise." + c, s)
        return
    prove("result_is_vector", isinstance(r, Vector))
    prove("nvec", r.nvec == case["nvec"])
    idx = A.skolem_index(v.shape)
    for c in "xyz"[: case["nvec"]]:
        rc = getattr(r, c)
        prove("%s.unit" % c, rc.unit == target)
        prove("%s.same_quantity" % c, rc._array.elem(idx) * target.scale == snaps[c]["elem"](idx) * u.scale)
        A.unchanged("source." + c, snaps[c])
    for c in "xyz"[case["nvec"]:]:
        prove("%s.absent" % c, getattr(r, c) is None)


# --------------------------------------------------------------------------------------
# constants catalogue: finite, exhaustive, exact rationals; reads defaults.py of the tree
# --------------------------------------------------------------------------------------
@bounded("C08", "constants", "exhaustive over every units.define literal in configure_constants (finite)")
def constants(tier, seed):
    from . import ref_constants as R

    path = os.path.join(loader.SRC, "osyris", "config", "defaults.py")
    tree = ast.parse(open(path).read())
    fn = [n for n in tree.body if isinstance(n, ast.FunctionDef) and n.name == "configure_constants"][0]
    lits = []
    for n in ast.walk(fn):
        if isinstance(n, ast.Call) and getattr(n.func, "attr", "") == "define" and n.args \
                and isinstance(n.args[0], ast.Constant):
            lits.append(n.args[0].value)
    found = {}
    viol = []
    for lit in lits:
        m = re.match(r"^\s*(\w+)\s*=\s*([-+0-9.eE]+)\s*\*\s*(.+?)\s*((?:=\s*\w+\s*)*)$", lit)
        if not m:
            viol.append({"name": "C08.constants.parse", "input": lit, "observed": "literal does not parse"})
            continue
        name, num, unit_expr, aliases = m.group(1), m.group(2), m.group(3).strip(), m.group(4)
        aliases = [a.strip() for a in aliases.split("=") if a.strip()]
        import decimal

        found[name] = (fractions.Fraction(decimal.Decimal(num)), unit_expr.replace(" ", ""), aliases)
    samples = []
    for name, (ref, unit_expr, tol, aliases) in R.CONSTANTS.items():
        if name not in found:
            viol.append({"name": "C08.constants.%s" % name, "input": name, "observed": "not defined"})
            continue
        val, uexpr, al = found[name]
        refv = fractions.Fraction(ref)
        rel = abs(val - refv) / refv
        ok = rel <= fractions.Fraction(tol) and uexpr == unit_expr.replace(" ", "") and all(a in al for a in aliases)
        samples.append({"name": name, "value": float(val), "unit": uexpr, "aliases": al, "ref": float(refv),
                        "rel_err": float(rel), "ok": ok})
        if not ok:
            viol.append({"name": "C08.constants.%s" % name, "input": lit_for(lits, name),
                         "observed": "value %s %s aliases %s; reference %s %s (tol %s) aliases %s"
                                     % (float(val), uexpr, al, float(refv), unit_expr, tol, aliases)})
    return {"status": "violation" if viol else "ok", "cases": len(R.CONSTANTS), "distinct": len(samples),
            "violations": viol, "samples": samples[:3], "kind": "finite-exhaustive"}


def lit_for(lits, name):
    for l in lits:
        if l.strip().startswith(name):
            return l
    return name


@bounded("C08", "native", "spelling table (14 pairs) + conversion sweep over 7 unit families x 4 dtypes x 3 shapes")
def native(tier, seed):
    from pyvc import nativerun

    return nativerun.run("contracts.native_c08:sweep", tier, seed)
