"""C17 — In-place updates, copies and views follow a fixed aliasing contract."""
import copy as pycopy

import z3

from pyvc import core
from pyvc.api import O, bounded, unit
from pyvc.core import SV, prove
from pyvc.stubs import np as snp
from pyvc.stubs import pint as spint

from . import arrays as A
from . import native_arrays as N

LEVEL = "proof"
EXPLANATION = ("Heap obligations on the real in-place dunders of Array and Vector (result is the same object, the "
               "ndarray buffer is kept, values/unit as x op y, rhs frame, for the aliasing cases disjoint / y is x / "
               "y a view of x), on copy/__copy__/__deepcopy__ of Array and Vector (fresh object and buffer), on "
               "Datagroup.copy / Dataset.copy (fresh container, identical members), on copy.deepcopy of containers "
               "(every member fresh) and on basic slicing (fresh object, same buffer).")
TRUSTED = ["numpy: out= writes into the given array, basic slicing returns a view, .copy() allocates (pyvc/stubs/np.py)",
           "copy.deepcopy: the real CPython implementation is executed"]
ASSUMPTIONS = ["in-place results representable in x's dtype (numpy's same-kind casting refusal is outside the statement)"]

ARR = A.ARRAY
VEC = "osyris.core.vector"
IOPS = {"__iadd__": "+", "__isub__": "-", "__imul__": "*", "__itruediv__": "/"}

_WN = [{"label": "%s,out=" % f, "f": f} for f in ("add", "subtract", "multiply", "divide")]


@unit("C17", "_wrap_numpy", targets=[ARR + ":Array._wrap_numpy"], cases=_WN, replay=N.replay_inplace)
def wn_out(case):
    f = case["f"]
    tagb = "a" if f in A.SAME else "b"
    A.check_wrap_numpy(f, [("Array", "1d", "a"), ("Array", "1d", tagb)], out=True)


KINDS = ["Array", "number_float", "ndarray", "Quantity"]
_I_CASES = [{"label": "%s,%s,%s" % (o, k, al), "op": o, "kind": k, "alias": al}
            for o in IOPS for k in KINDS for al in (("disjoint", "same", "view") if k == "Array" else ("disjoint",))]


def _apply(opname, x, y):
    if opname == "__iadd__":
        x += y
    elif opname == "__isub__":
        x -= y
    elif opname == "__imul__":
        x *= y
    else:
        x /= y
    return x


@unit("C17", "Array", targets=[ARR + ":Array." + o for o in IOPS], uses=["_binary_op", "Array.to", "Array._wrap_numpy"],
      cases=_I_CASES, replay=N.replay_inplace, inline=["Base.__array_ufunc__", "Array.__init__"])
def inplace(case):
    Array = O().Array
    opname = case["op"]
    dims = A.Dims()
    x = A.mk_array("a", dims, "1d")
    if case["alias"] == "same":
        y = x
    elif case["alias"] == "view":
        y = x[:]
        prove("pre.view_shares_buffer", y._array.buf is x._array.buf)
    else:
        y = A.mk_operand(case["kind"], "b", dims, "1d" if case["kind"] in ("Array", "ndarray") else "0d")
    other_ref = x  # a second reference to the same Array (e.g. held by another Datagroup)
    sx, sy = A.snapshot(x), A.snapshot(y)
    ux, uy = x.unit, A.unit_of(y)
    try:
        r = _apply(opname, x, y)
    except spint.DimensionalityError:
        prove("raises_only_for_additive_dim_mismatch", opname in ("__iadd__", "__isub__"))
        prove("raises_only_if_dim_differs", ~ux.same_dim(uy))
        A.unchanged("raise.x", sx)
        return
    prove("same_object", r is other_ref)
    prove("array_object_kept", r._array is sx["arr"])
    prove("buffer_kept", r._array.buf is sx["buf"])
    idx = A.skolem_index(sx["shape"])
    pa = sx["elem"](idx) * sx["unit"].scale
    yraw = A.raw(y)
    if isinstance(yraw, snp.ndarray):
        yel = (sy["elem"] if sy.get("elem") is not None else yraw.snapshot())(snp._bc_index(idx, yraw.shape, sx["shape"]))
    else:
        yel = yraw
    uy0 = sy["unit"] if "unit" in sy else uy
    pb = yel * uy0.scale
    pr = other_ref._array.elem(idx) * other_ref.unit.scale
    dx, dy, dr = [d.t for d in sx["unit"].dims], [d.t for d in uy0.dims], [d.t for d in other_ref.unit.dims]
    if opname == "__iadd__":
        prove("value", pr == pa + pb)
        prove("unit_dim", SV(z3.And(*[a == b for a, b in zip(dr, dx)]), "b"))
    elif opname == "__isub__":
        prove("value", pr == pa - pb)
        prove("unit_dim", SV(z3.And(*[a == b for a, b in zip(dr, dx)]), "b"))
    elif opname == "__imul__":
        prove("value", pr == pa * pb)
        prove("unit_dim", SV(z3.And(*[a == b + c for a, b, c in zip(dr, dx, dy)]), "b"))
    else:
        core.assume(pb != 0)
        prove("value", pr * pb == pa)
        prove("unit_dim", SV(z3.And(*[a == b - c for a, b, c in zip(dr, dx, dy)]), "b"))
    if case["alias"] == "disjoint":
        A.unchanged("rhs", sy)
    elif case["alias"] == "view":
        prove("rhs.object_kept", y._array is sy["arr"] and y._unit.sid.t.eq(sy["unit"].sid.t))
    core.cover("updated")


_V_CASES = [{"label": "%s,nvec=%d,%s" % (o, n, k), "op": o, "nvec": n, "kind": k}
            for o in IOPS for n in (1, 2, 3) for k in ("Vector", "Array", "number_float")] + \
           [{"label": "%s,nvec=3,OwnComponent" % o, "op": o, "nvec": 3, "kind": "OwnComponent"} for o in IOPS] + \
           [{"label": "%s,nvec=3,%s" % (o, k), "op": o, "nvec": 3, "kind": k} for o in IOPS
            for k in ("OwnComponentView",)]


@unit("C17", "Vector", targets=[VEC + ":Vector." + o for o in IOPS] + [VEC + ":_binary_op"],
      uses=["_binary_op", "Array.to", "Array._wrap_numpy"], cases=_V_CASES, replay=N.replay_inplace_vector,
      inline=["Vector.__init__", "Vector._xyz", "Vector._validate_component", "Array.__iadd__ (via its contract chain)"])
def inplace_vector(case):
    Vector, Array = O().Vector, O().Array
    dims = A.Dims()
    n = case["nvec"]
    u = spint.sym_unit("ua")
    dt = snp.sym_dtype("dt")
    v = Vector(*[A.mk_array("v" + c, dims, "1d", unit=u, dt=dt) for c in "xyz"[:n]])
    if case["kind"] == "Vector":
        uw = spint.sym_unit("ub")
        w = Vector(*[A.mk_array("w" + c, dims, "1d", unit=uw, dt=dt) for c in "xyz"[:n]])
    elif case["kind"] == "Array":
        w = A.mk_array("w", dims, "1d")
        uw = w.unit
    elif case["kind"] == "OwnComponent":
        w = v.x  # the right operand is one of the vector's own components (aliasing)
        uw = u
    elif case["kind"] == "OwnComponentView":
        w = v.x[:]  # a different Array object on the same buffer as the vector's own component
        uw = u
    elif case["kind"] == "OwnComponentReversedView":
        w = v.y[::-1]
        uw = u
    else:
        w = core.fresh_real("w")
        uw = spint.REGISTRY.dimensionless
    old_comps = {c: getattr(v, c) for c in "xyz"[:n]}
    snaps = {c: A.snapshot(old_comps[c]) for c in old_comps}
    wsn = {c: A.snapshot(getattr(w, c)) for c in "xyz"[:n]} if case["kind"] == "Vector" else {c: A.snapshot(w) for c in "xyz"[:n]}
    try:
        r = _apply(case["op"], v, w)
    except spint.DimensionalityError:
        prove("raises_only_for_additive_dim_mismatch", case["op"] in ("__iadd__", "__isub__"))
        prove("raises_only_if_dim_differs", ~u.same_dim(uw))
        return
    prove("result_is_vector", isinstance(r, Vector) and r.nvec == n)
    idx = A.skolem_index((dims.n,))
    for c in "xyz"[:n]:
        oc = old_comps[c]
        prove("%s.old_component_buffer_kept" % c, oc._array.buf is snaps[c]["buf"])
        prove("%s.result_shares_buffer" % c, getattr(r, c)._array.buf is snaps[c]["buf"])
        pa = snaps[c]["elem"](idx) * u.scale
        wr = A.raw(w if case["kind"] != "Vector" else getattr(w, c))
        wel = wsn[c]["elem"](idx) if (wsn[c].get("elem") is not None) else wr
        pb = wel * uw.scale
        for who, obj in (("old", oc), ("result", getattr(r, c))):
            pr = obj._array.elem(idx) * obj.unit.scale
            if case["op"] == "__iadd__":
                prove("%s.%s.value" % (c, who), pr == pa + pb)
            elif case["op"] == "__isub__":
                prove("%s.%s.value" % (c, who), pr == pa - pb)
            elif case["op"] == "__imul__":
                prove("%s.%s.value" % (c, who), pr == pa * pb)
            else:
                core.assume(pb != 0)
                prove("%s.%s.value" % (c, who), pr * pb == pa)
        if case["kind"] == "Vector":
            A.unchanged("rhs." + c, wsn[c])
    if case["kind"] == "Array":
        A.unchanged("rhs", wsn["x"])


# --------------------------------------------------------------------------------------
_COPY = [{"label": "%s,%s" % (t, how), "type": t, "how": how} for t in ("Array", "Vector")
         for how in ("copy", "__copy__", "__deepcopy__")]


@unit("C17", "copy", targets=[ARR + ":Array.copy", VEC + ":Vector.copy", "osyris.core.base:Base.__copy__",
                              "osyris.core.base:Base.__deepcopy__"], cases=_COPY, replay=N.replay_copy,
      inline=["Array.__init__", "Vector.__init__", "Units.__call__"])
def copies(case):
    Vector, Array = O().Vector, O().Array
    dims = A.Dims()
    if case["type"] == "Array":
        src = A.mk_array("a", dims, "1d")
        parts = [(src, lambda o: o)]
    else:
        u = spint.sym_unit("ua")
        dt = snp.sym_dtype("dt")
        src = Vector(*[A.mk_array("v" + c, dims, "1d", unit=u, dt=dt) for c in "xyz"], name="vec")
        parts = [(getattr(src, c), (lambda c: (lambda o: getattr(o, c)))(c)) for c in "xyz"]
    snaps = [A.snapshot(p) for p, _ in parts]
    mark = snp.alloc_mark()
    if case["how"] == "copy":
        r = src.copy()
    elif case["how"] == "__copy__":
        r = pycopy.copy(src)
    else:
        r = pycopy.deepcopy(src)
    prove("fresh_object", r is not src and type(r) is type(src))
    prove("name_kept", r.name == src.name)
    idx = A.skolem_index((dims.n,))
    for (p, get), s in zip(parts, snaps):
        q = get(r)
        prove("component.fresh_object", q is not p)
        prove("component.fresh_buffer", q._array.buf is not p._array.buf and q._array.buf.stamp > mark)
        prove("component.values", q._array.elem(idx) == s["elem"](idx))
        prove("component.unit", q.unit == s["unit"])
        prove("component.dtype", q._array.dtype.idx() == s["dtype"].idx())
        A.unchanged("source", s)
    # independence in both directions: writing to one buffer leaves the other's elements as they were
    (p0, get0) = parts[0]
    q0 = get0(r)
    before = p0._array.snapshot()
    q0._array[:] = 0.0
    prove("independent.copy_to_source", p0._array.elem(idx) == before(idx))
    beforeq = q0._array.snapshot()
    p0._array[:] = 1.0
    prove("independent.source_to_copy", q0._array.elem(idx) == beforeq(idx))


@unit("C17", "Array.__getitem__", targets=[ARR + ":Array.__getitem__"], cases=[{"label": "slice"}, {"label": "step"}],
      replay=N.replay_view)
def getitem_view(case):
    dims = A.Dims()
    a = A.mk_array("a", dims, "1d")
    lo = core.fresh_int("lo", 0)
    hi = core.fresh_int("hi", 0)
    core.assume(lo <= hi)
    core.assume(hi <= dims.n)
    s = a[lo:hi] if case["label"] == "slice" else a[::2]
    prove("fresh_object", s is not a)
    prove("same_buffer", s._array.buf is a._array.buf)
    prove("unit", s.unit == a.unit)
    prove("name", s.name == a.name)
    if case["label"] == "slice":
        j = core.fresh_int("j", 0)
        core.assume(j < hi - lo)
        prove("rows", s._array.elem((j,)) == a._array.elem((lo + j,)))
        # a write through the slice is seen through the original
        s._array[:] = 7.0
        prove("write_through", a._array.elem((lo + j,)) == 7.0)


@unit("C17", "containers", targets=["osyris.core.datagroup:Datagroup.copy", "osyris.core.datagroup:Datagroup.__copy__",
                                    "osyris.core.dataset:Dataset.copy", "osyris.core.dataset:Dataset.__copy__"],
      cases=[{"label": "Datagroup.copy"}, {"label": "Datagroup.deepcopy"}, {"label": "Dataset.copy"},
             {"label": "Dataset.deepcopy"}], replay=N.replay_container_copy,
      inline=["Datagroup.__init__", "Datagroup.__setitem__", "Dataset.__init__", "Dataset.__setitem__"])
def containers(case):
    osy = O()
    dims = A.Dims()
    a = A.mk_array("a", dims, "1d")
    u = spint.sym_unit("uv")
    dt = snp.sym_dtype("dtv")
    v = osy.Vector(*[A.mk_array("v" + c, dims, "1d", unit=u, dt=dt) for c in "xy"])
    g = osy.Datagroup()
    g["a"] = a
    g["v"] = v
    members = {"a": a, "v": v}
    ds = None
    if case["label"].startswith("Dataset"):
        ds = osy.Dataset()
        ds["g"] = g
        ds.meta["time"] = 1.0
    src = ds if ds is not None else g
    mark = snp.alloc_mark()
    deep = case["label"].endswith("deepcopy")
    r = pycopy.deepcopy(src) if deep else src.copy()
    prove("fresh_container", r is not src and type(r) is type(src))
    rg = r["g"] if ds is not None else r
    if ds is not None:
        prove("keys", list(r.keys()) == ["g"])
        prove("meta_copied", r.meta == ds.meta and r.meta is not ds.meta)
        if deep:
            prove("group_fresh", rg is not g)
        else:
            prove("group_shared", rg is g)
    prove("member_keys", list(rg.keys()) == ["a", "v"])
    idx = A.skolem_index((dims.n,))
    for k, m in members.items():
        if deep:
            prove("%s.fresh" % k, rg[k] is not m)
            arrs = [(rg[k], m)] if k == "a" else [(rg[k].x, m.x), (rg[k].y, m.y)]
            for q, p in arrs:
                prove("%s.fresh_buffer" % k, q._array.buf is not p._array.buf and q._array.buf.stamp > mark)
                prove("%s.values" % k, q._array.elem(idx) == p._array.elem(idx))
                prove("%s.unit" % k, q.unit == p.unit)
        else:
            prove("%s.shared" % k, rg[k] is m)
    if not deep and ds is None:
        # shallow: inserting into the copy does not touch the original container
        rg["b"] = A.mk_array("b", dims, "1d")
        prove("container_independent", list(g.keys()) == ["a", "v"])


@bounded("C17", "native", "aliasing graphs: 4 in-place ops x 4 dtypes x 4 rhs kinds x {disjoint, same, view}, copies, "
                          "views, containers shared between two Datagroups")
def native(tier, seed):
    from pyvc import nativerun

    return nativerun.run("contracts.native_c17:sweep", tier, seed)


from . import foundation  # noqa: E402

foundation.register("C17")
