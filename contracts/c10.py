"""C10 — numpy functions on Arrays return dimensionally correct units or refuse."""
import z3

from pyvc import core
from pyvc.api import O, bounded, unit
from pyvc.core import SV, prove
from pyvc.stubs import np as snp
from pyvc.stubs import pint as spint

from . import arrays as A
from . import native_arrays as N

LEVEL = "other"
EXPLANATION = ("For every function of the catalogue below, Array._wrap_numpy (and Base.__array_ufunc__/"
               "__array_function__, Base.min/max) of the working tree is executed symbolically and compared with "
               "the unit law taken from the statement (values = numpy on the raw values, unit by dimensional "
               "analysis, predicates dimensionless); the `mixed` clause demands that two unit-carrying operands of "
               "a same-unit function are converted or refused.  A native sweep of the whole catalogue against pint "
               "is the bounded stand-in.")
TRUSTED = ["numpy ufunc/array-function semantics and NEP-13/18 dispatch (pyvc/stubs/np.py)",
           "pint unit algebra incl. the unit laws pint applies to multiply/divide/sqrt/square/cbrt/power/reciprocal"]
ASSUMPTIONS = ["catalogue: " + ", ".join(A.SAME + A.TRANSFORM + A.PREDICATE),
               "a plain number or ndarray mixed into a same-unit function is read in the Array's unit (lenient reading "
               "of the statement; only operands that carry a unit are required to be converted or refused)",
               "reductions are uninterpreted functions of the operand's contents (equal contents give equal results)"]

ARR = A.ARRAY
T = [ARR + ":Array._wrap_numpy", "osyris.core.base:Base.__array_ufunc__", "osyris.core.base:Base.__array_function__"]

UNARY_SAME = ["negative", "absolute", "sum", "mean", "amin", "amax", "median", "std", "cumsum", "sort", "diff"]
BINARY_SAME = ["add", "subtract", "maximum", "minimum", "hypot"]
CMPS = ["less", "less_equal", "greater", "greater_equal", "equal", "not_equal"]

CASES = []
for f in UNARY_SAME:
    CASES.append({"label": "%s,Array" % f, "f": f, "spec": [("Array", "1d", "a")]})
for f in ["sum", "amin", "amax", "mean"]:
    CASES.append({"label": "%s,axis=0" % f, "f": f, "spec": [("Array", "2d", "a")], "kwargs": {"axis": 0}})
    CASES.append({"label": "%s,axis=1" % f, "f": f, "spec": [("Array", "2d", "a")], "kwargs": {"axis": 1}})
for f in BINARY_SAME + CMPS:
    CASES.append({"label": "%s,Array-Array,same" % f, "f": f, "spec": [("Array", "1d", "a"), ("Array", "1d", "a")]})
    CASES.append({"label": "%s,Array-number" % f, "f": f, "spec": [("Array", "1d", "a"), ("number_float", "0d", None)]})
    CASES.append({"label": "%s,Array-ndarray" % f, "f": f, "spec": [("Array", "1d", "a"), ("ndarray", "1d", None)]})
for f in ["multiply", "divide"]:
    for k in ("Array", "number_float", "ndarray", "Quantity"):
        CASES.append({"label": "%s,Array-%s" % (f, k), "f": f, "spec": [("Array", "1d", "a"), (k, "1d" if k in ("Array", "ndarray") else "0d", "b" if k in ("Array", "Quantity") else None)]})
    CASES.append({"label": "%s,number-Array" % f, "f": f, "spec": [("number_float", "0d", None), ("Array", "1d", "a")]})
for f in ["sqrt", "square", "cbrt", "reciprocal"]:
    CASES.append({"label": "%s,Array" % f, "f": f, "spec": [("Array", "1d", "a")]})
for k in (2, 3, -1, 0.5):
    CASES.append({"label": "power,k=%s" % k, "f": "power", "spec": [("Array", "1d", "a"), ("const:%s" % k, "0d", None)]})
for k in (2, 3):
    CASES.append({"label": "power,k=ndarray0d(%s)" % k, "f": "power", "spec": [("Array", "1d", "a"), ("nd0:%s" % k, "0d", None)]})
for f in ["isfinite", "isnan", "isinf"]:
    CASES.append({"label": "%s,Array" % f, "f": f, "spec": [("Array", "1d", "a")]})
for f in ["logical_and", "logical_or", "logical_xor"]:
    CASES.append({"label": "%s" % f, "f": f, "spec": [("BoolArray", "1d", None), ("BoolArray", "1d", None)]})
CASES.append({"label": "logical_not", "f": "logical_not", "spec": [("BoolArray", "1d", None)]})
CASES.append({"label": "concatenate,same", "f": "concatenate", "spec": [("Array", "1d", "a"), ("Array", "1d", "a")], "seq": True})
CASES.append({"label": "add,out=", "f": "add", "spec": [("Array", "1d", "a"), ("Array", "1d", "a")], "out": True})
CASES.append({"label": "multiply,out=", "f": "multiply", "spec": [("Array", "1d", "a"), ("Array", "1d", "b")], "out": True})
# out= naming a third Array that carries a different unit: values and unit of the result go there
CASES.append({"label": "add,out=third", "f": "add", "spec": [("Array", "1d", "a"), ("Array", "1d", "a")], "out": "third"})
CASES.append({"label": "negative,out=third", "f": "negative", "spec": [("Array", "1d", "a")], "out": "third"})
CASES.append({"label": "maximum,out=third", "f": "maximum", "spec": [("Array", "1d", "a"), ("Array", "1d", "a")], "out": "third"})
CASES.append({"label": "multiply,out=third", "f": "multiply", "spec": [("Array", "1d", "a"), ("Array", "1d", "b")], "out": "third"})
# (a predicate written into a float out= array is left out: numpy's result then has the out array's dtype, which the
# dtype model of the stub does not follow)


@unit("C10", "_wrap_numpy", targets=T, cases=CASES, replay=N.replay_catalogue,
      inline=["Array._maybe_array", "Array._extract_*", "Array._maybe_unit", "Array.__init__"])
def catalogue(case):
    got, ops = A.check_wrap_numpy(case["f"], case["spec"], kwargs=case.get("kwargs"), seq=case.get("seq", False),
                                  out=case.get("out", False))
    core.cover("compared")


# --------------------------------------------------------------------------------------
# the `mixed` clause, stated from the property: two unit-carrying operands of a same-unit
# function (or of a comparison) in different units are converted, or the call raises
# --------------------------------------------------------------------------------------
MIXED = [{"label": "%s,%s" % (f, rel), "f": f, "rel": rel} for f in BINARY_SAME + CMPS + ["concatenate"]
         for rel in ("compatible", "incompatible")]


@unit("C10", "mixed", targets=T, cases=MIXED, replay=N.replay_mixed, inline=["Base.__array_ufunc__"])
def mixed(case):
    Array = O().Array
    fname = case["f"]
    f = getattr(snp, fname)
    dims = A.Dims()
    a = A.mk_array("a", dims, "1d")
    ub = spint.sym_unit("ub", family=a.unit if case["rel"] == "compatible" else None)
    b = A.mk_array("b", dims, "1d", unit=ub)
    core.assume(~(a.unit == ub))
    if case["rel"] == "incompatible":
        core.assume(~a.unit.same_dim(ub))
    else:
        core.assume(a.unit.scale != ub.scale)
    sa, sb = A.snapshot(a), A.snapshot(b)
    try:
        r = f([a, b]) if fname == "concatenate" else f(a, b)
    except spint.DimensionalityError:
        prove("refused_only_when_incompatible", ~a.unit.same_dim(ub))
        core.cover("refused")
        return
    prove("incompatible_units_refused", a.unit.same_dim(ub))
    if not bool(a.unit.same_dim(ub)):
        return
    sr = r.unit.scale
    if fname == "concatenate":
        i = core.fresh_int("i", 0)
        core.assume(i < dims.n)
        prove("converted.first", r._array.elem((i,)) * sr == sa["elem"]((i,)) * a.unit.scale)
        prove("converted.second", r._array.elem((i + dims.n,)) * sr == sb["elem"]((i,)) * ub.scale)
        return
    idx = A.skolem_index(a.shape)
    pa, pb = sa["elem"](idx) * a.unit.scale, sb["elem"](idx) * ub.scale
    got = r._array.elem(idx)
    if fname in CMPS:
        import operator

        op = {"less": operator.lt, "less_equal": operator.le, "greater": operator.gt, "greater_equal": operator.ge,
              "equal": operator.eq, "not_equal": operator.ne}[fname]
        prove("converted", SV(core.bterm(got) == core.bterm(op(pa, pb)), "b"))
    elif fname == "add":
        prove("converted", got * sr == pa + pb)
    elif fname == "subtract":
        prove("converted", got * sr == pa - pb)
    elif fname == "maximum":
        prove("converted", got * sr == core.ite(pa >= pb, pa, pb))
    elif fname == "minimum":
        prove("converted", got * sr == core.ite(pa <= pb, pa, pb))
    elif fname == "hypot":
        prove("converted", (got * sr) * (got * sr) == pa * pa + pb * pb)


@unit("C10", "where", targets=T, cases=[{"label": "cond=ndarray"}, {"label": "cond=Array"}], replay=N.replay_where,
      inline=["Base.__array_function__"])
def where(case):
    """np.where(cond, a, b) with a, b in one unit: selection keeps the unit of the branches"""
    dims = A.Dims()
    a = A.mk_array("a", dims, "1d")
    b = A.mk_array("b", dims, "1d", unit=a.unit)
    if case["label"] == "cond=Array":
        c = A.mk_array("c", dims, "1d", unit=spint.REGISTRY.dimensionless, dt=snp.dtype("bool"), kind="b")
    else:
        c = A.mk_ndarray("c", dims, "1d", dt=snp.dtype("bool"), kind="b")
    r = snp.where(c, a, b)
    idx = A.skolem_index(a.shape)
    craw = A.raw(c)
    want = core.ite(craw.elem(idx), a._array.elem(idx), b._array.elem(idx))
    prove("values", r._array.elem(idx) == want)
    prove("unit", A.same_unit_quantity(r.unit, a.unit))


@unit("C10", "Base.minmax", targets=["osyris.core.base:Base.min", "osyris.core.base:Base.max"],
      uses=["Array._wrap_numpy"], cases=[{"label": "min"}, {"label": "max"}], replay=None)
def minmax(case):
    dims = A.Dims()
    a = A.mk_array("a", dims, "1d")
    r = a.min() if case["label"] == "min" else a.max()
    want = snp.amin(a._array) if case["label"] == "min" else snp.amax(a._array)
    prove("value", r._array.elem(()) == want.elem(()))
    prove("unit", r.unit == a.unit)


@bounded("C10", "native", "whole catalogue x {float64,float32,int32} x unit assignments (same, compatible, incompatible, "
                          "number, ndarray) x keyword forms; pint Quantities as oracle")
def native(tier, seed):
    from pyvc import nativerun

    return nativerun.run("contracts.native_c10:sweep", tier, seed)


from . import foundation  # noqa: E402

foundation.register("C10")
