"""C13 — Loading a subset of groups or variables equals projecting the full load."""
import itertools
import os

import z3

from pyvc import core
from pyvc.api import M, O, bounded, unit
from pyvc.core import SV, prove
from pyvc.stubs import misc as smisc
from pyvc.stubs import np as snp
from pyvc.stubs import pint as spint

from . import arrays as A
from . import c01, c14
from . import io_common as G
from . import io_load as IL
from . import native_io as NIO

LEVEL = "other"
EXPLANATION = ("Skipping a variable advances the offset counters exactly as reading it (Reader.read_variables, "
               "Reader.step_over; symbolic grid counts, ndim 1-3).  The real Loader.load is executed on the file-system "
               "model with the selection forms of the statement (list of groups, a group switched off, list of variable "
               "names) and each requested variable is proved equal, row by row, to the array rebuilt from the grammar "
               "for the FULL load; excluded variables/groups are absent; the AMR reader is forced when a mesh reader "
               "is active.  make_vector_arrays is checked exhaustively over all name sets of <= 4 names from a "
               "16-name alphabet x ndim 1-3 against the merge rule of the statement (finite, complete for that bound).")
TRUSTED = c01.TRUSTED
ASSUMPTIONS = ["loop structure of load bounded as in C01; name alphabet of make_vector_arrays bounded (16 names, <= 4 per set)"]

RD = "osyris.io.reader"
IOU = "osyris.io.utils"


@unit("C13", "Reader.block", targets=[RD + ":Reader.read_variables", RD + ":Reader.step_over", RD + ":Reader.descriptor_to_variables"],
      cases=c01._VB_SKIP + c01._VB, replay=NIO.replay_subset, max_paths=64)
def skip_equiv(case):
    c01._var_block(case)


@unit("C13", "PartReader.read_header", targets=["osyris.io.part:PartReader.read_header"], cases=c14._DESCS, replay=NIO.replay_subset)
def part_skip(case):
    """skipping a particle variable of any type advances exactly over its record"""
    c14.part_header(case)


_SEL = [
    {"label": "mesh_vars_list", "select": {"mesh": ["density", "level", "position_x"]}, "expect": ["density", "level", "position_x"]},
    {"label": "mesh_one_hydro_var", "select": {"mesh": ["pressure"]}, "expect": ["pressure"]},
    {"label": "name_is_prefix_of_another", "select": {"mesh": ["scalar_1"]}, "expect": ["scalar_1"],
     "hydro_vars": ("density", "scalar_1", "scalar_10")},
    {"label": "groups_list", "select": ["mesh"], "expect": "all"},
    {"label": "part_off", "select": {"part": False}, "expect": "all"},
    {"label": "mesh_off", "select": {"mesh": False}, "expect": None},
    {"label": "only_part_group", "select": ["part"], "expect": None},
]


@unit("C13", "Loader.load", targets=["osyris.io.loader:Loader.load", RD + ":Reader.descriptor_to_variables",
                                     "osyris.io.amr:AmrReader.initialize", "osyris.io.hydro:HydroReader.initialize"],
      cases=[{"label": "%s,%s" % (s["label"], lay), "sel": s, "layout": lay} for s in _SEL
             for lay in (("1d,1cpu,2lev", "1d,2cpu,1lev,ghosts") if os.environ.get("PYVC_TIER") != "thorough" else list(c01.LAYOUTS))],
      replay=NIO.replay_subset, max_paths=256)
def subset_load(case):
    sel = case["sel"]
    kw = dict(c01.LAYOUTS[case["layout"]])
    if "hydro_vars" in sel:
        kw["hydro_vars"] = sel["hydro_vars"]
    lay = IL.Layout(label=case["layout"], **kw).setup()
    try:
        ld, meta, units, lib, out = IL.run_load(lay, select=sel["select"])
    finally:
        lay.fs.uninstall()
    if sel["expect"] is None:
        prove("no_mesh_rows", "mesh" not in out.keys() or len(out["mesh"].keys()) == 0)
        prove("no_mesh_file_read", not any("amr_" in n or "hydro_" in n for n in lay.fs.opened))
        return
    # the reference: what the FULL load returns, rebuilt from the grammar
    pieces, masks = lay.expected(lib, meta, actual_masks=lay.masks_seen)
    allkeys = list(pieces.keys())
    want = allkeys if sel["expect"] == "all" else sel["expect"]
    mesh = out["mesh"]
    if len(mesh.keys()) == 0:
        tot = 0
        for p in pieces["level"]:
            tot = tot + p.shape[0]
        prove("empty_only_if_no_rows", SV.lift(tot) == 0)
        return
    present = set(mesh.keys())
    if lay.ndim > 1 and "position" in present:
        present |= {"position_" + c for c in "xyz"[: lay.ndim]}
    for k in allkeys:
        if k in want:
            prove("requested_present[%s]" % k, k in present)
        else:
            prove("excluded_absent[%s]" % k, k not in present)
    IL.compare_mesh("projection", lay, out, pieces, lib, lay.ndim if "position" in mesh.keys() else 1, names=[k for k in want])
    prove("amr_reader_forced", any("amr_" in n for n in lay.fs.opened))
    prove("amr.ends_at_end_of_file", G.pos(ld.readers["amr"].offsets) == lay.end_amr[lay.ncpu])
    prove("hydro.ends_at_end_of_file", G.pos(ld.readers["hydro"].offsets) == lay.end_hydro[lay.ncpu])


# --------------------------------------------------------------------------------------
# make_vector_arrays: exhaustive over bounded name sets, executed on the real function
# --------------------------------------------------------------------------------------
from .c13_spec import ALPHABET, merge_spec  # noqa: E402


@unit("C13", "make_vector_arrays", targets=[IOU + ":make_vector_arrays"],
      cases=[{"label": "ndim=%d,size<=%d" % (d, 4 if os.environ.get("PYVC_TIER") == "thorough" else 3), "ndim": d,
              "size": 4 if os.environ.get("PYVC_TIER") == "thorough" else 3} for d in (1, 2, 3)],
      replay=NIO.replay_merge)
def merge(case):
    osy = O()
    utils = M(IOU)
    ndim = case["ndim"]
    dims = A.Dims()
    u = spint.sym_unit("u")
    dt = snp.dtype("float64")
    pool = {n: A.mk_array("v%d" % k, dims, "1d", unit=u, dt=dt) for k, n in enumerate(ALPHABET)}
    bad = {"lost": [], "renamed": [], "vector": [], "clash": []}
    nsets = 0
    for size in range(0, case["size"] + 1):
        for names in itertools.combinations(ALPHABET, size):
            nsets += 1
            data = {n: pool[n] for n in names}
            vectors, kept = merge_spec(list(names), ndim)
            clash = [v for v in vectors if v in kept]
            try:
                utils.make_vector_arrays(data, ndim=ndim)
            except Exception as e:
                bad["vector"].append((names, "exception %r" % (e,)))
                continue
            for k in kept:
                if k in clash:
                    if not (k in data and data[k] is pool[k]):
                        bad["clash"].append((names, k))
                    continue
                if k not in data:
                    bad["lost"].append((names, k))
                elif data[k] is not pool[k]:
                    bad["renamed"].append((names, k))
            for v, group in vectors.items():
                if v in clash:
                    continue
                got = data.get(v)
                ok = isinstance(got, osy.Vector) and got.nvec == ndim and all(
                    getattr(got, c)._array.buf is pool[g]._array.buf for c, g in zip("xyz", group)) and not any(g in data for g in group)
                if not ok:
                    bad["vector"].append((names, v))
            extra = [k for k in data if k not in kept and k not in vectors]
            if extra:
                bad["renamed"].append((names, extra))
    prove("enumerated", nsets > 0)
    prove("no_variable_lost", len(bad["lost"]) == 0)
    prove("no_variable_renamed_or_added", len(bad["renamed"]) == 0)
    prove("vector_iff_all_components_present", len(bad["vector"]) == 0)
    prove("existing_name_not_overwritten_by_merge", len(bad["clash"]) == 0)
    if any(bad.values()):
        core.note("make_vector_arrays counter-examples: %r" % {k: v[:3] for k, v in bad.items() if v})
    core.note("name sets enumerated: %d" % nsets)


@bounded("C13", "native", "subset loads vs projected full loads on synthesized outputs (all subsets of <= 6 variables, groups on/off); "
                          "make_vector_arrays name sets up to 5 names natively")
def native(tier, seed):
    from pyvc import nativerun

    return nativerun.run("contracts.native_io:sweep_c13", tier, seed, timeout=3000)
