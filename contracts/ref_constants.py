"""Reference values for the constants catalogue (C08): IAU 2015 Resolution B2/B3 nominal values,
CODATA 2018 for the radiation constant.  (value, base unit expression as written in defaults.py,
relative tolerance, aliases that must exist)."""
CONSTANTS = {
    "bolometric_luminosity": ("3.0128e28", "W", "1e-3", ["L_bol0"]),
    "solar_luminosity": ("3.828e26", "W", "1e-3", ["L_sun"]),
    "earth_mass": ("5.9722e27", "g", "1e-3", ["M_earth"]),
    "jupiter_mass": ("1.8982e30", "g", "1e-3", ["M_jup"]),
    "solar_mass": ("1.9884e33", "g", "1e-3", ["M_sun"]),
    "earth_radius": ("6.3781e8", "cm", "1e-3", ["R_earth"]),
    "jupiter_radius": ("7.1492e9", "cm", "1e-3", ["R_jup"]),
    "solar_radius": ("6.957e10", "cm", "1e-3", ["R_sun"]),
    "radiation_constant": ("7.565733e-15", "erg/cm^3/K^4", "1e-3", ["ar"]),
}
