"""Shared ghost definitions for the RAMSES loader contracts (C01 C04 C12 C13 C14 C15).

The record grammar below is the *specification* of a well-formed RAMSES output (a trusted
transcription of RAMSES' output_amr / output_hydro / output_poisson / rt_output_hydro and
output_part; cross-checked against real reading by the synthesizer self-test in
replay/test_ramses_writer.py).  A Fortran unformatted record with n payload bytes occupies
4 + n + 4 bytes; `Walker` computes the byte position of every record symbolically.
"""
import z3

from pyvc import core
from pyvc.api import M, O
from pyvc.core import SV, prove
from pyvc.stubs import misc as smisc
from pyvc.stubs import np as snp
from pyvc.stubs import pint as spint

SIZE = {"b": 1, "h": 2, "i": 4, "q": 8, "f": 4, "d": 8, "s": 1, "l": 8}
OFFSET_KEYS = "bidnsql"
# bytes counted per unit of each offsets key by read_binary_data ("n" counts records: two 4-byte markers)
KEY_BYTES = {"b": 1, "i": 4, "d": 8, "n": 8, "s": 1, "q": 8, "l": 8}


def pos(offsets):
    """abstraction of the reader's counter dictionary: the byte position it stands for"""
    t = 0
    for k in OFFSET_KEYS:
        t = t + offsets[k] * KEY_BYTES[k]
    return t


def fresh_offsets(prefix="off"):
    d = {}
    for k in OFFSET_KEYS:
        v = core.fresh_int("%s_%s" % (prefix, k), 0)
        d[k] = v
    return d


def zero_offsets():
    return {k: 0 for k in OFFSET_KEYS}


class Walker:
    """walks the record grammar, yielding the payload position of each record"""

    def __init__(self, start=0):
        self.pos = start
        self.records = []

    def rec(self, t, count, name=""):
        payload = self.pos + 4
        self.records.append((name, t, count, payload))
        self.pos = self.pos + 8 + SV.lift(count) * SIZE[t] if isinstance(count, SV) else self.pos + 8 + count * SIZE[t]
        return payload

    def skip_bytes(self, nbytes, name=""):
        payload = self.pos + 4
        self.records.append((name, "raw", nbytes, payload))
        self.pos = self.pos + 8 + nbytes
        return payload


def amr_header(w, P):
    """AMR file header; P: ncpu, levelmax, nboundary, noutput, ncoarse, key_size. Returns payload positions by name."""
    out = {}
    out["ncpu"] = w.rec("i", 1, "ncpu")
    out["ndim"] = w.rec("i", 1, "ndim")
    out["nxyz"] = w.rec("i", 3, "nx,ny,nz")
    out["nlevelmax"] = w.rec("i", 1, "nlevelmax")
    out["ngridmax"] = w.rec("i", 1, "ngridmax")
    out["nboundary"] = w.rec("i", 1, "nboundary")
    out["ngrid_current"] = w.rec("i", 1, "ngrid_current")
    out["boxlen"] = w.rec("d", 1, "boxlen")
    out["noutput"] = w.rec("i", 3, "noutput,iout,ifout")
    out["tout"] = w.rec("d", P["noutput"], "tout")
    out["aout"] = w.rec("d", P["noutput"], "aout")
    out["t"] = w.rec("d", 1, "t")
    out["dtold"] = w.rec("d", P["levelmax"], "dtold")
    out["dtnew"] = w.rec("d", P["levelmax"], "dtnew")
    out["nstep"] = w.rec("i", 2, "nstep,nstep_coarse")
    out["einit"] = w.rec("d", 3, "einit,mass_tot_0,rho_tot")
    out["omega"] = w.rec("d", 7, "omega_m..boxlen_ini")
    out["aexp"] = w.rec("d", 5, "aexp..epot_tot_old")
    out["mass_sph"] = w.rec("d", 1, "mass_sph")
    nl = P["ncpu"] * P["levelmax"]
    out["headl"] = w.rec("i", nl, "headl")
    out["taill"] = w.rec("i", nl, "taill")
    out["numbl"] = w.rec("i", nl, "numbl")
    out["numbtot"] = w.rec("i", 10 * P["levelmax"], "numbtot")
    if P["has_boundary"]:
        nb = P["nboundary"] * P["levelmax"]
        out["headb"] = w.rec("i", nb, "headb")
        out["tailb"] = w.rec("i", nb, "tailb")
        out["numbb"] = w.rec("i", nb, "numbb")
    out["headf"] = w.rec("i", 5, "headf..used_mem_tot")
    out["ordering"] = w.rec("s", 128, "ordering")
    out["bound_key_marker"] = w.pos  # the record marker itself holds key_size
    out["bound_key"] = w.skip_bytes(P["key_size"], "bound_key")
    out["son"] = w.rec("i", P["ncoarse"], "son")
    out["flag1"] = w.rec("i", P["ncoarse"], "flag1")
    out["cpu_map"] = w.rec("i", P["ncoarse"], "cpu_map")
    out["end"] = w.pos
    return out


def amr_block(w, g, ndim):
    """one (level, domain) block of g > 0 grids in an AMR file"""
    tt = 2 ** ndim
    out = {}
    out["ind_grid"] = w.rec("i", g)
    out["next"] = w.rec("i", g)
    out["prev"] = w.rec("i", g)
    out["xg"] = [w.rec("d", g, "xg%d" % k) for k in range(ndim)]
    out["father"] = w.rec("i", g)
    out["nbor"] = [w.rec("i", g) for _ in range(2 * ndim)]
    out["son"] = [w.rec("i", g, "son%d" % k) for k in range(tt)]
    out["cpu_map"] = [w.rec("i", g) for _ in range(tt)]
    out["flag1"] = [w.rec("i", g) for _ in range(tt)]
    out["end"] = w.pos
    return out


def var_header(w, kind):
    """header of a hydro / grav / rt file"""
    if kind == "hydro":
        for n in ("ncpu", "nvar", "ndim", "nlevelmax", "nboundary"):
            w.rec("i", 1, n)
        p = w.rec("d", 1, "gamma")
        return {"gamma": p, "end": w.pos}
    if kind == "grav":
        for n in ("ncpu", "ndim+1", "nlevelmax", "nboundary"):
            w.rec("i", 1, n)
        return {"end": w.pos}
    if kind == "rt":
        for n in ("ncpu", "nrtvar", "ndim", "nlevelmax", "nboundary"):
            w.rec("i", 1, n)
        w.rec("d", 1, "gamma")
        return {"end": w.pos}
    raise ValueError(kind)


def var_domain_header(w):
    w.rec("i", 1, "ilevel")
    w.rec("i", 1, "ncache")
    return w.pos


def var_block(w, g, ndim, types):
    """variables of one (level, domain) block: for ind, for var: g values. Returns payload[ind][ivar]"""
    out = []
    for ind in range(2 ** ndim):
        row = []
        for t in types:
            row.append(w.rec(t, g))
        out.append(row)
    return out


def new_file(label):
    return smisc.SymBytes(label)


def sym_quantity(name, unit_label=None):
    """a unit entry of the units library: magnitude * unit (both arbitrary)"""
    mag = core.fresh_real("mag_" + name)
    core.assume(mag > 0)
    return spint.Quantity(mag, spint.sym_unit("u_" + name))


def units_library(names):
    ul = M("osyris.units.library").UnitsLibrary
    lib = {n: sym_quantity(n) for n in names}
    return ul(library=lib, default_unit=spint.Quantity(1.0, spint.REGISTRY.dimensionless)), lib


def prove_reads(tag, f, expected):
    """the sequence of struct.unpack calls on file f: (typechar, count, byte position) as the grammar says"""
    prove(tag + ".number_of_reads", len(f.reads) == len(expected))
    for k, ((t, c, p), (name, et, ec, ep)) in enumerate(zip(f.reads, expected)):
        prove("%s.%s.type" % (tag, name), t == et)
        prove("%s.%s.count" % (tag, name), SV.lift(c) == ec)
        prove("%s.%s.position" % (tag, name), SV.lift(p) == ep)
