"""C11 — Thick maps reduce the sampled column and scale units consistently."""
import os

import z3

from pyvc import core
from pyvc.api import M, O, bounded, unit
from pyvc.core import SV, prove
from pyvc.stubs import np as snp
from pyvc.stubs import pint as spint

from . import arrays as A
from . import c03
from . import mapkit as K
from . import native_map as NM

LEVEL = "other"
EXPLANATION = ("map(..., dz=...) is executed symbolically as in C03 (kernel replaced by its contract) for every reduction "
               "(sum, mean, min, max and the nan-variants), with the depth resolution given or derived.  Proved for an arbitrary "
               "pixel and an arbitrary depth index k: the depth samples are the centred even grid over [-dz/2, dz/2]; the sample "
               "handed to the kernel is origin + x_i*u + y_j*v + z_k*n; an un-missing sample shows a loaded cell containing that "
               "point; a loaded cell containing it survives the slab and window pre-selections and keeps the sample from being "
               "missing; each returned pixel is numpy's <operation> along the depth axis of the kernel's output for that layer "
               "(times the depth step for sum/nansum), masked iff that is NaN; the unit is layer unit x length for sum/nansum and "
               "unchanged otherwise; the derived depth resolution is round(dz / mean pixel size); each layer uses its own "
               "operation.  The kernel is verified against its contract in C03.")
TRUSTED = c03.TRUSTED + ["numpy reductions over a column with NaN (pyvc/stubs/np.py:_nan_reduce)"]
ASSUMPTIONS = c03.ASSUMPTIONS + ["dz of at least one pixel when the depth resolution is derived (the statement's quantifier)",
                                 "thick maps of 2-D datasets are a recorded finding (bounded check only)"]

OPS = ["sum", "mean", "min", "max", "nansum", "nanmean", "nanmin", "nanmax"]
STUB = {"sum": "sum", "mean": "mean", "min": "amin", "max": "amax", "nansum": "nansum", "nanmean": "nanmean", "nanmin": "nanmin",
        "nanmax": "nanmax"}

_CASES = [{"label": "%s,z_%s" % (op, z), "op": op, "zres": z} for op in OPS for z in ("given", "derived")]
_CASES += [{"label": "%s,z_%s,dx_other_unit" % (op, z), "op": op, "zres": z, "window": "other_unit"} for op, z in (("sum", "given"), ("nansum", "derived"),
                                                                                                                          ("mean", "given"))]
_CASES_Q = [c for c in _CASES if c["zres"] == "given" or c["op"] in ("sum", "nanmean", "nansum")]


def run_thick(case, direction="z", window="same_unit", layers=("scalar",), layer_kwargs=None):
    zres = core.fresh_int("rz", 1) if case["zres"] == "given" else None
    return c03.MapRun(ndim=3, direction=direction, window=window, resolution="dict", layers=layers, thick=True, operation=case["op"],
                      zres=zres, layer_kwargs=layer_kwargs), zres


@unit("C11", "map.thick", targets=[K.MAP + ":map"], uses=["evaluate_on_grid@map"],
      cases=_CASES if os.environ.get("PYVC_TIER") == "thorough" else _CASES_Q, replay=NM.replay_c11, max_paths=64)
def map_thick(case):
    run, zres = run_thick(case, window=case.get("window", "same_unit"))
    if run.raised is not None:
        core.cover("raised_no_cells")
        return
    core.cover("mapped")
    kc = run.kc
    op = case["op"]
    # lengths below are in the position unit (the window and dz may be given in another length unit)
    wx, dz = run.to_pos_unit(run.win.magnitude), run.to_pos_unit(run.dz.magnitude)
    core.assume(SV.lift(kc.nz) >= 1)  # dz of at least one pixel (quantifier of the statement)
    xsp, ysp = wx / run.rx, wx / run.ry
    if zres is not None:
        prove("depth_resolution.given", SV.lift(kc.nz) == zres)
    else:
        prove("depth_resolution.derived", SV.lift(kc.nz) == core.round_half_even(dz / (0.5 * (xsp + ysp))))
    prove("grid.shape", core.conj(SV.lift(kc.nx) == run.rx, SV.lift(kc.ny) == run.ry))
    j, i = run.pixel()
    k = core.fresh_int("k", 0)
    core.assume(k < kc.nz)
    px, py = SV.lift(run.out.x.elem((i,))), SV.lift(run.out.y.elem((j,)))
    wf = c03.window_facts(run, j, i, px, py)
    # depth samples: centred even grid over [-dz/2, dz/2]
    zk = SV.lift(kc.gp.elem((k, j, i, 2))) * wx  # direction z: the third original axis is the normal (kernel lengths are in units of dx)
    snp.reveal_linspace(k)
    fz = zk * kc.nz == (k + 0.5) * dz - 0.5 * dz * kc.nz
    prove("depth_sample.formula", fz)
    inz = c03.abs_le(zk, dz / 2)
    core.lemma("depth_sample.inside_slab", [fz, k >= 0, k < kc.nz, dz > 0, SV.lift(kc.nz) >= 1], inz)
    q = run.sample(run.to_pos_unit(px), run.to_pos_unit(py), zk)
    h = kc.last(k, j, i)
    m_hit = run.sigma(h)
    prove("sample.hit_cell_is_loaded", core.implies(h >= 0, core.conj(m_hit >= 0, m_hit < run.n)))
    ax_hit = core.implies(h >= 0, kc.contains(h, k, j, i))  # the kernel contract's ghost fact (asserted by kc.last)
    core.lemma("sample.hit_cell_contains_sample_point", [ax_hit] + run.unit_facts(), core.implies(h >= 0, run.contains(m_hit, q)))
    sample = snp.MaybeNaN.of(kc.out.elem((0, k, j, i)))
    prove("sample.value", core.conj(SV.lift(sample.isnan) == (h < 0),
                                    core.implies(h >= 0, SV.lift(sample.val) == SV.lift(run.data[0]._array.elem((m_hit,))))))
    c03.complete(run, kc, j, i, q, wf + [inz, dz > 0], k, "sample.")
    c03.kernel_pre(run, kc, k, j, i)
    # reduction along the depth axis
    lay = run.out.layers[0]
    data = lay["data"]
    got = snp.MaybeNaN.of(data.data.elem((j, i)))
    spec = snp.MaybeNaN.of(getattr(snp, STUB[op])(kc.out, axis=1).elem((0, j, i)))
    zsp = dz / kc.nz
    scale = zsp if op in ("sum", "nansum") else 1
    prove("pixel.is_reduction_of_column", core.conj(SV.lift(got.isnan) == SV.lift(spec.isnan),
                                                    core.implies(~SV.lift(spec.isnan), SV.lift(got.val) == SV.lift(spec.val) * scale)))
    prove("pixel.masked_iff_nan", SV.lift(data.mask.elem((j, i))) == SV.lift(spec.isnan))
    if op in ("sum", "nansum"):
        want = spint.umul(run.data[0].unit, run.ul)
        prove("unit.times_length", core.conj(lay["unit"].scale == want.scale, lay["unit"].same_dim(want)))
    else:
        prove("unit.unchanged", lay["unit"] == run.data[0].unit)
    prove("name", lay["name"] == run.data[0].name)


@unit("C11", "map.thick.oblique", targets=[K.MAP + ":map", "osyris.plot.direction:get_direction"],
      uses=["evaluate_on_grid@map", "VectorBasis@direction"], cases=[{"label": "sum,z_given,normal_vector", "op": "sum", "zres": "given"}],
      replay=NM.replay_c11, max_paths=64)
def map_thick_oblique(case):
    """thick map on an arbitrary plane (basis by the contract of VectorBasis): every depth sample is sound and complete,
    and the kernel precondition holds, by the lemma script of C03.map.thin.oblique extended with the depth coordinate"""
    run, zres = run_thick(case, direction="vector")
    if run.raised is not None:
        core.cover("raised_no_cells")
        return
    core.cover("mapped")
    kc = run.kc
    core.assume(SV.lift(kc.nz) >= 1)
    wx, dz = run.win.magnitude, run.dz.magnitude
    j, i = run.pixel()
    k = core.fresh_int("k", 0)
    core.assume(k < kc.nz)
    px, py = SV.lift(run.out.x.elem((i,))), SV.lift(run.out.y.elem((j,)))
    wf = c03.window_facts(run, j, i, px, py)
    # the depth coordinate of sample k: the k-th element of the (opaque) depth linspace
    st, sp, nm, formula = core.cur().counter["@linspace"][2]
    Z = SV(snp._linspace_fn(st, sp, nm, core.term(k)), "r")
    snp.reveal_linspace(k)
    fz = Z * kc.nz == (k + 0.5) * dz - 0.5 * dz * kc.nz
    prove("depth_sample.formula", fz)
    inz = c03.abs_le(Z, dz / 2)
    core.lemma("depth_sample.inside_slab", [fz, k >= 0, k < kc.nz, dz > 0, SV.lift(kc.nz) >= 1], inz)
    q = run.sample(px, py, Z)
    h = kc.last(k, j, i)
    m_hit = run.sigma(h)
    ax_hit = core.implies(h >= 0, kc.contains(h, k, j, i))
    core.lemma("sample.hit_cell_contains_sample_point", [ax_hit] + run.unit_facts(), core.implies(h >= 0, run.contains(m_hit, q)))
    c03.complete_oblique(run, kc, j, i, q, px, py, wf, "sample.", k=k, Z=Z, z_facts=[inz, dz > 0])
    c03.kernel_pre_oblique(run, kc, j, i, "", k=k, Zpos=Z)


@unit("C11", "map.thick.per_layer_operation", targets=[K.MAP + ":map"], uses=["evaluate_on_grid@map"],
      cases=[{"label": "mean+sum", "ops": ("mean", None), "call": "sum"}, {"label": "nanmax+min", "ops": ("nanmax", None), "call": "min"},
             {"label": "sum+mean,vector_first", "ops": ("sum", "mean"), "call": "max", "vector": True}],
      replay=NM.replay_options, max_paths=64)
def per_layer(case):
    """each layer is reduced with its own operation (C19's precedence rule observed through the data)"""
    kinds = ("vector", "scalar") if case.get("vector") else ("scalar", "scalar")
    lk = {k: ({"operation": o} if o else {}) for k, o in enumerate(case["ops"])}
    if case.get("vector"):
        lk[0]["mode"] = "vec"
    run, zres = run_thick({"op": case["call"], "zres": "given"}, layers=kinds, layer_kwargs=lk)
    if run.raised is not None:
        return
    kc = run.kc
    core.assume(SV.lift(kc.nz) >= 1)
    j, i = run.pixel()
    dz = run.dz.magnitude
    row = 0
    for li, lay in enumerate(run.out.layers):
        op = case["ops"][li] or case["call"]
        nrows = 3 if kinds[li] == "vector" else 1
        for c in range(nrows):
            idx = (j, i, c) if nrows == 3 else (j, i)
            got = snp.MaybeNaN.of(lay["data"].data.elem(idx))
            spec = snp.MaybeNaN.of(getattr(snp, STUB[op])(kc.out, axis=1).elem((row, j, i)))
            scale = dz / kc.nz if op in ("sum", "nansum") else 1
            prove("layer%d.row%d.own_operation[%s]" % (li, c, op),
                  core.conj(SV.lift(got.isnan) == SV.lift(spec.isnan),
                            core.implies(~SV.lift(spec.isnan), SV.lift(got.val) == SV.lift(spec.val) * scale)))
            row += 1
        base = run.data[li].unit if kinds[li] == "scalar" else run.data[li].x.unit
        if op in ("sum", "nansum"):
            want = spint.umul(base, run.ul)
            prove("layer%d.unit.times_length" % li, core.conj(lay["unit"].scale == want.scale, lay["unit"].same_dim(want)))
        else:
            prove("layer%d.unit.unchanged" % li, lay["unit"] == base)


@bounded("C11", "native", "synthesized 3-D AMR tilings, dz from one pixel to the domain size incl. slabs thinner than the cells, all 8 reductions, "
                          "depth resolution given / derived, 1/4/16 threads: every pixel against an independent column-sampling oracle; "
                          "2-D datasets separately (recorded finding)")
def native(tier, seed):
    from pyvc import nativerun

    return nativerun.run("contracts.native_map:sweep_c11", tier, seed, timeout=3000)
