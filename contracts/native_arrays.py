"""Native (real numpy/pint/osyris) oracles for group A: used by replay and by the bounded
stand-ins.  Nothing in this file imports the symbolic stubs; osyris is imported lazily so that
the module can also be imported inside the verifier process (where only names are needed)."""
import itertools
import operator

CODES = ["bool", "int8", "int16", "int32", "int64", "uint8", "uint16", "uint32", "uint64", "float16", "float32",
         "float64"]
FAMILIES = {
    "length": ["m", "cm", "km", "au"],
    "mass": ["g", "kg", "M_sun"],
    "time": ["s", "hour"],
    "velocity": ["cm/s", "km/s"],
    "density": ["g/cm**3", "kg/m**3"],
    "energy": ["erg", "J"],
    "dimensionless": ["dimensionless"],
}


def _np():
    import numpy as np

    return np


def _os():
    import osyris

    return osyris


def model_dtype(model, key, default="float32"):
    v = model.get(key)
    if isinstance(v, int) and 0 <= v < len(CODES):
        return CODES[v]
    return default


def model_units(model, ka="sid_ua", kb="sid_ub"):
    """concrete unit names consistent with the counter-model's unit relations"""
    sa, sb = model.get(ka), model.get(kb)
    da = [model.get("dim%d_%s" % (k, ka[4:])) for k in range(5)]
    db = [model.get("dim%d_%s" % (k, kb[4:])) for k in range(5)]
    if sb is None:
        return "m", None
    if sa == sb:
        return "m", "m"
    if None not in da and None not in db and da != db:
        return "m", "s"
    return "m", "cm"


def model_array(model, name, shape_kind, dtype, n_default=3, m_default=2):
    np = _np()
    n = model.get("n") or n_default
    m = model.get("m") or m_default
    n, m = max(int(n), 1), max(int(m), 1)
    n, m = min(n, 6), min(m, 6)
    shape = {"0d": (), "1d": (n,), "2d": (m, n), "col": (m, 1), "row": (1, n)}[shape_kind]
    rec = model.get("@" + name)
    arr = np.zeros(shape, dtype="float64")
    it = list(itertools.product(*[range(s) for s in shape])) if shape else [()]
    for k, idx in enumerate(it):
        v = None
        if rec and "values" in rec:
            v = rec["values"].get(",".join(map(str, idx)) if idx else "0")
            if v is None:
                v = rec["values"].get(",".join(map(str, idx)))
        if not isinstance(v, (int, float)):
            v = float(k + 1 + (0.5 if "float" in dtype else 0))
        arr[idx] = v
    if "int" in dtype:
        arr = np.clip(np.round(arr), -100, 100)
        if dtype.startswith("uint"):
            arr = np.abs(arr)
    return arr.astype(dtype)


# --------------------------------------------------------------------------------------
def phys(x):
    """pint Quantity (float64 magnitudes) denoted by an osyris Array / number / ndarray / Quantity"""
    np = _np()
    osy = _os()
    import pint

    if isinstance(x, osy.Array):
        return np.asarray(x.values, dtype="float64") * x.unit
    if isinstance(x, pint.Quantity):
        return np.asarray(x.magnitude, dtype="float64") * x.units
    return np.asarray(x, dtype="float64") * osy.units("dimensionless")


BINOPS = {
    "__add__": operator.add, "__sub__": operator.sub, "__mul__": operator.mul, "__truediv__": operator.truediv,
    "__rmul__": lambda a, b: b * a, "__rtruediv__": lambda a, b: b / a,
}


def compare(res, expected, rtol=1e-5):
    """res: osyris Array; expected: pint Quantity -> (ok, detail)"""
    np = _np()
    import pint

    got = phys(res)
    try:
        g = got.to(expected.units).magnitude
    except pint.DimensionalityError:
        return False, "result unit %s, expected dimension of %s" % (res.unit, expected.units)
    e = np.asarray(expected.magnitude, dtype="float64")
    if g.shape != e.shape:
        return False, "shape %s vs %s" % (g.shape, e.shape)
    with np.errstate(all="ignore"):
        ok = np.allclose(g, e, rtol=rtol, atol=0, equal_nan=True)
    return bool(ok), "got %s %s expected %s %s" % (np.ravel(g)[:4], expected.units, np.ravel(e)[:4], expected.units)


def operator_oracle(opname, a, b):
    """run a.<op>(b) natively and compare with pint arithmetic on the denoted quantities"""
    import pint

    np = _np()
    with np.errstate(all="ignore"):
        try:
            expected = BINOPS[opname](phys(a), phys(b))
            exp_exc = None
        except pint.DimensionalityError as e:
            expected, exp_exc = None, e
        try:
            if opname in ("__rmul__", "__rtruediv__"):
                res = getattr(a, opname)(b)
            else:
                res = BINOPS[opname](a, b)
            got_exc = None
        except pint.DimensionalityError as e:
            res, got_exc = None, e
    if exp_exc is not None or got_exc is not None:
        ok = (exp_exc is None) == (got_exc is None)
        return ok, "expected %s, got %s" % ("raise" if exp_exc else "value", "raise" if got_exc else "value")
    return compare(res, expected)


def build_operand(kind, vals, unit):
    osy = _os()
    if kind == "Array":
        return osy.Array(values=vals, unit=unit)
    if kind in ("number_float", "number_int"):
        v = vals.ravel()[0] if hasattr(vals, "ravel") else vals
        # a Python float operand always has a fractional part (also next to integer arrays: no cast to the array's dtype)
        return (float(int(v)) + 0.5) if kind == "number_float" else int(v)
    if kind == "ndarray":
        return vals
    if kind == "Quantity":
        return float(vals.ravel()[0]) * osy.units(unit)
    if kind == "QuantityArr":
        return vals * osy.units(unit)
    raise ValueError(kind)


# --------------------------------------------------------------------------------------
# replay entry points (case, model, record) -> dict(reproduced=bool, ...)
# --------------------------------------------------------------------------------------
def replay_operator(case, model, rec):
    osy = _os()
    np = _np()
    label = case or ""
    parts = label.split(",")
    opname = parts[0]
    tried = []
    if opname in ("__neg__", "__pow__"):
        dt = model_dtype(model, "dt_a")
        for dtype in [dt, "float32", "int32", "float64"]:
            vals = model_array(model, "a", "1d", dtype)
            a = osy.Array(values=vals, unit="m")
            if opname == "__neg__":
                res, expected = -a, -phys(a)
            else:
                k = float(parts[1].split("=")[1])
                k = int(k) if k == int(k) else k
                if k < 0 and "int" in dtype:
                    continue
                with np.errstate(all="ignore"):
                    res, expected = a ** k, phys(a) ** k
            ok, detail = compare(res, expected)
            tried.append({"dtype": dtype, "ok": ok, "detail": detail})
            if not ok:
                return {"reproduced": True, "input": {"dtype": dtype, "values": vals.tolist(), "unit": "m", "op": label},
                        "observed": detail}
        return {"reproduced": False, "tried": tried}
    kind = parts[1]
    sa, sb = parts[2].split("-")
    ua, ub = model_units(model)
    dta, dtb = model_dtype(model, "dt_a"), model_dtype(model, "dt_b")
    candidates = [(dta, dtb, ua, ub)] + [(d, d, x, y) for d in ("float32", "int32", "float64")
                                         for x, y in (("m", "cm"), ("m", "m"), ("m", "s"))]
    for (da, db, x, y) in candidates:
        if "bool" in (da, db):
            continue
        va = model_array(model, "a", sa, da)
        vb = model_array(model, "b", sb, db)
        a = osy.Array(values=va, unit=x)
        b = build_operand(kind, vb, y or "dimensionless")
        try:
            ok, detail = operator_oracle(opname, a, b)
        except Exception as e:  # a crash is also not what the statement allows
            ok, detail = False, "exception %r" % (e,)
        tried.append({"dtypes": (da, db), "units": (x, y), "ok": ok, "detail": detail})
        if not ok:
            return {"reproduced": True,
                    "input": {"op": opname, "a": va.tolist(), "a_dtype": da, "a_unit": x, "b_kind": kind,
                              "b": vb.tolist(), "b_dtype": db, "b_unit": y},
                    "observed": detail}
    return {"reproduced": False, "tried": tried[:6]}


def replay_wrap_numpy(case, model, rec):
    """direct numpy call on Arrays: unit law of contracts/arrays.py evaluated with pint"""
    osy = _os()
    np = _np()
    parts = (case or "").split(",")
    fname = parts[0]
    f = getattr(np, fname)
    tried = []
    for dtype in [model_dtype(model, "dt_a"), "float32", "int32", "float64"]:
        if dtype == "bool":
            continue
        va = model_array(model, "a", "1d", dtype)
        a = osy.Array(values=va, unit="m")
        with np.errstate(all="ignore"):
            if fname in ("negative", "reciprocal", "sqrt", "square", "cbrt", "absolute"):
                if fname == "reciprocal" and "int" in dtype:
                    continue
                res, expected = f(a), f(phys(a))
            elif fname == "power":
                k = float(parts[1].split("=")[1])
                k = int(k) if k == int(k) else k
                if k < 0 and "int" in dtype:
                    continue
                res, expected = f(a, k), phys(a) ** k
            else:
                vb = model_array(model, "b", "1d", dtype)
                ub = "m" if fname in ("add", "subtract", "maximum", "minimum") else "s"
                b = osy.Array(values=vb, unit=ub)
                res, expected = f(a, b), f(phys(a), phys(b))
        ok, detail = compare(res, expected)
        tried.append({"dtype": dtype, "ok": ok, "detail": detail})
        if not ok:
            return {"reproduced": True, "input": {"func": fname, "dtype": dtype, "a": va.tolist(), "unit": "m"},
                    "observed": detail}
    return {"reproduced": False, "tried": tried}


def replay_binary_op(case, model, rec):
    return {"reproduced": False, "note": "internal helper: decided by the obligation only"}


def replay_to(case, model, rec):
    osy = _os()
    np = _np()
    for dtype in ("float64", "float32", "int32"):
        va = model_array(model, "a", "1d", dtype)
        a = osy.Array(values=va, unit="m")
        before = va.copy()
        r = a.to("cm")
        ok, detail = compare(r, phys(osy.Array(values=before, unit="m")))
        if not ok or not np.array_equal(a.values, before) or str(r.unit) != str(osy.units("cm")):
            return {"reproduced": True, "input": {"dtype": dtype, "values": before.tolist()}, "observed": detail}
    return {"reproduced": False}


CMPOPS = {"__lt__": operator.lt, "__le__": operator.le, "__gt__": operator.gt, "__ge__": operator.ge,
          "__eq__": operator.eq, "__ne__": operator.ne,
          "less": operator.lt, "less_equal": operator.le, "greater": operator.gt, "greater_equal": operator.ge,
          "equal": operator.eq, "not_equal": operator.ne}


def compare_oracle(opname, a, b):
    """a <op> b natively against the comparison of the denoted quantities (float64)"""
    import pint

    np = _np()
    osy = _os()
    qa, qb = phys(a), phys(b)
    try:
        expected = CMPOPS[opname](qa.magnitude, qb.to(qa.units).magnitude)
        exp_exc = None
    except pint.DimensionalityError as e:
        expected, exp_exc = None, e
    try:
        res = CMPOPS[opname](a, b)
        got_exc = None
    except pint.DimensionalityError as e:
        res, got_exc = None, e
    if exp_exc is not None or got_exc is not None:
        return (exp_exc is None) == (got_exc is None), "expected %s got %s" % (
            "raise" if exp_exc else "value", "raise" if got_exc else "value")
    if not isinstance(res, osy.Array):
        return False, "result is %r" % (type(res),)
    ok = (res.dtype == bool and str(res.unit) == "dimensionless" and res.shape == np.shape(expected)
          and bool(np.array_equal(res.values, expected)))
    return ok, "got %s [%s] expected %s" % (np.ravel(res.values)[:6], res.unit, np.ravel(expected)[:6])


def replay_compare(case, model, rec):
    osy = _os()
    np = _np()
    parts = (case or "").split(",")
    opname = parts[0]
    kind = parts[1] if len(parts) > 2 else "Array"
    shapes = parts[-1].split("-") if "-" in parts[-1] else ["1d", "1d"]
    tried = []
    for (da, db, x, y) in [(d, d, ux, uy) for d in ("float64", "float32", "int32")
                           for ux, uy in (("m", "cm"), ("cm", "m"), ("m", "m"), ("m", "s"))]:
        va = model_array(model, "a", shapes[0], da)
        vb = model_array(model, "b", shapes[1], db)
        a = osy.Array(values=va, unit=x)
        b = build_operand(kind, vb, y)
        try:
            ok, detail = compare_oracle(opname, a, b)
        except Exception as e:
            ok, detail = False, "exception %r" % (e,)
        tried.append({"units": (x, y), "dtype": da, "ok": ok})
        if not ok:
            return {"reproduced": True, "input": {"op": opname, "a": va.tolist(), "a_unit": x, "b": vb.tolist(),
                                                  "b_unit": y, "b_kind": kind, "dtype": da}, "observed": detail}
    # values that differ only after conversion
    a = osy.Array(values=np.array([1.0, 1.0, 0.99]), unit="m")
    b = osy.Array(values=np.array([99.0, 100.0, 99.0]), unit="cm")
    if opname in CMPOPS:
        ok, detail = compare_oracle(opname, a, b)
        if not ok:
            return {"reproduced": True, "input": "1 m vs 99 cm family", "observed": detail}
    return {"reproduced": False, "tried": tried[:4]}


def replay_logic(case, model, rec):
    osy = _os()
    np = _np()
    ops = {"__and__": np.logical_and, "__or__": np.logical_or, "__xor__": np.logical_xor}
    a = osy.Array(values=np.array([True, True, False, False]))
    b = osy.Array(values=np.array([True, False, True, False]))
    op = (case or "").split(",")[0]
    if op == "__invert__":
        r = ~a
        ok = bool(np.array_equal(r.values, np.logical_not(a.values)))
    else:
        r = getattr(a, op)(b)
        ok = bool(np.array_equal(r.values, ops[op](a.values, b.values)))
    ok = ok and r.dtype == bool and str(r.unit) == "dimensionless"
    return {"reproduced": not ok, "observed": str(r.values)}


def replay_vector_to(case, model, rec):
    osy = _os()
    np = _np()
    nvec = int((case or "nvec=3").split("=")[1])
    comps = [osy.Array(values=np.array([1.0, 2.0, 3.0]) * (k + 1), unit="m") for k in range(nvec)]
    v = osy.Vector(*comps)
    r = v.to("cm")
    for c, orig in zip("xyz", comps):
        got = getattr(r, c)
        if got is None or not np.allclose(got.values, orig.values * 100) or got.unit != osy.units("cm"):
            return {"reproduced": True, "input": {"nvec": nvec}, "observed": "component %s: %s" % (c, got)}
    return {"reproduced": False}


# --------------------------------------------------------------------------------------
# catalogue oracle (C10): numpy function on osyris Arrays vs the same function on pint Quantities
# --------------------------------------------------------------------------------------
SAME_UNARY = ["negative", "absolute", "sum", "mean", "amin", "amax", "median", "std", "cumsum", "sort", "diff"]
SAME_BINARY = ["add", "subtract", "maximum", "minimum", "hypot"]
COMPARISONS = ["less", "less_equal", "greater", "greater_equal", "equal", "not_equal"]
TRANSFORM_UNARY = {"sqrt": 0.5, "square": 2, "cbrt": 1.0 / 3.0, "reciprocal": -1}


def catalogue_call(fname, args, kwargs=None):
    """(ok, detail) for np.<fname>(*args) on osyris operands against pint"""
    import pint

    np = _np()
    osy = _os()
    f = getattr(np, fname)
    kwargs = kwargs or {}
    pargs = [phys(a) if isinstance(a, osy.Array) else a for a in args]
    with np.errstate(all="ignore"):
        try:
            if fname in TRANSFORM_UNARY:
                expected = pargs[0] ** TRANSFORM_UNARY[fname]
            elif fname in COMPARISONS:
                expected = CMPOPS[fname](pargs[0].magnitude if hasattr(pargs[0], "magnitude") else pargs[0],
                                         pargs[1].to(pargs[0].units).magnitude if hasattr(pargs[1], "to") else pargs[1])
            else:
                expected = f(*pargs, **kwargs)
            exp_exc = None
        except pint.DimensionalityError as e:
            expected, exp_exc = None, e
        try:
            res, got_exc = f(*args, **kwargs), None
        except pint.DimensionalityError as e:
            res, got_exc = None, e
        except Exception as e:
            return False, "exception %r" % (e,)
    if exp_exc is not None or got_exc is not None:
        return (exp_exc is None) == (got_exc is None), "expected %s got %s" % (
            "raise" if exp_exc else "value", "raise" if got_exc else "value")
    if not isinstance(res, osy.Array):
        return False, "result is %r" % (type(res),)
    if fname in COMPARISONS or fname in ("isfinite", "isnan", "isinf"):
        e = np.asarray(expected.magnitude if hasattr(expected, "magnitude") else expected)
        ok = str(res.unit) == "dimensionless" and bool(np.array_equal(res.values, e))
        return ok, "got %s [%s] expected %s" % (np.ravel(res.values)[:4], res.unit, np.ravel(e)[:4])
    if not hasattr(expected, "units"):
        expected = expected * osy.units("dimensionless")
    return compare(res, expected)


def replay_catalogue(case, model, rec):
    osy = _os()
    np = _np()
    parts = (case or "").split(",")
    fname = parts[0]
    tried = []
    for dtype in ("float32", "int32", "float64", "uint16"):
        if dtype.startswith("uint") and (fname in ("negative", "diff", "subtract", "ediff1d") or fname == "power"):
            continue  # the float64 oracle does not wrap
        va = model_array(model, "a", "2d" if "axis" in (case or "") else "1d", dtype)
        vb = model_array(model, "b", "1d", dtype)
        a = osy.Array(values=va, unit="m")
        args, kw = [a], {}
        if "axis=0" in case:
            kw = {"axis": 0}
        if "axis=1" in case:
            kw = {"axis": 1}
        if fname == "power":
            k = float(parts[1].split("=")[1])
            args.append(int(k) if k == int(k) else k)
            if k < 0 and "int" in dtype:
                continue
        elif "Array-Array" in case or fname == "concatenate" or "out=" in case:
            args.append(osy.Array(values=vb, unit="m" if fname not in ("multiply", "divide") else "s"))
        elif "Array-number" in case:
            args.append(2.0)
        elif "Array-ndarray" in case:
            args.append(vb)
        elif "Array-Quantity" in case:
            args.append(2.0 * osy.units("s"))
        elif "number-Array" in case:
            args = [2.0, a]
        if fname.startswith("logical") or (fname == "reciprocal" and "int" in dtype):
            continue
        if fname == "concatenate":
            try:
                res = np.concatenate(args)
                ok, detail = compare(res, np.concatenate([phys(x) for x in args]))
            except Exception as e:
                ok, detail = False, repr(e)
        elif "out=" in case:
            continue
        else:
            ok, detail = catalogue_call(fname, args, kw)
        tried.append({"dtype": dtype, "ok": ok, "detail": detail})
        if not ok:
            return {"reproduced": True, "input": {"func": fname, "case": case, "dtype": dtype, "a": va.tolist()},
                    "observed": detail}
    return {"reproduced": False, "tried": tried}


def replay_mixed(case, model, rec):
    osy = _os()
    np = _np()
    fname, rel = (case or "add,compatible").split(",")
    a = osy.Array(values=np.array([1.0, 2.0, 3.0]), unit="m")
    b = osy.Array(values=np.array([10.0, 20.0, 300.0]), unit="cm" if rel == "compatible" else "s")
    if fname == "concatenate":
        import pint

        try:
            res = np.concatenate([a, b])
        except pint.DimensionalityError:
            return {"reproduced": rel == "compatible", "observed": "raised"}
        if rel != "compatible":
            return {"reproduced": True, "input": "concatenate([m, s])", "observed": "%s %s" % (res.values, res.unit)}
        ok, detail = compare(res, np.concatenate([phys(a), phys(b)]))
    else:
        ok, detail = catalogue_call(fname, [a, b])
    return {"reproduced": not ok, "input": {"func": fname, "a": "[1,2,3] m", "b": "[10,20,300] %s" % b.unit},
            "observed": detail}


def replay_where(case, model, rec):
    osy = _os()
    np = _np()
    a = osy.Array(values=np.array([1.0, 2.0, 3.0]), unit="m")
    b = osy.Array(values=np.array([10.0, 20.0, 30.0]), unit="m")
    c = np.array([True, False, True])
    if "Array" in (case or ""):
        c = osy.Array(values=c)
    r = np.where(c, a, b)
    ok = isinstance(r, osy.Array) and r.unit == osy.units("m") and np.array_equal(r.values, [1.0, 20.0, 3.0])
    return {"reproduced": not ok, "input": "np.where(%s, a_m, b_m)" % type(c).__name__,
            "observed": "%s [%s]" % (getattr(r, "values", r), getattr(r, "unit", None))}


# --------------------------------------------------------------------------------------
# C17 native oracles
# --------------------------------------------------------------------------------------
IOPS = {"__iadd__": operator.iadd, "__isub__": operator.isub, "__imul__": operator.imul,
        "__itruediv__": operator.itruediv}
PLAIN = {"__iadd__": operator.add, "__isub__": operator.sub, "__imul__": operator.mul, "__itruediv__": operator.truediv}


def inplace_oracle(opname, dtype, kind, alias, ux="m", uy="cm"):
    np = _np()
    osy = _os()
    import pint

    vx = np.array([2, 4, 6, 8]).astype(dtype)
    x = osy.Array(values=vx.copy(), unit=ux)
    if alias == "same":
        y = x
    elif alias == "view":
        y = x[:]
    else:
        y = build_operand(kind, np.array([1, 2, 4, 8]).astype(dtype), uy)
    holder2 = osy.Datagroup()
    holder2["x"] = x
    with np.errstate(all="ignore"):
        try:
            expected = PLAIN[opname](phys(osy.Array(values=vx.copy(), unit=ux)),
                                     phys(y) if alias == "disjoint" else phys(osy.Array(values=vx.copy(), unit=ux)))
        except pint.DimensionalityError:
            expected = None
        ybefore = phys(y) if alias == "disjoint" else None
        try:
            r = IOPS[opname](x, y)
        except pint.DimensionalityError:
            return expected is None, "raised"
        except TypeError as e:  # numpy same-kind casting refusal: outside the statement
            return True, "numpy refused: %s" % e
    if expected is None:
        return False, "no exception for incompatible units"
    if r is not x or holder2["x"] is not x:
        return False, "result is a new object"
    ok, detail = compare(holder2["x"], expected, rtol=1e-3 if "int" in dtype else 1e-5)
    if "int" in dtype and not ok:
        # integer dtypes: representability is a precondition of the statement
        return True, "not representable in %s" % dtype
    if ok and ybefore is not None:
        ok2, d2 = compare(osy.Array(values=np.asarray(phys(y).magnitude), unit=phys(y).units), ybefore)
        if not ok2:
            return False, "rhs modified: " + d2
    return ok, detail


def replay_inplace(case, model, rec):
    parts = (case or "__iadd__,Array,disjoint").split(",")
    if parts[-1] == "out=":
        opname = {"add": "__iadd__", "subtract": "__isub__", "multiply": "__imul__", "divide": "__itruediv__"}[parts[0]]
        kind, alias = "Array", "disjoint"
    else:
        opname, kind, alias = parts
    for dtype in ("float32", "float64", "int32"):
        if "int" in dtype and opname == "__itruediv__":
            continue
        for ux, uy in (("m", "cm"), ("m", "m"), ("m", "s")):
            ok, detail = inplace_oracle(opname, dtype, kind, alias, ux, uy)
            if not ok:
                return {"reproduced": True, "input": {"op": opname, "dtype": dtype, "kind": kind, "alias": alias,
                                                      "units": [ux, uy]}, "observed": detail}
    return {"reproduced": False}


def replay_inplace_vector(case, model, rec):
    np = _np()
    osy = _os()
    opname, nv, kind = (case or "__iadd__,nvec=3,Vector").split(",")
    n = int(nv.split("=")[1])
    comps = [osy.Array(values=np.array([1.0, 2.0, 3.0]) * (k + 1), unit="m") for k in range(n)]
    v = osy.Vector(*comps)
    held = v
    olds = [getattr(v, c) for c in "xyz"[:n]]
    before = [phys(osy.Array(values=o.values.copy(), unit=o.unit)) for o in olds]
    if kind == "Vector":
        w = osy.Vector(*[osy.Array(values=np.array([10.0, 20.0, 30.0]), unit="cm") for _ in range(n)])
        pw = [phys(getattr(w, c)) for c in "xyz"[:n]]
    elif kind == "Array":
        w = osy.Array(values=np.array([10.0, 20.0, 30.0]), unit="cm")
        pw = [phys(w)] * n
    elif kind == "OwnComponent":
        w = v.x
        pw = [before[0]] * n
    else:
        w = 2.0
        pw = [phys(w)] * n
    import pint

    try:
        r = IOPS[opname](v, w)
    except pint.DimensionalityError:
        return {"reproduced": opname in ("__imul__", "__itruediv__") or kind != "number_float", "observed": "raised"}
    for k, c in enumerate("xyz"[:n]):
        try:
            exp = PLAIN[opname](before[k], pw[k])
        except pint.DimensionalityError:
            return {"reproduced": True, "observed": "no exception"}
        for who, obj in (("held", getattr(held, c)), ("result", getattr(r, c))):
            ok, detail = compare(obj, exp)
            if not ok:
                return {"reproduced": True, "input": case, "observed": "%s component %s: %s" % (who, c, detail)}
    return {"reproduced": False}


def replay_copy(case, model, rec):
    import copy

    np = _np()
    osy = _os()
    t, how = (case or "Array,copy").split(",")
    if t == "Array":
        src = osy.Array(values=np.array([1.0, 2.0, 3.0]), unit="m", name="a")
        leaves = lambda o: [o]  # noqa: E731
    else:
        src = osy.Vector(*[osy.Array(values=np.array([1.0, 2.0, 3.0]) * k, unit="m") for k in (1, 2, 3)], name="v")
        leaves = lambda o: [o.x, o.y, o.z]  # noqa: E731
    r = {"copy": lambda: src.copy(), "__copy__": lambda: copy.copy(src), "__deepcopy__": lambda: copy.deepcopy(src)}[how]()
    bad = []
    if r is src or r.name != src.name:
        bad.append("object/name")
    for p, q in zip(leaves(src), leaves(r)):
        if np.shares_memory(p._array, q._array) or q.unit != p.unit or not np.array_equal(p.values, q.values):
            bad.append("leaf shares memory or differs")
    leaves(r)[0]._array[:] = -1
    if (leaves(src)[0].values == -1).any():
        bad.append("write to copy seen in source")
    return {"reproduced": bool(bad), "observed": bad}


def replay_view(case, model, rec):
    np = _np()
    osy = _os()
    a = osy.Array(values=np.arange(6.0), unit="m", name="a")
    s = a[1:4] if (case or "slice") == "slice" else a[::2]
    ok = s is not a and np.shares_memory(s._array, a._array) and s.unit == a.unit and s.name == a.name
    s._array[:] = 7.0
    ok = ok and (a.values == 7.0).sum() == 3
    return {"reproduced": not ok, "observed": str(a.values)}


def replay_container_copy(case, model, rec):
    import copy

    np = _np()
    osy = _os()
    g = osy.Datagroup()
    a = osy.Array(values=np.array([1.0, 2.0]), unit="m")
    v = osy.Vector(osy.Array(values=np.array([1.0, 2.0]), unit="s"), osy.Array(values=np.array([3.0, 4.0]), unit="s"))
    g["a"], g["v"] = a, v
    src = g
    if (case or "").startswith("Dataset"):
        src = osy.Dataset()
        src["g"] = g
        src.meta["time"] = 1.0
    deep = (case or "").endswith("deepcopy")
    r = copy.deepcopy(src) if deep else src.copy()
    rg = r["g"] if src is not g else r
    bad = []
    if r is src:
        bad.append("same container")
    if list(rg.keys()) != ["a", "v"]:
        bad.append("keys")
    if deep:
        if rg["a"] is a or np.shares_memory(rg["a"]._array, a._array) or rg["v"] is v \
                or np.shares_memory(rg["v"].x._array, v.x._array):
            bad.append("deepcopy shares members")
    else:
        if rg["a"] is not a or rg["v"] is not v:
            bad.append("shallow copy does not share members")
    if src is not g and (r.meta != src.meta or r.meta is src.meta):
        bad.append("meta")
    return {"reproduced": bool(bad), "observed": bad}


# --------------------------------------------------------------------------------------
# C09 native oracles
# --------------------------------------------------------------------------------------
VBIN = dict(BINOPS)
VBIN.update({k: v for k, v in CMPOPS.items() if k.startswith("__")})


def mkvec(n, unit="m", base=1.0, dtype="float64"):
    np = _np()
    osy = _os()
    return osy.Vector(*[osy.Array(values=(np.array([1, 2, 3]) * (k + 1) * base).astype(dtype), unit=unit)
                        for k in range(n)])


def vector_op_oracle(opname, n, kind, ua="m", ub="cm", dtype="float64"):
    import pint

    np = _np()
    osy = _os()
    v = mkvec(n, ua, dtype=dtype)
    if kind == "Vector":
        w = mkvec(n, ub, base=10.0, dtype=dtype)
        wc = lambda c: getattr(w, c)  # noqa: E731
    else:
        w = build_operand(kind, (np.array([2, 4, 8])).astype(dtype), ub)
        wc = lambda c: w  # noqa: E731
    op = VBIN[opname]
    want, want_exc = {}, None
    try:
        for c in "xyz"[:n]:
            want[c] = op(getattr(v, c), wc(c))
    except (pint.DimensionalityError, ValueError) as e:
        want_exc = e
    try:
        r, got_exc = op(v, w), None
    except (pint.DimensionalityError, ValueError) as e:
        r, got_exc = None, e
    if want_exc is not None or got_exc is not None:
        return (want_exc is None) == (got_exc is None), "component op %s, vector op %s" % (
            "raised" if want_exc else "value", "raised" if got_exc else "value")
    if not isinstance(r, osy.Vector) or r.nvec != n:
        return False, "result %r" % (r,)
    for c in "xyz"[:n]:
        g, e = getattr(r, c), want[c]
        if g.unit != e.unit and phys(g).units.dimensionality != phys(e).units.dimensionality:
            return False, "component %s unit %s vs %s" % (c, g.unit, e.unit)
        if not np.allclose(np.asarray(phys(g).to(phys(e).units).magnitude, float), np.asarray(phys(e).magnitude, float)):
            return False, "component %s %s vs %s" % (c, g.values, e.values)
    return True, ""


def replay_vector_op(case, model, rec):
    parts = (case or "__add__,nvec=3,Vector").split(",")
    opname = parts[0]
    if "vs" in parts[-1]:
        import operator as _op

        a, b = map(int, parts[-1].split("vs"))
        try:
            VBIN[opname](mkvec(a), mkvec(b))
            return {"reproduced": True, "observed": "no ValueError for %d vs %d components" % (a, b)}
        except ValueError:
            return {"reproduced": False}
    if opname not in VBIN:
        return {"reproduced": False, "note": "unary/reflected: decided by the obligation"}
    n = int(parts[1].split("=")[1])
    kind = parts[2]
    for dtype in ("float64", "float32", "int32"):
        for ua, ub in (("m", "cm"), ("m", "m"), ("m", "s")):
            ok, detail = vector_op_oracle(opname, n, kind, ua, ub, dtype)
            if not ok:
                return {"reproduced": True, "input": {"op": opname, "nvec": n, "kind": kind, "units": [ua, ub],
                                                      "dtype": dtype}, "observed": detail}
    return {"reproduced": False}


def replay_vector_numpy(case, model, rec):
    np = _np()
    osy = _os()
    shape, nv = (case or "unary,nvec=3").split(",")
    n = int(nv.split("=")[1])
    v, w = mkvec(n, "m"), mkvec(n, "s", base=2.0)
    if shape == "unary":
        r, want = np.sqrt(v), [np.sqrt(getattr(v, c)) for c in "xyz"[:n]]
    elif shape == "binary":
        r, want = np.multiply(v, w), [np.multiply(getattr(v, c), getattr(w, c)) for c in "xyz"[:n]]
    elif shape == "binary_scalar":
        r, want = np.multiply(v, 3.0), [np.multiply(getattr(v, c), 3.0) for c in "xyz"[:n]]
    else:
        w = mkvec(n, "m", base=2.0)
        r, want = np.concatenate([v, w]), [np.concatenate([getattr(v, c), getattr(w, c)]) for c in "xyz"[:n]]
    for c, e in zip("xyz", want):
        g = getattr(r, c)
        if g.unit != e.unit or not np.allclose(g.values, e.values):
            return {"reproduced": True, "input": case, "observed": "%s: %s vs %s" % (c, g, e)}
    return {"reproduced": False}


def replay_norm(case, model, rec):
    np = _np()
    n = int((case or "nvec=3").split(",")[0].split("=")[1])
    v = mkvec(n, "m", base=-1.0)
    r = v.norm
    want = np.sqrt(sum(getattr(v, c).values ** 2 for c in "xyz"[:n]))
    ok = np.allclose(r.values, want) and r.unit == v.unit
    if ok and n > 1:
        # history: a component updated in place through a handle, then the norm again
        h = v.y
        h += h
        r = v.norm
        want = np.sqrt(sum(getattr(v, c).values ** 2 for c in "xyz"[:n]))
        ok = np.allclose(r.values, want)
    return {"reproduced": not ok, "input": "components %s" % [getattr(v, c).values.tolist() for c in "xyz"[:n]],
            "observed": "norm %s expected %s" % (r.values, want)}


def replay_dot(case, model, rec):
    np = _np()
    nv, rel = (case or "nvec=3,compatible").split(",")
    n = int(nv.split("=")[1])
    a, b = mkvec(n, "m"), mkvec(n, "cm" if rel == "compatible" else "m", base=10.0)
    r = a.dot(b)
    want = sum(phys(getattr(a, c)) * phys(getattr(b, c)) for c in "xyz"[:n])
    ok, detail = compare(r, want)
    return {"reproduced": not ok, "input": "a=%s m, b=%s %s" % (a.x.values, b.x.values, b.unit), "observed": detail}


def replay_cross(case, model, rec):
    np = _np()
    osy = _os()
    rel = case or "compatible"
    a = osy.Vector(*[osy.Array(values=np.array([x]), unit="m") for x in (1.0, 2.0, 3.0)])
    b = osy.Vector(*[osy.Array(values=np.array([x]), unit="cm" if rel == "compatible" else "m") for x in (-200.0, 50.0, 700.0)])
    r = a.cross(b)
    pa, pb = [phys(getattr(a, c)) for c in "xyz"], [phys(getattr(b, c)) for c in "xyz"]
    want = [pa[1] * pb[2] - pa[2] * pb[1], pa[2] * pb[0] - pa[0] * pb[2], pa[0] * pb[1] - pa[1] * pb[0]]
    for c, e in zip("xyz", want):
        ok, detail = compare(getattr(r, c), e)
        if not ok:
            return {"reproduced": True, "observed": "%s: %s" % (c, detail)}
    return {"reproduced": False}


# --------------------------------------------------------------------------------------
# bounded native sweeps for C02 / C07 (pint as independent oracle)
# --------------------------------------------------------------------------------------
UNIT_PAIRS = [("m", "m"), ("m", "cm"), ("km", "au"), ("g", "M_sun"), ("s", "hour"), ("cm/s", "km/s"),
              ("g/cm**3", "kg/m**3"), ("erg", "J"), ("dimensionless", "dimensionless"), ("cm/m", "dimensionless"),
              ("m", "s"), ("m", "m**2"), ("cm**3", "1/cm"), ("cm/s", "cm/s**2"), ("erg", "erg/s"), ("g", "K")]
SHAPES_NATIVE = [((), ()), ((4,), (4,)), ((2, 3), (2, 3)), ((2, 3), (3,)), ((4,), ()), ((2, 1), (1, 3))]


def _vals(np, rng, shape, dtype):
    v = rng.integers(1, 40, size=shape)
    if "float" in dtype:
        v = v + rng.integers(0, 4, size=shape) * 0.25
    return np.asarray(v).astype(dtype)


def sweep_c02(tier, seed):
    np = _np()
    osy = _os()
    rng = np.random.default_rng(seed)
    viol, cases, distinct = [], 0, set()
    reps = 1 if tier == "quick" else 8
    for _ in range(reps):
        for op in BINOPS:
            for kind in ("Array", "number_float", "number_int", "ndarray", "Quantity", "QuantityArr"):
                if op in ("__rmul__", "__rtruediv__") and kind not in ("number_float", "number_int"):
                    continue
                for dtype in ("float64", "float32", "int64", "int32"):
                    for (ua, ub) in UNIT_PAIRS:
                        sa, sb = SHAPES_NATIVE[int(rng.integers(0, len(SHAPES_NATIVE)))]
                        if kind in ("number_float", "number_int", "Quantity"):
                            sb = ()
                        a = osy.Array(values=_vals(np, rng, sa, dtype), unit=ua)
                        if kind in ("number_float", "number_int", "ndarray"):
                            if op in ("__add__", "__sub__") and ua != "dimensionless":
                                ub = "dimensionless"
                        b = build_operand(kind, _vals(np, rng, sb, dtype), ub)
                        cases += 1
                        distinct.add((op, kind, dtype, ua, ub, sa, sb))
                        try:
                            ok, detail = operator_oracle(op, a, b)
                        except Exception as e:
                            ok, detail = False, "exception %r" % (e,)
                        if not ok:
                            viol.append({"name": "C02.native.op[%s,%s]" % (op, kind),
                                         "input": [op, kind, dtype, ua, ub, list(sa), list(sb)], "observed": detail})
    for dtype in ("float64", "float32", "int64", "int32"):
        for k in (2, 3, 0.5, -1, 0, 1.5):
            if k in (-1, 0.5, 1.5) and "int" in dtype:
                continue
            a = osy.Array(values=_vals(np, rng, (4,), dtype), unit="m")
            cases += 1
            distinct.add(("pow", dtype, k))
            ok, detail = compare(a ** k, phys(a) ** k)
            if not ok:
                viol.append({"name": "C02.native.pow", "input": [dtype, k], "observed": detail})
        a = osy.Array(values=_vals(np, rng, (4,), dtype), unit="m")
        ok, detail = compare(-a, -phys(a))
        cases += 1
        if not ok:
            viol.append({"name": "C02.native.neg", "input": [dtype], "observed": detail})
    first = {}
    for v in viol:
        first.setdefault(v["name"], v)
    return {"status": "violation" if viol else "ok", "cases": cases, "distinct": len(distinct), "violations": list(first.values()),
            "samples": [list(map(str, s)) for s in list(distinct)[:3]], "kind": "bounded-native"}


def sweep_c07(tier, seed):
    np = _np()
    osy = _os()
    rng = np.random.default_rng(seed)
    viol, cases, distinct = [], 0, set()
    reps = 1 if tier == "quick" else 8
    cmpops = [k for k in CMPOPS if k.startswith("__")]
    for _ in range(reps):
        for op in cmpops:
            for kind in ("Array", "number_float", "ndarray", "Quantity", "QuantityArr"):
                for dtype in ("float64", "float32", "int32"):
                    for (ua, ub) in UNIT_PAIRS:
                        sa, sb = SHAPES_NATIVE[int(rng.integers(0, len(SHAPES_NATIVE)))]
                        if kind in ("number_float", "Quantity"):
                            sb = ()
                        if kind in ("number_float", "ndarray") and ua != "dimensionless":
                            ub = "dimensionless"
                        a = osy.Array(values=_vals(np, rng, sa, dtype), unit=ua)
                        b = build_operand(kind, _vals(np, rng, sb, dtype), ub)
                        cases += 1
                        distinct.add((op, kind, dtype, ua, ub, sa, sb))
                        try:
                            ok, detail = compare_oracle(op, a, b)
                        except Exception as e:
                            ok, detail = False, "exception %r" % (e,)
                        if not ok:
                            viol.append({"name": "C07.native.cmp[%s,%s]" % (op, kind),
                                         "input": [op, kind, dtype, ua, ub, list(sa), list(sb)], "observed": detail})
    # values that differ only after conversion
    a = osy.Array(values=np.array([1.0, 1.0, 0.99]), unit="m")
    for b in (osy.Array(values=np.array([99.0, 100.0, 99.0]), unit="cm"), 99.0 * osy.units("cm"),
              osy.Array(values=99.0, unit="cm")):
        for op in cmpops:
            cases += 1
            ok, detail = compare_oracle(op, a, b)
            if not ok:
                viol.append({"name": "C07.native.conversion[%s]" % op, "input": "1 m vs 99 cm (%s)" % type(b).__name__, "observed": detail})
    for op in ("__and__", "__or__", "__xor__", "__invert__"):
        cases += 1
        r = replay_logic(op, {}, {})
        if r["reproduced"]:
            viol.append({"name": "C07.native.logic[%s]" % op, "input": op, "observed": r["observed"]})
    first = {}
    for v in viol:
        first.setdefault(v["name"], v)
    return {"status": "violation" if viol else "ok", "cases": cases, "distinct": len(distinct), "violations": list(first.values()),
            "samples": [list(map(str, s)) for s in list(distinct)[:3]], "kind": "bounded-native"}


def replay_to_history(case, model, rec):
    import pint

    osy = _os()
    np = _np()
    a = osy.Array(values=np.array([1.0, 2.0, 3.0]), unit="m")
    a.to("cm")
    a.unit = "km"
    r = a.to("cm")
    ok, detail = compare(r, phys(osy.Array(values=np.array([1.0, 2.0, 3.0]), unit="km")))
    if not ok:
        return {"reproduced": True, "input": "a.to('cm'); a.unit='km'; a.to('cm')", "observed": detail}
    b = osy.Array(values=np.array([1.0, 2.0]), unit="m")
    b.to("cm")
    b *= b
    try:
        b.to("cm")
        return {"reproduced": True, "input": "b.to('cm'); b *= b; b.to('cm')", "observed": "no DimensionalityError for m**2 -> cm"}
    except pint.DimensionalityError:
        pass
    return {"reproduced": False}
