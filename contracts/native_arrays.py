"""Native (real numpy/pint/osyris) oracles for group A: used by replay and by the bounded
stand-ins.  Nothing in this file imports the symbolic stubs; osyris is imported lazily so that
the module can also be imported inside the verifier process (where only names are needed)."""
import itertools
import operator

CODES = ["bool", "int8", "int16", "int32", "int64", "uint8", "uint16", "uint32", "uint64", "float16", "float32",
         "float64"]
FAMILIES = {
    "length": ["m", "cm", "km", "au"],
    "mass": ["g", "kg", "M_sun"],
    "time": ["s", "hour"],
    "velocity": ["cm/s", "km/s"],
    "density": ["g/cm**3", "kg/m**3"],
    "energy": ["erg", "J"],
    "dimensionless": ["dimensionless"],
}


def _np():
    import numpy as np

    return np


def _os():
    import osyris

    return osyris


def model_dtype(model, key, default="float32"):
    v = model.get(key)
    if isinstance(v, int) and 0 <= v < len(CODES):
        return CODES[v]
    return default


def model_units(model, ka="sid_ua", kb="sid_ub"):
    """concrete unit names consistent with the counter-model's unit relations"""
    sa, sb = model.get(ka), model.get(kb)
    da = [model.get("dim%d_%s" % (k, ka[4:])) for k in range(5)]
    db = [model.get("dim%d_%s" % (k, kb[4:])) for k in range(5)]
    if sb is None:
        return "m", None
    if sa == sb:
        return "m", "m"
    if None not in da and None not in db and da != db:
        return "m", "s"
    return "m", "cm"


def model_array(model, name, shape_kind, dtype, n_default=3, m_default=2):
    np = _np()
    n = model.get("n") or n_default
    m = model.get("m") or m_default
    n, m = max(int(n), 1), max(int(m), 1)
    n, m = min(n, 6), min(m, 6)
    shape = {"0d": (), "1d": (n,), "2d": (m, n), "col": (m, 1), "row": (1, n)}[shape_kind]
    rec = model.get("@" + name)
    arr = np.zeros(shape, dtype="float64")
    it = list(itertools.product(*[range(s) for s in shape])) if shape else [()]
    for k, idx in enumerate(it):
        v = None
        if rec and "values" in rec:
            v = rec["values"].get(",".join(map(str, idx)) if idx else "0")
            if v is None:
                v = rec["values"].get(",".join(map(str, idx)))
        if not isinstance(v, (int, float)):
            v = float(k + 1 + (0.5 if "float" in dtype else 0))
        arr[idx] = v
    if "int" in dtype:
        arr = np.clip(np.round(arr), -100, 100)
        if dtype.startswith("uint"):
            arr = np.abs(arr)
    return arr.astype(dtype)


# --------------------------------------------------------------------------------------
def phys(x):
    """pint Quantity (float64 magnitudes) denoted by an osyris Array / number / ndarray / Quantity"""
    np = _np()
    osy = _os()
    import pint

    if isinstance(x, osy.Array):
        return np.asarray(x.values, dtype="float64") * x.unit
    if isinstance(x, pint.Quantity):
        return np.asarray(x.magnitude, dtype="float64") * x.units
    return np.asarray(x, dtype="float64") * osy.units("dimensionless")


BINOPS = {
    "__add__": operator.add, "__sub__": operator.sub, "__mul__": operator.mul, "__truediv__": operator.truediv,
    "__rmul__": lambda a, b: b * a, "__rtruediv__": lambda a, b: b / a,
}


def compare(res, expected, rtol=1e-5):
    """res: osyris Array; expected: pint Quantity -> (ok, detail)"""
    np = _np()
    import pint

    got = phys(res)
    try:
        g = got.to(expected.units).magnitude
    except pint.DimensionalityError:
        return False, "result unit %s, expected dimension of %s" % (res.unit, expected.units)
    e = np.asarray(expected.magnitude, dtype="float64")
    if g.shape != e.shape:
        return False, "shape %s vs %s" % (g.shape, e.shape)
    with np.errstate(all="ignore"):
        ok = np.allclose(g, e, rtol=rtol, atol=0, equal_nan=True)
    return bool(ok), "got %s %s expected %s %s" % (np.ravel(g)[:4], expected.units, np.ravel(e)[:4], expected.units)


def operator_oracle(opname, a, b):
    """run a.<op>(b) natively and compare with pint arithmetic on the denoted quantities"""
    import pint

    np = _np()
    with np.errstate(all="ignore"):
        try:
            expected = BINOPS[opname](phys(a), phys(b))
            exp_exc = None
        except pint.DimensionalityError as e:
            expected, exp_exc = None, e
        try:
            if opname in ("__rmul__", "__rtruediv__"):
                res = getattr(a, opname)(b)
            else:
                res = BINOPS[opname](a, b)
            got_exc = None
        except pint.DimensionalityError as e:
            res, got_exc = None, e
    if exp_exc is not None or got_exc is not None:
        ok = (exp_exc is None) == (got_exc is None)
        return ok, "expected %s, got %s" % ("raise" if exp_exc else "value", "raise" if got_exc else "value")
    return compare(res, expected)


def build_operand(kind, vals, unit):
    osy = _os()
    if kind == "Array":
        return osy.Array(values=vals, unit=unit)
    if kind in ("number_float", "number_int"):
        v = vals.ravel()[0] if hasattr(vals, "ravel") else vals
        return float(v) if kind == "number_float" else int(v)
    if kind == "ndarray":
        return vals
    if kind == "Quantity":
        return float(vals.ravel()[0]) * osy.units(unit)
    if kind == "QuantityArr":
        return vals * osy.units(unit)
    raise ValueError(kind)


# --------------------------------------------------------------------------------------
# replay entry points (case, model, record) -> dict(reproduced=bool, ...)
# --------------------------------------------------------------------------------------
def replay_operator(case, model, rec):
    osy = _os()
    np = _np()
    label = case or ""
    parts = label.split(",")
    opname = parts[0]
    tried = []
    if opname in ("__neg__", "__pow__"):
        dt = model_dtype(model, "dt_a")
        for dtype in [dt, "float32", "int32", "float64"]:
            vals = model_array(model, "a", "1d", dtype)
            a = osy.Array(values=vals, unit="m")
            if opname == "__neg__":
                res, expected = -a, -phys(a)
            else:
                k = float(parts[1].split("=")[1])
                k = int(k) if k == int(k) else k
                if k < 0 and "int" in dtype:
                    continue
                with np.errstate(all="ignore"):
                    res, expected = a ** k, phys(a) ** k
            ok, detail = compare(res, expected)
            tried.append({"dtype": dtype, "ok": ok, "detail": detail})
            if not ok:
                return {"reproduced": True, "input": {"dtype": dtype, "values": vals.tolist(), "unit": "m", "op": label},
                        "observed": detail}
        return {"reproduced": False, "tried": tried}
    kind = parts[1]
    sa, sb = parts[2].split("-")
    ua, ub = model_units(model)
    dta, dtb = model_dtype(model, "dt_a"), model_dtype(model, "dt_b")
    candidates = [(dta, dtb, ua, ub)] + [(d, d, x, y) for d in ("float32", "int32", "float64")
                                         for x, y in (("m", "cm"), ("m", "m"), ("m", "s"))]
    for (da, db, x, y) in candidates:
        if "bool" in (da, db):
            continue
        va = model_array(model, "a", sa, da)
        vb = model_array(model, "b", sb, db)
        a = osy.Array(values=va, unit=x)
        b = build_operand(kind, vb, y or "dimensionless")
        try:
            ok, detail = operator_oracle(opname, a, b)
        except Exception as e:  # a crash is also not what the statement allows
            ok, detail = False, "exception %r" % (e,)
        tried.append({"dtypes": (da, db), "units": (x, y), "ok": ok, "detail": detail})
        if not ok:
            return {"reproduced": True,
                    "input": {"op": opname, "a": va.tolist(), "a_dtype": da, "a_unit": x, "b_kind": kind,
                              "b": vb.tolist(), "b_dtype": db, "b_unit": y},
                    "observed": detail}
    return {"reproduced": False, "tried": tried[:6]}


def replay_wrap_numpy(case, model, rec):
    """direct numpy call on Arrays: unit law of contracts/arrays.py evaluated with pint"""
    osy = _os()
    np = _np()
    parts = (case or "").split(",")
    fname = parts[0]
    f = getattr(np, fname)
    tried = []
    for dtype in [model_dtype(model, "dt_a"), "float32", "int32", "float64"]:
        if dtype == "bool":
            continue
        va = model_array(model, "a", "1d", dtype)
        a = osy.Array(values=va, unit="m")
        with np.errstate(all="ignore"):
            if fname in ("negative", "reciprocal", "sqrt", "square", "cbrt", "absolute"):
                if fname == "reciprocal" and "int" in dtype:
                    continue
                res, expected = f(a), f(phys(a))
            elif fname == "power":
                k = float(parts[1].split("=")[1])
                k = int(k) if k == int(k) else k
                if k < 0 and "int" in dtype:
                    continue
                res, expected = f(a, k), phys(a) ** k
            else:
                vb = model_array(model, "b", "1d", dtype)
                ub = "m" if fname in ("add", "subtract", "maximum", "minimum") else "s"
                b = osy.Array(values=vb, unit=ub)
                res, expected = f(a, b), f(phys(a), phys(b))
        ok, detail = compare(res, expected)
        tried.append({"dtype": dtype, "ok": ok, "detail": detail})
        if not ok:
            return {"reproduced": True, "input": {"func": fname, "dtype": dtype, "a": va.tolist(), "unit": "m"},
                    "observed": detail}
    return {"reproduced": False, "tried": tried}


def replay_binary_op(case, model, rec):
    return {"reproduced": False, "note": "internal helper: decided by the obligation only"}


def replay_to(case, model, rec):
    osy = _os()
    np = _np()
    for dtype in ("float64", "float32", "int32"):
        va = model_array(model, "a", "1d", dtype)
        a = osy.Array(values=va, unit="m")
        before = va.copy()
        r = a.to("cm")
        ok, detail = compare(r, phys(osy.Array(values=before, unit="m")))
        if not ok or not np.array_equal(a.values, before) or str(r.unit) != str(osy.units("cm")):
            return {"reproduced": True, "input": {"dtype": dtype, "values": before.tolist()}, "observed": detail}
    return {"reproduced": False}
