"""C18 — Every accepted map orientation yields an orthonormal, correctly oriented basis."""
import itertools

import z3

from pyvc import core
from pyvc.api import M, O, bounded, summary, unit
from pyvc.core import SV, prove
from pyvc.stubs import np as snp
from pyvc.stubs import pint as spint

from . import arrays as A
from . import native_plot as NP

VEC = "osyris.core.vector"
DIR = "osyris.plot.direction"
USES = ["_binary_op", "Array.to", "Array._wrap_numpy"]

LEVEL = "other"
EXPLANATION = ("perpendicular_vector, normalize, VectorBasis.__init__/roll and get_direction are executed symbolically "
               "(arbitrary real normal components and unit; both branches of perpendicular_vector; every axis letter "
               "and axis triple in upper/lower case; Vector and VectorBasis arguments; 'top'/'side' on a symbolic "
               "particle set).  Orthonormality, n parallel to the request and u x v = n are nonlinear real VCs, "
               "lemma-split and discharged by z3 nlsat.  Extreme magnitudes (overflow/underflow of intermediates) are "
               "outside the real-arithmetic model: bounded native sweep over exponent ranges, recorded finding.")
TRUSTED = ["numpy/pint stubs; sqrt as the principal root (r >= 0, r*r == x)", "np.sum as an uninterpreted function of the "
           "summed contents (top/side)"]
ASSUMPTIONS = ["real arithmetic: no overflow/underflow; the tiny-component clause of the quantifier is bounded-only",
               "a user-supplied VectorBasis is assumed mutually perpendicular (the function does not re-orthogonalise)"]



def comps(v):
    return [getattr(v, c)._array.elem(()) for c in "xyz"]


# --------------------------------------------------------------------------------------
# call-site contracts used while VectorBasis / get_direction are verified
# --------------------------------------------------------------------------------------
@summary("normalize", VEC + ":normalize")
def _normalize_summary(real):
    """normalize(v) for a vector of scalars: components v_c * k with k > 0 and k*k*(v.v) == 1
    (k = 1/|v|); the zero vector is returned unchanged.  Discharged by unit C18.normalize."""
    def normalize(v):
        Vector = O().Vector
        vals = comps(v)
        s = dot3(vals, vals)
        if bool(s == 0):
            return Vector(*vals, unit=v.unit)
        k = core.fresh_real("knorm", register=False)
        core.assume(k > 0)
        core.assume(k * k * s == 1)
        return Vector(*[x * k for x in vals], unit=v.unit)

    return normalize


@summary("Vector.cross", VEC + ":Vector.cross")
def _cross_summary(real):
    """a.cross(b) by its C09 contract, for operands whose units are spelled identically or are
    incompatible (no conversion takes place): raw determinant formula, unit = unit(a)*unit(b)"""
    def cross(self, other):
        Vector, Array = O().Vector, O().Array
        same = self.unit == other.unit
        prove("pre.cross.no_conversion", SV(z3.Or(core.bterm(same), z3.Not(core.bterm(self.unit.same_dim(other.unit)))), "b"))
        a = [getattr(self, c)._array for c in "xyz"]
        b = [getattr(other, c)._array for c in "xyz"]
        u = spint.umul(self.unit, other.unit)
        x = a[1] * b[2] - a[2] * b[1]
        y = a[2] * b[0] - a[0] * b[2]
        z = a[0] * b[1] - a[1] * b[0]
        return Vector(Array(values=x, unit=u), Array(values=y, unit=u), Array(values=z, unit=u))

    return cross


BASIS_USES = ["_binary_op", "Array.to", "Array._wrap_numpy", "normalize", "Vector.cross"]


def dot3(a, b):
    return a[0] * b[0] + a[1] * b[1] + a[2] * b[2]


def cross3(a, b):
    return [a[1] * b[2] - a[2] * b[1], a[2] * b[0] - a[0] * b[2], a[0] * b[1] - a[1] * b[0]]


def mk_scalar_vector(name, unit=None, nonzero=True):
    Vector = O().Vector
    vals = [core.fresh_real(name + c) for c in "xyz"]
    if unit is None:
        unit = spint.sym_unit("u" + name)
        # scaled dimensionless units (cm/m, percent) are the subject of normalize[...scaled_dimensionless_unit]
        core.assume(~unit.dimensionless | (unit == spint.REGISTRY.dimensionless))
    v = Vector(*vals, unit=unit, name=name)
    if nonzero:
        core.assume(SV(z3.Or(*[core.term(x) != 0 for x in vals]), "b"))
    return v, vals


def basis_ok(tag, b, want_n=None, right_handed=False, orthogonal=True):
    n, u, v = comps(b.n), comps(b.u), comps(b.v)
    prove(tag + ".unit_length.n", dot3(n, n) == 1)
    prove(tag + ".unit_length.u", dot3(u, u) == 1)
    prove(tag + ".unit_length.v", dot3(v, v) == 1)
    if orthogonal:
        prove(tag + ".perpendicular.n_u", dot3(n, u) == 0)
        prove(tag + ".perpendicular.n_v", dot3(n, v) == 0)
        prove(tag + ".perpendicular.u_v", dot3(u, v) == 0)
    if want_n is not None:
        c = cross3(n, want_n)
        for k in range(3):
            prove(tag + ".n_parallel_to_request.%s" % "xyz"[k], c[k] == 0)
        prove(tag + ".n_same_direction", dot3(n, want_n) > 0)
    if right_handed:
        c = cross3(u, v)
        for k in range(3):
            prove(tag + ".u_cross_v_is_n.%s" % "xyz"[k], c[k] == n[k])


def oriented_basis_ok(vec, n, nvals, b):
    """Basis_ok + u x v = n for a basis built from the normal alone (lemma-split, division-free):
    u_raw = perpendicular_vector(n), v_raw = n x u_raw, and  u_raw x v_raw = n |u_raw|^2"""
    uraw = comps(vec.perpendicular_vector(n))
    vraw = cross3(nvals, uraw)
    prove("lemma.u_raw_perpendicular", dot3(uraw, nvals) == 0)
    uxv = cross3(uraw, vraw)
    uu = dot3(uraw, uraw)
    for k in range(3):
        prove("lemma.triple_product.%s" % "xyz"[k], uxv[k] == nvals[k] * uu)
    bu, bv = comps(b.u), comps(b.v)
    cu, cv = cross3(bu, uraw), cross3(bv, vraw)
    for k in range(3):
        prove("lemma.u_parallel_u_raw.%s" % "xyz"[k], cu[k] == 0)
        prove("lemma.v_parallel_v_raw.%s" % "xyz"[k], cv[k] == 0)
    prove("lemma.u_same_sense", dot3(bu, uraw) > 0)
    prove("lemma.v_same_sense", dot3(bv, vraw) > 0)
    basis_ok("basis", b, want_n=nvals, right_handed=False)
    prove("basis.right_handed", dot3(cross3(bu, bv), comps(b.n)) > 0)
    c = cross3(bu, bv)
    for k in range(3):
        prove("basis.u_cross_v_is_n.%s" % "xyz"[k], c[k] == comps(b.n)[k])


@unit("C18", "perpendicular_vector", targets=[VEC + ":perpendicular_vector"], uses=USES, cases=[{"label": "any_nonzero"}],
      replay=NP.replay_basis, inline=["Vector.__init__"])
def perpendicular(case):
    vec = M(VEC)
    v, vals = mk_scalar_vector("n")
    p = vec.perpendicular_vector(v)
    pv = comps(p)
    prove("orthogonal", dot3(pv, vals) == 0)
    prove("nonzero", SV(z3.Or(*[core.term(x) != 0 for x in pv]), "b"))
    prove("unit_kept", p.unit == v.unit)


@unit("C18", "normalize", targets=[VEC + ":normalize", VEC + ":Vector.norm"], uses=USES,
      cases=[{"label": "nonzero"}, {"label": "zero"}, {"label": "nonzero,scaled_dimensionless_unit"}], replay=NP.replay_normalize)
def normalize(case):
    vec = M(VEC)
    if "scaled_dimensionless" in case["label"]:
        # a unit such as cm/m or percent: no dimension, scale != 1
        usc = spint.sym_unit("uscaled")
        core.assume(usc.dimensionless)
        core.assume(usc.scale != 1)
        v, vals = mk_scalar_vector("n", unit=usc)
    else:
        v, vals = mk_scalar_vector("n", nonzero=(case["label"] != "zero"))
    if case["label"] == "zero":
        for x in vals:
            core.assume(x == 0)
    r = vec.normalize(v)
    rv = comps(r)
    if case["label"] == "zero":
        for k in range(3):
            prove("zero_stays_zero.%s" % "xyz"[k], rv[k] == 0)
        return
    s = dot3(vals, vals)
    prove("aux.sum_of_squares_positive", s > 0)
    # the facts the call-site contract of normalize hands out: result = v * k, k > 0, k*k*(v.v) == 1
    rr = core.sqrt(s)
    prove("summary.scale_positive", rr > 0)
    for k in range(3):
        prove("summary.component.%s" % "xyz"[k], rv[k] * rr == vals[k])
    prove("summary.unit_kept", r.unit == v.unit)
    prove("unit_norm", dot3(rv, rv) == 1)
    c = cross3(rv, vals)
    for k in range(3):
        prove("direction.parallel.%s" % "xyz"[k], c[k] == 0)
    prove("direction.same_sense", dot3(rv, vals) > 0)


@unit("C18", "Vector.cross", targets=[VEC + ":Vector.cross"], uses=USES, cases=[{"label": "scalars,same_unit"}], replay=NP.replay_basis)
def cross_contract(case):
    """the call-site contract of cross against the real body (scalar components, one unit)"""
    a, av = mk_scalar_vector("a", nonzero=False)
    b, bv = mk_scalar_vector("b", unit=a.unit, nonzero=False)
    r = a.cross(b)
    want = cross3(av, bv)
    got = comps(r)
    for k in range(3):
        prove("value.%s" % "xyz"[k], got[k] == want[k])
    prove("one_unit", r.x.unit == r.y.unit and r.y.unit == r.z.unit)


@unit("C18", "VectorBasis.__init__", targets=[VEC + ":VectorBasis.__init__"], uses=BASIS_USES,
      cases=[{"label": "normal_only"}, {"label": "given_uv"}], replay=NP.replay_basis, max_paths=200)
def basis(case):
    vec = M(VEC)
    n, nvals = mk_scalar_vector("n")
    if case["label"] == "normal_only":
        b = vec.VectorBasis(n=n)
        oriented_basis_ok(vec, n, nvals, b)
    else:
        u, uvals = mk_scalar_vector("u", unit=n.unit)
        v, vvals = mk_scalar_vector("v", unit=n.unit)
        # accepted bases are mutually perpendicular (precondition)
        core.assume(dot3(nvals, uvals) == 0)
        core.assume(dot3(nvals, vvals) == 0)
        core.assume(dot3(uvals, vvals) == 0)
        b = vec.VectorBasis(n=n, u=u, v=v)
        basis_ok("basis", b, want_n=nvals)
        prove("names_kept", b.u.name == "u" and b.v.name == "v" and b.n.name == "n")


@unit("C18", "VectorBasis.roll", targets=[VEC + ":VectorBasis.roll"], uses=BASIS_USES, cases=[{"label": "roll"}], replay=NP.replay_basis)
def roll(case):
    vec = M(VEC)
    n, nvals = mk_scalar_vector("n")
    b = vec.VectorBasis(n=n)
    r = b.roll()
    basis_ok("rolled", r)
    # cyclic relabelling: the old normal becomes the second in-plane vector
    bn, rv = comps(b.n), comps(r.v)
    c = cross3(bn, rv)
    for k in range(3):
        prove("old_normal_in_image_plane.%s" % "xyz"[k], c[k] == 0)
    prove("old_normal_is_v", dot3(bn, rv) > 0)
    prove("old_normal_perpendicular_to_new_normal", dot3(bn, comps(r.n)) == 0)


AXES = {"x": [1, 0, 0], "y": [0, 1, 0], "z": [0, 0, 1]}
_LETTERS = [{"label": d, "direction": d} for d in ("x", "y", "z", "X", "Y", "Z")]
_TRIPLES = [{"label": "".join(p) if i % 2 == 0 else "".join(p).upper(), "direction": "".join(p) if i % 2 == 0 else "".join(p).upper()}
            for i, p in enumerate(itertools.permutations("xyz"))] + [{"label": "zYx", "direction": "zYx"}]


@unit("C18", "get_direction.letters", targets=[DIR + ":get_direction"], uses=BASIS_USES, cases=_LETTERS + _TRIPLES, replay=NP.replay_basis)
def letters(case):
    d = M(DIR)
    b = d.get_direction(case["direction"])
    s = case["direction"].lower()
    want = AXES[s[0]]
    basis_ok("basis", b, want_n=want, right_handed=(len(s) == 1))
    if len(s) == 3:
        for nm, vecs in (("u", b.u), ("v", b.v)):
            w = AXES[s[1] if nm == "u" else s[2]]
            c = comps(vecs)
            for k in range(3):
                prove("%s_is_requested_axis.%s" % (nm, "xyz"[k]), c[k] == w[k])


@unit("C18", "get_direction.objects", targets=[DIR + ":get_direction", DIR + ":_basis_with_names"], uses=BASIS_USES,
      cases=[{"label": "Vector"}, {"label": "VectorBasis"}, {"label": "bad"}], replay=NP.replay_basis, max_paths=200)
def objects(case):
    d = M(DIR)
    vec = M(VEC)
    if case["label"] == "bad":
        try:
            d.get_direction(12.5)
            raised = False
        except ValueError:
            raised = True
        prove("rejected", raised)
        return
    n, nvals = mk_scalar_vector("n")
    if case["label"] == "Vector":
        b = d.get_direction(n)
        oriented_basis_ok(vec, n, nvals, b)
    else:
        u, uvals = mk_scalar_vector("u", unit=n.unit)
        v, vvals = mk_scalar_vector("v", unit=n.unit)
        core.assume(dot3(nvals, uvals) == 0)
        core.assume(dot3(nvals, vvals) == 0)
        core.assume(dot3(uvals, vvals) == 0)
        given = vec.VectorBasis(n=n, u=u, v=v)
        b = d.get_direction(given)
        basis_ok("basis", b, want_n=nvals)
    prove("names", b.n.name == "normal" and b.u.name == "pos_u" and b.v.name == "pos_v")


class AbstractBasis:
    """result of VectorBasis(n=...) by its contract (proved in units VectorBasis.__init__ / roll):
    unit vectors, mutually perpendicular, n parallel to the argument in the same sense, u x v = n"""

    def __init__(self, n_arg=None, parts=None):
        Vector = O().Vector
        if parts is not None:
            self.n, self.u, self.v = parts
            return
        self.n_arg = n_arg
        vals = {}
        for nm in "nuv":
            vals[nm] = [core.fresh_real("b%s%s" % (nm, c), register=False) for c in "xyz"]
        n, u, v = vals["n"], vals["u"], vals["v"]
        arg = comps(n_arg)
        nz = z3.Or(*[core.term(x) != 0 for x in arg])  # the contract holds for a non-zero normal
        facts = [dot3(w, w) == 1 for w in (n, u, v)] + [dot3(n, u) == 0, dot3(n, v) == 0, dot3(u, v) == 0]
        c = cross3(u, v)
        facts += [c[k] == n[k] for k in range(3)]
        cp = cross3(n, arg)
        facts += [cp[k] == 0 for k in range(3)] + [dot3(n, arg) > 0]
        for f in facts:
            core.cur().add(z3.Implies(nz, core.bterm(f)))
        self.n = Vector(*n, unit=n_arg.unit)
        self.u = Vector(*u, unit=n_arg.unit)
        self.v = Vector(*v, unit=n_arg.unit)

    def roll(self):
        return AbstractBasis(parts=(self.u, self.v, self.n))

    def __str__(self):
        return "<basis>"


CALLS = []


@summary("VectorBasis@direction", DIR + ":VectorBasis")
def _vb_summary(real):
    def VectorBasis(n, u=None, v=None):
        prove("pre.VectorBasis.normal_only", u is None and v is None)
        b = AbstractBasis(n_arg=n)
        CALLS.append((n, b))
        return b

    return VectorBasis


@unit("C18", "get_direction.top_side", targets=[DIR + ":get_direction"], uses=USES + ["VectorBasis@direction", "Vector.cross"],
      cases=[{"label": "top"}, {"label": "side"}, {"label": "TOP,no_dx"}, {"label": "Side,no_origin"}],
      replay=NP.replay_top_side, max_paths=64, inline=["_basis_with_names", "Vector.__getitem__", "Vector.norm"])
def top_side(case):
    osy = O()
    d = M(DIR)
    del CALLS[:]
    dims = A.Dims()
    core.assume(dims.n >= 1)
    ul = spint.sym_unit("ulen")
    core.assume(~ul.dimensionless)
    uv = spint.sym_unit("uvel")
    dt = snp.dtype("float64")
    pos = osy.Vector(*[A.mk_array("p" + c, dims, "1d", unit=ul, dt=dt) for c in "xyz"])
    vel = osy.Vector(*[A.mk_array("v" + c, dims, "1d", unit=uv, dt=dt) for c in "xyz"])
    um = spint.sym_unit("umass")
    mass = A.mk_array("m", dims, "1d", unit=um, dt=dt)
    # physical dimensions: mass is not dimensionless-compatible with length, and (length*mass) is not a velocity
    core.assume(~spint.umul(ul, um).same_dim(uv))
    core.assume(~um.same_dim(ul))
    data = {"position": pos, "velocity": vel, "mass": mass}
    label = case["label"].split(",")[0]
    kw = {}
    o = [0, 0, 0]
    if "no_origin" not in case["label"]:
        origin = osy.Vector(*[osy.Array(values=core.fresh_real("o" + c), unit=ul) for c in "xyz"])
        kw["origin"] = origin
        o = [getattr(origin, c)._array.elem(()) for c in "xyz"]
    R = None
    if "no_dx" not in case["label"]:
        dx = spint.Quantity(core.fresh_real("dx"), ul)
        dy = spint.Quantity(core.fresh_real("dy"), ul)
        core.assume(dx.magnitude > 0)
        core.assume(dy.magnitude > 0)
        kw.update(dx=dx, dy=dy)
        R = 0.25 * (dx.magnitude + dy.magnitude)
    b = d.get_direction(label, data=data, **kw)
    prove("basis_built_once", len(CALLS) == 1)
    if len(CALLS) != 1:
        return
    n_arg, made = CALLS[0]
    prove("normal_is_dimensionless_vector", n_arg.unit == spint.REGISTRY.dimensionless)
    if label.lower() == "top":
        prove("returns_the_basis", b is made)
    else:
        prove("returns_the_rolled_basis", b.n is made.u and b.u is made.v and b.v is made.n)
    prove("names", b.n.name == "normal" and b.u.name == "pos_u" and b.v.name == "pos_v")
    if R is None:
        core.cover("automatic_radius")
        return
    # the angular momentum of the statement: sum over rows within R of the origin of  m (r - o) x v ,
    # written with numpy on the raw values (np.sum is a function of the summed contents)
    r = [getattr(pos, c)._array - o[k] if "no_origin" not in case["label"] else getattr(pos, c)._array for k, c in enumerate("xyz")]
    dist = snp.sqrt(r[0] * r[0] + r[1] * r[1] + r[2] * r[2])
    inside = dist < R
    rs = [x[inside] for x in r]
    ms = mass._array[inside]
    vs = [getattr(vel, c)._array[inside] for c in "xyz"]
    w = [x * ms for x in rs]
    L = [snp.sum(w[1] * vs[2] - w[2] * vs[1]), snp.sum(w[2] * vs[0] - w[0] * vs[2]), snp.sum(w[0] * vs[1] - w[1] * vs[0])]
    L = [x.elem(()) if isinstance(x, snp.ndarray) else x for x in L]
    got = comps(n_arg)
    for k in range(3):
        prove("angular_momentum.%s" % "xyz"[k], got[k] == L[k])
    core.assume(SV(z3.Or(*[core.term(x) != 0 for x in L]), "b"))  # non-zero net angular momentum (quantifier)
    # consequences through the contract of VectorBasis
    bn = comps(b.n)
    if label.lower() == "top":
        c = cross3(bn, L)
        for k in range(3):
            prove("n_parallel_to_angular_momentum.%s" % "xyz"[k], c[k] == 0)
        prove("n_same_sense", dot3(bn, L) > 0)
    else:
        prove("angular_momentum_in_image_plane", dot3(bn, L) == 0)


@bounded("C18", "native", "normals over exponent ranges 1e-300..1e300 incl. axis-aligned, zero z, tiny components; letters and "
                          "triples in all cases; top/side on random particle discs; orthonormality to 1e-9")
def native(tier, seed):
    from pyvc import nativerun

    return nativerun.run("contracts.native_plot:sweep_c18", tier, seed)


from . import foundation  # noqa: E402

foundation.register("C18", wrap_funcs=("add", "subtract", "multiply", "divide"))
