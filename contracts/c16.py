"""C16 — Sub-domain extraction returns exactly the rows inside the region."""
import z3

from pyvc import core
from pyvc.api import O, bounded, summary, unit
from pyvc.core import SV, prove
from pyvc.stubs import np as snp
from pyvc.stubs import pint as spint

from . import arrays as A
from . import native_containers as NC
from .c06 import leaves, snap_group, group_unchanged

LEVEL = "other"
EXPLANATION = ("extract_sphere and extract_box are executed symbolically on datasets shaped as the loader builds them "
               "(groups mesh / part / sink, with own positions, borrowing the mesh positions, or without usable "
               "positions) with symbolic row counts, positions, units, origin and sizes.  Proved: the mask handed to "
               "Datagroup.__getitem__ is exactly the region predicate over phys() (strict < for the sphere, <= for the "
               "box), the stored group is the result of that indexing (row alignment is C06's contract), groups with "
               "no row inside are omitted, meta is a copy, the input is untouched.  Dataset shapes are instantiated "
               "(4 layouts), hence 'other'; a native point-in-region oracle is the bounded stand-in.")
TRUSTED = ["numpy/pint stubs; Datagroup.__getitem__(mask) by its C06 contract"]
ASSUMPTIONS = ["Datagroup.__str__ (used for the warning text of skipped groups) is assumed pure: replaced by an opaque "
               "summary, not verified", "radius >= 0 and box sizes >= 0", "3-component positions; dataset layouts enumerated"]

SUB = "osyris.spatial.subdomain"
USES = ["_binary_op", "Array.to", "Array._wrap_numpy"]

RECORD = []


@summary("Datagroup.__getitem__.record", "osyris.core.datagroup:Datagroup.__getitem__")
def _rec(real):
    def __getitem__(self, key):
        out = real(self, key)
        if not isinstance(key, str):
            RECORD.append((self, key, out))
        return out

    return __getitem__


@summary("Datagroup.__str__.opaque", "osyris.core.datagroup:Datagroup.__str__")
def _str_opaque(real):
    """assumed contract of Datagroup.__str__ (used only to build a warning text): returns some
    string and modifies nothing"""
    def __str__(self):
        return "<Datagroup %s>" % self.name

    return __str__


LAYOUTS = {
    "mesh_only": {"mesh": "own"},
    "mesh_part": {"mesh": "own", "part": "own"},
    "mesh_hydro_like": {"mesh": "own", "extra": "borrow"},
    "mesh_other_shape": {"mesh": "own", "sink": "none"},
}


def build(layout):
    osy = O()
    dims = {"mesh": A.Dims()}
    ds = osy.Dataset()
    ds.meta["time"] = 1.0
    info = {}
    ulen = spint.sym_unit("ulen")
    core.assume(~ulen.dimensionless)  # positions are lengths (precondition)
    for name, how in LAYOUTS[layout].items():
        d = dims["mesh"] if how in ("own", "borrow") and name in ("mesh", "extra") else A.Dims()
        if how == "none":
            core.assume(d.n != dims["mesh"].n)
        core.assume(d.n >= 1)
        g = osy.Datagroup()
        if how == "own":
            # unit conversion between positions, origin and sizes is exercised in full generality by
            # the mesh_only layout; the other layouts exercise the group logic with one length unit
            up = ulen if (name == "mesh" or layout != "mesh_only") else spint.sym_unit("ulen_" + name, family=ulen)
            dt = snp.dtype("float64")
            g["position"] = osy.Vector(*[A.mk_array(name + "_p" + c, d, "1d", unit=up, dt=dt) for c in "xyz"])
        g["val"] = A.mk_array(name + "_val", d, "1d")
        ds[name] = g
        info[name] = (how, d)
    return ds, info, ulen


@unit("C16", "extract", targets=[SUB + ":extract_sphere", SUB + ":extract_box", SUB + ":_get_positions"],
      uses=USES + ["Datagroup.__getitem__.record", "Datagroup.__str__.opaque"],
      cases=[{"label": "%s,%s" % (f, l), "f": f, "layout": l} for f in ("sphere", "box") for l in LAYOUTS],
      replay=NC.replay_extract, max_paths=600,
      inline=["Vector._binary_op", "Vector.norm", "Dataset.__setitem__", "Datagroup.get", "Dataset.items"])
def extract(case):
    osy = O()
    del RECORD[:]
    ds, info, ulen = build(case["layout"])
    general = case["layout"] == "mesh_only"
    uo = spint.sym_unit("uorigin", family=ulen) if general else ulen
    origin = osy.Vector(*[osy.Array(values=core.fresh_real("o" + c), unit=uo) for c in "xyz"])
    snaps = {name: snap_group(ds[name]) for name in ds.keys()}
    keys_before = list(ds.keys())
    meta_before = dict(ds.meta)
    try:
        if case["f"] == "sphere":
            ur = spint.sym_unit("uradius", family=ulen) if general else ulen
            radius = osy.Array(values=core.fresh_real("radius"), unit=ur)
            core.assume(radius._array.elem(()) >= 0)
            sub = osy.spatial.extract_sphere(ds, radius, origin)
        else:
            us = spint.sym_unit("usize", family=ulen) if general else ulen
            sizes = [osy.Array(values=core.fresh_real("d" + c), unit=us) for c in "xyz"]
            for s_ in sizes:
                core.assume(s_._array.elem(()) >= 0)
            sub = osy.spatial.extract_box(ds, sizes[0], sizes[1], sizes[2], origin)
    except (KeyError, AttributeError) as e:
        # the contract allows no exception on a dataset as the loader builds it
        prove("returns_normally", False)
        return
    prove("returns_normally", True)
    prove("fresh_dataset", sub is not ds and isinstance(sub, osy.Dataset))
    prove("meta_copied", sub.meta == meta_before and sub.meta is not ds.meta)
    prove("input_keys_kept", list(ds.keys()) == keys_before)
    for name in keys_before:
        group_unchanged("input[%s]" % name, ds[name], snaps[name])
    mesh_pos = snaps["mesh"]["members"]["position"]
    for name in keys_before:
        how, d = info[name]
        if how == "none":
            prove("skipped_without_positions[%s]" % name, name not in sub.keys())
            continue
        pos = snaps[name]["members"]["position"] if how == "own" else mesh_pos
        recs = [r for r in RECORD if r[0] is ds[name]]
        i = core.fresh_int("i_" + name, 0)
        core.assume(i < d.n)
        p = [getattr(pos, c)._array.elem((i,)) * pos.unit.scale for c in "xyz"]
        o = [getattr(origin, c)._array.elem(()) * uo.scale for c in "xyz"]
        if case["f"] == "sphere":
            # the region predicate written in the unit of the positions (sp > 0); that this is the
            # same statement as  sum (p_k sp - o_k so)^2 < (R sr)^2  is lemma C16.lemma.unit_invariance
            sp = pos.unit.scale
            praw = [getattr(pos, c)._array.elem((i,)) for c in "xyz"]
            oc = [getattr(origin, c)._array.elem(()) * A.ratio(uo, pos.unit) for c in "xyz"]
            Rc = radius._array.elem(()) * A.ratio(ur, pos.unit)
            x = [praw[k] - oc[k] for k in range(3)]
            S = x[0] * x[0] + x[1] * x[1] + x[2] * x[2]
            inside = S < Rc * Rc
            prove("aux.sum_of_squares_nonneg[%s]" % name, S >= 0)
            prove("aux.radius_nonneg[%s]" % name, Rc >= 0)
        else:
            half = [s_._array.elem(()) * us.scale * 0.5 for s_ in sizes]
            inside = SV(z3.And(*[z3.And(core.bterm(p[k] - o[k] <= half[k]), core.bterm(p[k] - o[k] >= -half[k])) for k in range(3)]), "b")
        if name in sub.keys():
            prove("indexed_once[%s]" % name, len(recs) == 1)
            if len(recs) != 1:
                continue
            _, mask, out = recs[0]
            prove("stored_is_indexing_result[%s]" % name, sub[name] is out)
            prove("mask_is_bool_ndarray[%s]" % name, isinstance(mask, snp.ndarray) and mask.dtype.is_bool() is True)
            prove("mask_length[%s]" % name, mask.shape[0] == d.n)
            prove("mask_iff_inside[%s]" % name, SV(core.bterm(mask.elem((i,))) == core.bterm(inside), "b"))
        else:
            for fact in list(snp._QFACTS.values()):
                snp.quant_elim(fact[0], (i,))
            prove("omitted_only_if_no_row_inside[%s]" % name, ~inside)
    core.cover("extracted")


@unit("C16", "lemma.unit_invariance", targets=[], cases=[{"label": "sphere"}], replay=None)
def unit_invariance(case):
    """the sphere predicate in the unit of the positions is the statement's predicate over physical
    quantities:  sum (p_k sp - o_k so)^2 < (R sr)^2   <=>   sum (p_k - o_k so/sp)^2 < (R sr/sp)^2"""
    sp, so, sr, R = [core.fresh_real(n) for n in ("sp", "so", "sr", "R")]
    ko, kr = core.fresh_real("ko"), core.fresh_real("kr")
    for v in (sp, so, sr):
        core.assume(v > 0)
    core.assume(ko * sp == so)  # ko = so/sp, kr = sr/sp (division-free definitions)
    core.assume(kr * sp == sr)
    p = [core.fresh_real("p%d" % k) for k in range(3)]
    o = [core.fresh_real("o%d" % k) for k in range(3)]
    lhs = sum(((p[k] * sp - o[k] * so) * (p[k] * sp - o[k] * so) for k in range(3)), 0)
    rhs = sum(((p[k] - o[k] * ko) * (p[k] - o[k] * ko) for k in range(3)), 0)
    prove("scaled_sum", lhs == rhs * (sp * sp))
    prove("scaled_radius", (R * sr) * (R * sr) == (R * kr) * (R * kr) * (sp * sp))
    prove("equivalent", SV(core.bterm(lhs < (R * sr) * (R * sr)) == core.bterm(rhs < (R * kr) * (R * kr)), "b"))


@bounded("C16", "native", "random datasets (mesh/part/hydro-like/sink layouts, 1-40 rows) x random spheres/boxes in m/cm/km "
                          "incl. empty, full and boundary regions; point-in-region oracle")
def native(tier, seed):
    from pyvc import nativerun

    return nativerun.run("contracts.native_containers:sweep_c16", tier, seed)


from . import foundation  # noqa: E402

foundation.register("C16")
