"""Bounded native stand-in for C08: unit spelling table and conversion sweep (real pint)."""
import itertools
import random

from . import native_arrays as N

SPELLINGS = [("cm", "centimeter"), ("m", "meter"), ("g", "gram"), ("kg", "kilogram"), ("s", "second"),
             ("K", "kelvin"), ("km/s", "kilometer/second"), ("g/cm**3", "gram/centimeter**3"),
             ("g/cm^3", "g/cm**3"), ("erg", "erg"), ("M_sun", "solar_mass"), ("M_sun", "M_sol"),
             ("R_sun", "solar_radius"), ("L_sun", "solar_luminosity"), ("au", "astronomical_unit"),
             ("cm*g", "g*cm"), ("dimensionless", "")]


def sweep(tier, seed):
    import numpy as np
    import osyris
    from osyris import Array, Vector, units
    import pint

    rng = random.Random(seed)
    viol, cases, distinct = [], 0, set()
    for a, b in SPELLINGS:
        cases += 1
        distinct.add(("spell", a, b))
        ua, ub = units(a), units(b)
        if ua != ub or units(ua) is not ua:
            viol.append({"name": "C08.native.spelling", "input": [a, b], "observed": "%r != %r" % (ua, ub)})
    n_rand = 40 if tier == "quick" else 400
    for fam, names in N.FAMILIES.items():
        for (u1, u2) in itertools.permutations(names, 2):
            for dtype in ("float64", "float32", "int32", "int64"):
                for shape in ((), (5,), (2, 3)):
                    cases += 1
                    distinct.add((fam, u1, u2, dtype, shape))
                    vals = (np.arange(1, int(np.prod(shape, dtype=int)) + 1).reshape(shape) * 3).astype(dtype)
                    a = Array(values=vals.copy(), unit=u1)
                    r = a.to(u2)
                    ok, detail = N.compare(r, N.phys(Array(values=vals, unit=u1)))
                    back = r.to(u1)
                    ok2 = np.allclose(np.asarray(back.values, dtype=float), vals.astype(float), rtol=1e-5)
                    if not (ok and ok2 and np.array_equal(a.values, vals) and r.unit == units(u2)):
                        viol.append({"name": "C08.native.to", "input": [u1, u2, dtype, list(shape)], "observed": detail})
    # conversions do not depend on earlier conversions of the same object
    cases += 1
    rh = N.replay_to_history("", {}, {})
    if rh["reproduced"]:
        viol.append({"name": "C08.native.to_history", "input": rh["input"], "observed": rh["observed"]})
    # incompatible pairs raise and leave the source unchanged
    fams = list(N.FAMILIES)
    for f1, f2 in itertools.permutations(fams, 2):
        if "dimensionless" in (f1, f2):
            continue
        cases += 1
        a = Array(values=np.array([1.0, 2.0]), unit=N.FAMILIES[f1][0])
        try:
            a.to(N.FAMILIES[f2][0])
            viol.append({"name": "C08.native.raises", "input": [f1, f2], "observed": "no exception"})
        except pint.DimensionalityError:
            pass
    # vectors
    for nvec in (1, 2, 3):
        cases += 1
        comps = [Array(values=np.array([1.0, 2.0, 3.0]) * (k + 1), unit="m") for k in range(nvec)]
        v = Vector(*comps)
        r = v.to("cm")
        for c, orig in zip("xyz", comps):
            if not np.allclose(getattr(r, c).values, orig.values * 100) or getattr(r, c).unit != units("cm"):
                viol.append({"name": "C08.native.vector_to", "input": nvec, "observed": str(getattr(r, c))})
    # defined constants convert to CGS with the reference values (run-time view of the catalogue)
    from . import ref_constants as R

    for name, (ref, uexpr, tol, aliases) in R.CONSTANTS.items():
        cases += 1
        q = (1.0 * units(name)).to(units(uexpr)).magnitude
        if abs(q - float(ref)) / float(ref) > float(tol):
            viol.append({"name": "C08.native.constant", "input": name, "observed": q})
        for al in aliases:
            if units(al) != units(name):
                viol.append({"name": "C08.native.alias", "input": [name, al], "observed": "alias differs"})
    return {"status": "violation" if viol else "ok", "cases": cases, "distinct": len(distinct), "violations": viol[:10],
            "samples": [list(map(str, s)) for s in list(distinct)[:3]], "kind": "bounded-native"}
