"""Merge rule of make_vector_arrays taken from the statement of C13 (shared by the symbolic and native checks)."""
ALPHABET = ["x", "y", "z", "a_x", "a_y", "a_z", "B_x_left", "B_y_left", "B_z_left", "vel_x", "vel_y", "velocity", "vel",
            "flux", "xx_x", "max"]


def merge_spec(names, ndim):
    """the merge rule of the statement: groups of names that differ only in one x/y/z letter and are complete
    for ndim become one vector, named by removing that letter (and a preceding '_'), 'position' if nothing
    is left; every other name keeps its value.  Returns (vectors: name -> component names, kept scalars)"""
    comps = "xyz"[:ndim]
    vectors = {}
    used = set()
    if ndim > 1:
        for key in names:
            for i, ch in enumerate(key):
                if ch != "x":
                    continue
                group = [key[:i] + c + key[i + 1:] for c in comps]
                if all(g in names for g in group):
                    cut = i - 1 if (i > 0 and key[i - 1] == "_") else i
                    raw = key[:cut] + key[i + 1:]
                    raw = raw if raw else "position"
                    if raw in names and raw not in group:
                        continue  # the name is taken by another variable: nothing may be lost, so no merge
                    vectors[raw] = group
                    used.update(group)
    kept = [n for n in names if n not in used]
    return vectors, kept


