"""Shared contracts for osyris.core.array (group A: C02 C07 C08 C09 C10 C17).

Spec functions are executable over the symbolic stubs; they serve twice:
  * as the postcondition the real body is compared with (real result == spec result), and
  * as the call-site summary installed while a caller is verified (modularity).
Top-level postconditions (taken from the property statements) are stated in the per-property
files over the abstraction  phys(A)[i] = A._array[i] * SCALE(A.unit),  dim(A.unit).
"""
import fractions

import z3

from pyvc import core
from pyvc.api import O, summary
from pyvc.core import SV, prove
from pyvc.stubs import np as snp
from pyvc.stubs import pint as spint

ARRAY = "osyris.core.array"

# --------------------------------------------------------------------------------------
# the unit law (from dimensional analysis / the statements of C02, C07, C10) -- NOT from the code
# --------------------------------------------------------------------------------------
SAME = ("add", "subtract", "maximum", "minimum", "hypot", "negative", "positive", "absolute", "sum", "mean",
        "amin", "amax", "median", "std", "cumsum", "sort", "diff", "concatenate", "where", "nansum")
TRANSFORM = ("multiply", "divide", "true_divide", "sqrt", "square", "cbrt", "power", "reciprocal")
PREDICATE = ("less", "less_equal", "greater", "greater_equal", "equal", "not_equal", "logical_and",
             "logical_or", "logical_xor", "logical_not", "isnan", "isfinite", "isinf")


def unit_of(x):
    """unit carried by an operand (dimensionless for plain numbers and ndarrays)"""
    Array = O().Array
    if isinstance(x, Array):
        return x.unit
    if isinstance(x, spint.Quantity):
        return x.units
    return spint.REGISTRY.dimensionless


def law_unit(name, self, args):
    dl = spint.REGISTRY.dimensionless
    if name in PREDICATE:
        return dl
    if name in SAME:
        return self.unit
    if name == "multiply":
        return spint.umul(unit_of(args[0]), unit_of(args[1]))
    if name in ("divide", "true_divide"):
        return spint.udiv(unit_of(args[0]), unit_of(args[1]))
    if name == "sqrt":
        return spint.upow(unit_of(args[0]), fractions.Fraction(1, 2))
    if name == "square":
        return spint.upow(unit_of(args[0]), 2)
    if name == "cbrt":
        return spint.upow(unit_of(args[0]), fractions.Fraction(1, 3))
    if name == "reciprocal":
        return spint.upow(unit_of(args[0]), -1)
    if name == "power":
        k = raw(args[1])
        if isinstance(k, snp.ndarray) and k.ndim == 0:
            k = k.elem(())  # a 0-d exponent array is a number
        return spint.upow(unit_of(args[0]), k)
    raise core.Undecided("no unit law for numpy function %r (outside the catalogue)" % name)


def raw(x):
    Array = O().Array
    if isinstance(x, Array):
        return x._array
    if isinstance(x, spint.Quantity):
        return x.magnitude
    return x


def wrap_numpy_spec(self, func, *args, **kwargs):
    """Specified result of Array._wrap_numpy: numpy's values on the raw values, unit by the law.
    Precondition (call sites): for functions of class SAME every unit-carrying Array operand
    is spelled in self.unit."""
    Array = O().Array
    name = func.__name__
    if isinstance(args[0], (tuple, list)):
        raw_args = (tuple(raw(a) for a in args[0]),) + tuple(raw(a) for a in args[1:])
        flat = list(args[0]) + list(args[1:])
    else:
        raw_args = tuple(raw(a) for a in args)
        flat = list(args)
    raw_kw = {}
    for k, v in kwargs.items():
        raw_kw[k] = tuple(raw(a) for a in v) if isinstance(v, (tuple, list)) else raw(v)
    result = func(*raw_args, **raw_kw)
    unit = law_unit(name, self, flat)
    rdt = result.dtype
    is_bool = rdt.is_bool()
    if isinstance(is_bool, SV):
        is_bool = bool(is_bool)
    if is_bool:
        unit = spint.REGISTRY.dimensionless
    if "out" in kwargs:
        target = kwargs["out"][0]
        target._unit = unit
        return target
    return Array(values=result, unit=unit)


def same_unit_pre(self, func, args):
    """call-site precondition of _wrap_numpy for SAME/PREDICATE functions"""
    Array = O().Array
    if func.__name__ in TRANSFORM or func.__name__.startswith("logical") or func.__name__ in ("isnan", "isfinite", "isinf"):
        return
    flat = list(args[0]) + list(args[1:]) if isinstance(args[0], (tuple, list)) else list(args)
    for a in flat:
        if isinstance(a, Array) and a is not self:
            prove("pre._wrap_numpy.operands_share_unit[%s]" % func.__name__, a.unit == self.unit)


@summary("Array._wrap_numpy", ARRAY + ":Array._wrap_numpy")
def _wn_summary(real):
    def _wrap_numpy(self, func, *args, **kwargs):
        same_unit_pre(self, func, args)
        return wrap_numpy_spec(self, func, *args, **kwargs)

    return _wrap_numpy


# --------------------------------------------------------------------------------------
def to_spec(self, unit):
    """Array.to: identity (same object) when the unit is spelled identically; otherwise a new
    Array holding values * SCALE(old)/SCALE(new) in the new unit; raises when dimensions differ."""
    Array = O().Array
    new_unit = O().units(unit)
    if bool(self.unit == new_unit):
        return self
    if not bool(self.unit.same_dim(new_unit)):
        raise spint.DimensionalityError(self.unit, new_unit)
    ratio = self.unit.scale / new_unit.scale
    return Array(values=self._array * ratio, unit=new_unit)


@summary("Array.to", ARRAY + ":Array.to")
def _to_summary(real):
    def to(self, unit):
        return to_spec(self, unit)

    return to


def binary_op_spec(op, lhs, rhs, strict=True, **kwargs):
    """module-level _binary_op: coerce rhs to the class of lhs, convert it to lhs.unit
    (strict: raise on dimension mismatch; non-strict: leave unconverted), apply op."""
    cls = lhs.__class__
    if not isinstance(rhs, cls):
        try:
            rhs = cls(rhs)
        except NotImplementedError:
            return NotImplemented
    if strict:
        rhs = rhs.to(lhs.unit)
    else:
        if bool(rhs.unit.same_dim(lhs.unit)):
            rhs = rhs.to(lhs.unit)
    return op(lhs, rhs, **kwargs)


@summary("_binary_op", ARRAY + ":_binary_op")
def _bo_summary(real):
    def _binary_op(op, lhs, rhs, strict=True, **kwargs):
        return binary_op_spec(op, lhs, rhs, strict=strict, **kwargs)

    return _binary_op


# --------------------------------------------------------------------------------------
# operand builders
# --------------------------------------------------------------------------------------
SHAPES = ["1d", "0d", "2d"]
PAIR_SHAPES = [("1d", "1d"), ("0d", "0d"), ("2d", "2d"), ("2d", "1d"), ("1d", "0d"), ("2d", "col")]


class Dims:
    """symbolic extents shared by the operands of one unit"""

    def __init__(self):
        self.n = core.fresh_int("n", 0)
        self.m = core.fresh_int("m", 0)

    def shape(self, kind):
        return {"0d": (), "1d": (self.n,), "2d": (self.m, self.n), "col": (self.m, 1), "row": (1, self.n)}[kind]


def mk_ndarray(name, dims, shape_kind, dt=None, kind="r"):
    dt = dt if dt is not None else snp.sym_dtype("dt_" + name)
    return snp.sym_array(name, dims.shape(shape_kind), dt, kind)


def mk_array(name, dims, shape_kind, unit=None, dt=None, kind="r"):
    Array = O().Array
    unit = unit if unit is not None else spint.sym_unit("u" + name)
    a = Array(values=mk_ndarray(name, dims, shape_kind, dt, kind), unit=unit)
    a.name = "nm_" + name
    return a


def mk_operand(kind, name, dims, shape_kind, unit=None):
    """kind: Array | number_int | number_float | ndarray | Quantity | QuantityArr"""
    if kind == "Array":
        return mk_array(name, dims, shape_kind, unit)
    if kind == "number_float":
        return core.fresh_real(name)
    if kind == "number_int":
        return core.fresh_int(name)
    if kind == "ndarray":
        return mk_ndarray(name, dims, shape_kind)
    if kind == "Quantity":
        return spint.Quantity(core.fresh_real(name), unit if unit is not None else spint.sym_unit("u" + name))
    if kind == "QuantityArr":
        return spint.Quantity(mk_ndarray(name, dims, shape_kind), unit if unit is not None else spint.sym_unit("u" + name))
    raise ValueError(kind)


def skolem_index(shape, base="i"):
    idx = []
    for k, d in enumerate(shape):
        i = core.fresh_int("%s%d" % (base, k), 0)
        core.assume(i < d)
        idx.append(i)
    return tuple(idx)


def elem_of(x, idx, full_shape):
    """element of operand x paired with result index idx (numpy broadcasting map)"""
    r = raw(x)
    if isinstance(r, snp.ndarray):
        return r.elem(snp._bc_index(idx, r.shape, full_shape))
    return r


def phys_of(x, idx, full_shape):
    return elem_of(x, idx, full_shape) * unit_of(x).scale


def snapshot(x):
    """freeze the observable state of an operand (for `old(...)` in postconditions)"""
    Array = O().Array
    if isinstance(x, Array):
        return {"obj": x, "arr": x._array, "buf": x._array.buf, "elem": x._array.snapshot(), "unit": x._unit,
                "shape": x._array.shape, "name": x.name, "version": x._array.buf.version, "dtype": x._array.dtype}
    if isinstance(x, snp.ndarray):
        return {"obj": x, "arr": x, "buf": x.buf, "elem": x.snapshot(), "shape": x.shape, "version": x.buf.version}
    if isinstance(x, spint.Quantity):
        m = x.magnitude
        return {"obj": x, "mag": m, "unit": x.units,
                "elem": m.snapshot() if isinstance(m, snp.ndarray) else None,
                "version": m.buf.version if isinstance(m, snp.ndarray) else None}
    return {"obj": x}


def unchanged(tag, snap):
    """frame clause: the operand holds what it held at entry"""
    Array = O().Array
    x = snap["obj"]
    if isinstance(x, Array):
        prove(tag + ".frame.object", (x._array is snap["arr"]) and (x._array.buf is snap["buf"]))
        prove(tag + ".frame.unit", x._unit.sid == snap["unit"].sid)
        idx = skolem_index(snap["shape"], "f")
        prove(tag + ".frame.values", _eqv(x._array.elem(idx), snap["elem"](idx)))
        prove(tag + ".frame.name", x.name == snap["name"])
    elif isinstance(x, snp.ndarray):
        idx = skolem_index(snap["shape"], "f")
        prove(tag + ".frame.values", _eqv(x.elem(idx), snap["elem"](idx)))
    elif isinstance(x, spint.Quantity):
        prove(tag + ".frame.unit", x.units.sid == snap["unit"].sid)
        if snap["elem"] is not None:
            idx = skolem_index(x.magnitude.shape, "f")
            prove(tag + ".frame.values", _eqv(x.magnitude.elem(idx), snap["elem"](idx)))
        else:
            prove(tag + ".frame.values", x.magnitude is snap["mag"])


def _eqv(a, b):
    if a is b:
        return True
    return a == b


def same_unit_quantity(u, v):
    """units denote the same scale and dimension (spelling may differ)"""
    return SV(z3.And(u.scale.t == v.scale.t, u.same_dim(v).t), "b")


def equiv_arrays(tag, got, want):
    """real result == specified result: class, dtype, shape, values at an arbitrary index, unit"""
    Array = O().Array
    prove(tag + ".is_array", isinstance(got, Array) and isinstance(want, Array))
    if not (isinstance(got, Array) and isinstance(want, Array)):
        return
    ga, wa = got._array, want._array
    prove(tag + ".ndim", ga.ndim == wa.ndim)
    if ga.ndim != wa.ndim:
        return
    prove(tag + ".shape", SV(snp._shape_eq_term(ga.shape, wa.shape), "b"))
    prove(tag + ".dtype", ga.dtype.idx() == wa.dtype.idx())
    idx = skolem_index(wa.shape, "r")
    prove(tag + ".values", _eqv(ga.elem(idx), wa.elem(idx)))
    prove(tag + ".unit", same_unit_quantity(got.unit, want.unit))


# --------------------------------------------------------------------------------------
# Array._wrap_numpy: real body against the spec, for one catalogue entry and operand pattern
# --------------------------------------------------------------------------------------
def clone(x):
    Array = O().Array
    if isinstance(x, Array):
        c = Array(values=x._array.copy(), unit=x._unit)
        c.name = x.name
        return c
    if isinstance(x, snp.ndarray):
        return x.copy()
    if isinstance(x, spint.Quantity):
        m = x.magnitude
        return spint.Quantity(m.copy() if isinstance(m, snp.ndarray) else m, x.units)
    if isinstance(x, (list, tuple)):
        return type(x)(clone(e) for e in x)
    return x


def build_operands(spec, dims):
    """spec: list of (kind, shape, unit tag) ; equal tags share one symbolic unit; kind 'const:<v>'
    is a literal; kind 'seq' wraps the following operands into a list (concatenate)"""
    units = {}
    ops = []
    for j, (kind, shape, tag) in enumerate(spec):
        name = "abcd"[j]
        if kind.startswith("const:"):
            v = float(kind[6:])
            ops.append(int(v) if v == int(v) and "." not in kind[6:] else v)
            continue
        if kind.startswith("nd0:"):
            v = float(kind[4:])
            ops.append(snp.array(int(v) if v == int(v) else v))
            continue
        u = None
        if tag is not None:
            if tag not in units:
                fam = None
                if tag.startswith("compat:"):
                    fam = units[tag.split(":")[1]]
                units[tag] = spint.REGISTRY.dimensionless if tag == "dimensionless" else spint.sym_unit("u" + tag.replace(":", "_"), family=fam)
            u = units[tag]
        if kind == "BoolArray":
            x = mk_array(name, dims, shape, unit=spint.REGISTRY.dimensionless, dt=snp.dtype("bool"), kind="b")
        elif kind == "boolnd":
            x = mk_ndarray(name, dims, shape, dt=snp.dtype("bool"), kind="b")
        else:
            x = mk_operand(kind, name, dims, shape, unit=u)
        ops.append(x)
    return ops


def check_wrap_numpy(fname, spec, kwargs=None, seq=False, out=False):
    """run the real Array._wrap_numpy and its spec on identical (cloned) operands; compare"""
    Array = O().Array
    f = getattr(snp, fname)
    dims = Dims()
    ops = build_operands(spec, dims)
    clones = [clone(x) for x in ops]
    self_ = next(o for o in ops if isinstance(o, Array))
    cself = next(o for o in clones if isinstance(o, Array))
    kw, ckw = dict(kwargs or {}), dict(kwargs or {})
    target = None
    if out == "third":
        # a separate output Array carrying another unit: it receives the values AND the result's unit
        target = mk_array("outarr", dims, "1d", unit=spint.sym_unit("uout"), dt=snp.dtype("float64"))
        kw["out"] = (target,)
        ckw["out"] = (clone(target),)
    elif out:
        kw["out"] = (self_,)
        ckw["out"] = (cself,)
    args, cargs = (ops, clones) if not seq else ([ops], [clones])
    excs = (TypeError, ValueError, spint.DimensionalityError)
    try:
        want, want_exc = wrap_numpy_spec(cself, f, *cargs, **ckw), None
    except excs as e:
        want, want_exc = None, e
    try:
        got, got_exc = self_._wrap_numpy(f, *args, **kw), None
    except excs as e:
        got, got_exc = None, e
    if want_exc is not None or got_exc is not None:
        prove("raises_as_spec", type(want_exc) is type(got_exc))
        return None, ops
    if out == "third":
        prove("out.same_object", got is target)
    elif out:
        prove("out.same_object", got is self_)
    else:
        prove("fresh_object", all(got is not o for o in ops))
    equiv_arrays("spec", got, want)
    return got, ops


def ratio(u, v):
    """SCALE(u)/SCALE(v) as the code's conversion computes it: exactly 1 on paths where the two units
    are spelled identically (Array.to returns self there), the quotient of the scales otherwise"""
    if u is v or bool(u == v):
        return 1
    return u.scale / v.scale


def inbounds_prover(prefix="inbounds"):
    """BOUNDS_HOOK that turns every integer index into an obligation at the point of access"""
    count = {}

    def hook(k, n):
        p = core.cur()
        c = count.get(id(p), 0)
        count[id(p)] = c + 1
        if isinstance(k, SV) or isinstance(n, SV):
            prove("%s[%d]" % (prefix, c), (SV.lift(k) >= 0) & (SV.lift(k) < SV.lift(n)))
        elif not (0 <= k < n):
            prove("%s[%d]" % (prefix, c), False)

    return hook
