"""Independent transcription of RAMSES hilbert3d (amr/hilbert.f90), written from the Fortran source layout
(state_diagram(0:7, 0:1, 0:11) filled column-major), used as the reference curve for C04."""
_STATE = [
    1, 2, 3, 2, 4, 5, 3, 5, 0, 1, 3, 2, 7, 6, 4, 5,
    2, 6, 0, 7, 8, 8, 0, 7, 0, 7, 1, 6, 3, 4, 2, 5,
    0, 9, 10, 9, 1, 1, 11, 11, 0, 3, 7, 4, 1, 2, 6, 5,
    6, 0, 6, 11, 9, 0, 9, 8, 2, 3, 1, 0, 5, 4, 6, 7,
    11, 11, 0, 7, 5, 9, 0, 7, 4, 3, 5, 2, 7, 0, 6, 1,
    4, 4, 8, 8, 0, 6, 10, 6, 6, 5, 1, 2, 7, 4, 0, 3,
    5, 7, 5, 3, 1, 1, 11, 11, 4, 7, 3, 0, 5, 6, 2, 1,
    6, 1, 6, 10, 9, 4, 9, 10, 6, 7, 5, 4, 1, 0, 2, 3,
    10, 3, 1, 1, 10, 3, 5, 9, 2, 5, 3, 4, 1, 6, 0, 7,
    4, 4, 8, 8, 2, 7, 2, 3, 2, 1, 5, 6, 3, 0, 4, 7,
    7, 2, 11, 2, 7, 5, 8, 5, 4, 5, 7, 6, 3, 2, 0, 1,
    10, 3, 2, 6, 10, 3, 4, 4, 6, 1, 7, 0, 5, 2, 4, 3,
]


def _sd(sdigit, which, state):
    # Fortran column-major: index = sdigit + 8 * (which + 2 * state)
    return _STATE[sdigit + 8 * (which + 2 * state)]


def hilbert3d(x, y, z, bit_length):
    state = 0
    key = 0
    for i in range(bit_length - 1, -1, -1):
        b2, b1, b0 = (x >> i) & 1, (y >> i) & 1, (z >> i) & 1
        sdigit = b2 * 4 + b1 * 2 + b0
        nstate = _sd(sdigit, 0, state)
        hdigit = _sd(sdigit, 1, state)
        key = key * 8 + hdigit
        state = nstate
    return key
