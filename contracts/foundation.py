"""Contracts every group-A-based property relies on (Array.to, _binary_op, Array._wrap_numpy).
A property that installs their call-site summaries also discharges them in its own run, so that a
change inside one of these callees is reported by every property whose proof depends on it."""
from pyvc.api import unit

from . import arrays as A
from . import native_arrays as N


def register(prop, wrap_funcs=("add", "subtract", "multiply", "divide", "less", "less_equal", "greater", "greater_equal",
                               "equal", "not_equal")):
    from . import c02

    @unit(prop, "dep.Array.to", targets=[c02.T_TO], cases=[{"label": s, "shape": s} for s in A.SHAPES], replay=N.replay_to,
          inline=["Units.__call__", "Array.__init__"])
    def _to(case):
        c02.check_to(case["shape"])

    @unit(prop, "dep._binary_op", targets=[c02.T_BO], uses=["Array.to"], cases=c02._BO_CASES, replay=N.replay_binary_op)
    def _bo(case):
        c02.bo(case)

    cases = []
    for f in wrap_funcs:
        tagb = "a" if f in A.SAME + A.PREDICATE else "b"
        for sa, sb in (("1d", "1d"), ("0d", "0d"), ("2d", "1d"), ("1d", "0d")):
            cases.append({"label": "%s,%s-%s" % (f, sa, sb), "f": f, "spec": [("Array", sa, "a"), ("Array", sb, tagb)]})

    @unit(prop, "dep._wrap_numpy", targets=[c02.T_WN], cases=cases, replay=N.replay_wrap_numpy)
    def _wn(case):
        A.check_wrap_numpy(case["f"], case["spec"])
