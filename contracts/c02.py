"""C02 — Array arithmetic equals arithmetic on the physical quantities it represents."""
import z3

from pyvc import core
from pyvc.api import O, bounded, unit
from pyvc.core import SV, prove
from pyvc.stubs import np as snp
from pyvc.stubs import pint as spint

from . import arrays as A
from . import native_arrays as N

LEVEL = "proof"
EXPLANATION = ("Array dunders, _binary_op, Array.to and Array._wrap_numpy of the working tree are executed "
               "symbolically (all dtypes, shapes of rank 0-2 with symbolic extents, arbitrary units) and every "
               "postcondition over phys()/dim() is discharged by z3; callers are checked against callee contracts.")
TRUSTED = ["numpy ufunc element-wise semantics, result-dtype rule, NEP-13 dispatch (pyvc/stubs/np.py)",
           "pint unit algebra and Quantity.to (pyvc/stubs/pint.py)"]
ASSUMPTIONS = ["a**k is instantiated for k in {2, 3, -1, 0.5, 0}; other exponents are covered by the bounded check only",
               "operand shapes: rank 0, 1, 2 with symbolic extents and the broadcast pairs listed in contracts/arrays.py"]

ARR = A.ARRAY
T_WN = ARR + ":Array._wrap_numpy"
T_BO = ARR + ":_binary_op"
T_TO = ARR + ":Array.to"

ARITH = ["add", "subtract", "multiply", "divide", "power", "negative", "reciprocal"]


# --------------------------------------------------------------------------------------
# Array._wrap_numpy against its spec (the function every operator funnels through)
# --------------------------------------------------------------------------------------
_WN_CASES = []
for _f in ARITH:
    if _f in ("negative", "reciprocal"):
        for _sh in A.SHAPES:
            _WN_CASES.append({"label": "%s,%s" % (_f, _sh), "f": _f, "kinds": ("Array",), "shapes": (_sh,)})
    elif _f == "power":
        for _k in (2, 3, -1, 0.5, 0):
            _WN_CASES.append({"label": "power,k=%s" % _k, "f": _f, "kinds": ("Array", "number"), "shapes": ("1d", "0d"),
                              "k": _k})
    else:
        for _sa, _sb in A.PAIR_SHAPES:
            _WN_CASES.append({"label": "%s,Array-Array,%s-%s" % (_f, _sa, _sb), "f": _f, "kinds": ("Array", "Array"),
                              "shapes": (_sa, _sb)})


@unit("C02", "_wrap_numpy", targets=[T_WN], cases=_WN_CASES, replay=N.replay_wrap_numpy,
      inline=["Array._maybe_array", "Array._extract_*", "Array._maybe_unit", "Array.__init__", "Array.unit"])
def wn(case):
    f = case["f"]
    if f == "power":
        spec = [("Array", "1d", "a"), ("const:%s" % case["k"], "0d", None)]
    elif len(case["kinds"]) == 1:
        spec = [("Array", case["shapes"][0], "a")]
    else:
        # the operators always hand _wrap_numpy an rhs already converted to the lhs unit for
        # add/subtract; multiply/divide take arbitrary unit pairs
        tagb = "a" if f in A.SAME else "b"
        spec = [("Array", case["shapes"][0], "a"), ("Array", case["shapes"][1], tagb)]
    A.check_wrap_numpy(f, spec)


# --------------------------------------------------------------------------------------
# _binary_op against its spec
# --------------------------------------------------------------------------------------
class Recorder:
    """an arbitrary `op`: records what it is called with and returns an opaque token"""

    def __init__(self):
        self.calls = []

    def __call__(self, lhs, rhs, **kw):
        self.calls.append((lhs, rhs, kw))
        return ("token", len(self.calls))


_BO_CASES = [{"label": "%s,%s" % ("strict" if s else "nonstrict", k), "strict": s, "kind": k}
             for s in (True, False) for k in ("Array", "number_float", "number_int", "ndarray", "Quantity", "QuantityArr",
                                              "Vector")]


@unit("C02", "_binary_op", targets=[T_BO], uses=["Array.to"], cases=_BO_CASES, replay=N.replay_binary_op,
      inline=["Array.__init__"])
def bo(case):
    arr = O().core.array
    Array = O().Array
    dims = A.Dims()
    lhs = A.mk_array("a", dims, "1d")
    if case["kind"] == "Vector":
        rhs = O().Vector(A.mk_array("bx", dims, "1d"))
    else:
        rhs = A.mk_operand(case["kind"], "b", dims, "1d")
    s_l, s_r = A.snapshot(lhs), A.snapshot(rhs)
    rec1, rec2 = Recorder(), Recorder()
    extra = {"out": lhs}
    exc1 = exc2 = None
    try:
        r1 = arr._binary_op(rec1, lhs, rhs, strict=case["strict"], **extra)
    except spint.DimensionalityError as e:
        exc1 = e
    try:
        r2 = A.binary_op_spec(rec2, lhs, rhs, strict=case["strict"], **extra)
    except spint.DimensionalityError as e:
        exc2 = e
    prove("raises_as_spec", (exc1 is None) == (exc2 is None))
    if exc1 is not None or exc2 is not None:
        # strict conversion failed: operands untouched
        A.unchanged("raise.lhs", s_l)
        A.unchanged("raise.rhs", s_r)
        return
    prove("result_as_spec", (r1 is NotImplemented) == (r2 is NotImplemented))
    if r1 is NotImplemented or r2 is NotImplemented:
        return
    prove("op_called_once", len(rec1.calls) == 1 and len(rec2.calls) == 1)
    (l1, x1, k1), (l2, x2, k2) = rec1.calls[0], rec2.calls[0]
    prove("lhs_passed", l1 is lhs)
    prove("kwargs_passed", k1 == extra)
    A.equiv_arrays("rhs", x1, x2)
    prove("rhs.in_lhs_unit_or_incompatible",
          SV(z3.Or((x1.unit == lhs.unit).t if isinstance(x1.unit == lhs.unit, SV) else z3.BoolVal(bool(x1.unit == lhs.unit)),
                   z3.Not(x1.unit.same_dim(lhs.unit).t)), "b"))
    A.unchanged("lhs", s_l)
    A.unchanged("rhs", s_r)


# --------------------------------------------------------------------------------------
# Array.to against its spec and against the statement (shared with C08)
# --------------------------------------------------------------------------------------
def check_to(shape):
    Array = O().Array
    dims = A.Dims()
    a = A.mk_array("a", dims, shape)
    target = spint.sym_unit("ut")
    snap = A.snapshot(a)
    try:
        r = a.to(target)
    except spint.DimensionalityError:
        prove("raises_only_if_dim_differs", ~a.unit.same_dim(target))
        A.unchanged("raise.self", snap)
        return
    prove("no_raise_implies_same_dim", a.unit.same_dim(target))
    prove("result_is_array", isinstance(r, Array))
    prove("unit_is_requested", r.unit == target)
    prove("shape", SV(snp._shape_eq_term(r.shape, a.shape), "b"))
    idx = A.skolem_index(a.shape)
    prove("same_quantity", r._array.elem(idx) * r.unit.scale == snap["elem"](idx) * snap["unit"].scale)
    prove("exact_ratio", r._array.elem(idx) * target.scale == snap["elem"](idx) * snap["unit"].scale)
    A.unchanged("self", snap)
    core.cover("converted")


@unit("C02", "Array.to", targets=[T_TO], cases=[{"label": s, "shape": s} for s in A.SHAPES], replay=N.replay_to,
      inline=["Units.__call__", "Array.__init__"])
def to_unit(case):
    check_to(case["shape"])


# --------------------------------------------------------------------------------------
# the operators, checked against the statement with callee contracts installed
# --------------------------------------------------------------------------------------
OPS = {
    "__add__": ("add", lambda a, b: a + b),
    "__sub__": ("sub", lambda a, b: a - b),
    "__mul__": ("mul", lambda a, b: a * b),
    "__truediv__": ("div", lambda a, b: a / b),
    "__rmul__": ("rmul", lambda a, b: b * a),
    "__rtruediv__": ("rdiv", lambda a, b: b / a),
}
KINDS = ["Array", "number_float", "number_int", "ndarray", "Quantity", "QuantityArr"]

_OP_CASES = []
for _op in OPS:
    for _k in KINDS:
        if _op in ("__rmul__", "__rtruediv__") and _k in ("Array", "Quantity", "QuantityArr", "ndarray"):
            # k*a / k/a with k an Array uses k's own __mul__; Quantity*Array and ndarray*Array are
            # decided by pint / numpy before Array.__rmul__ is reached
            continue
        pairs = A.PAIR_SHAPES if _k in ("Array", "ndarray", "QuantityArr") else [("1d", "0d"), ("0d", "0d"), ("2d", "0d")]
        for _sa, _sb in pairs:
            _OP_CASES.append({"label": "%s,%s,%s-%s" % (_op, _k, _sa, _sb), "op": _op, "kind": _k, "shapes": (_sa, _sb)})


def dim_terms(u):
    return [d.t for d in u.dims]


@unit("C02", "Array", targets=[ARR + ":Array.__add__", ARR + ":Array.__sub__", ARR + ":Array.__mul__",
                               ARR + ":Array.__truediv__", ARR + ":Array.__rmul__", ARR + ":Array.__rtruediv__",
                               "osyris.core.base:Base.__array_ufunc__"],
      uses=["_binary_op", "Array.to", "Array._wrap_numpy"], cases=_OP_CASES, replay=N.replay_operator,
      inline=["Base.__array_ufunc__", "Array.__init__"])
def operators(case):
    Array = O().Array
    opname = case["op"]
    dims = A.Dims()
    a = A.mk_array("a", dims, case["shapes"][0])
    b = A.mk_operand(case["kind"], "b", dims, case["shapes"][1])
    sa, sb = A.snapshot(a), A.snapshot(b)
    ua, ub = a.unit, A.unit_of(b)
    meth = getattr(a, opname)
    try:
        r = meth(b)
    except spint.DimensionalityError:
        prove("raises_only_for_additive_dim_mismatch", opname in ("__add__", "__sub__"))
        prove("raises_only_if_dim_differs", ~ua.same_dim(ub))
        A.unchanged("raise.a", sa)
        A.unchanged("raise.b", sb)
        core.cover("raised")
        return
    except ValueError:
        # numpy refuses non-broadcastable shapes: not part of the statement
        return
    prove("result_is_array", isinstance(r, Array))
    if opname in ("__add__", "__sub__"):
        prove("no_raise_implies_same_dim", ua.same_dim(ub))
    full = r.shape
    idx = A.skolem_index(full)
    pa = sa["elem"](snp._bc_index(idx, sa["shape"], full)) * ua.scale
    braw = A.raw(b)
    if isinstance(braw, snp.ndarray):
        belem = (sb["elem"] if sb.get("elem") is not None else braw.snapshot())(snp._bc_index(idx, braw.shape, full))
    else:
        belem = braw
    pb = belem * ub.scale
    pr = r._array.elem(idx) * r.unit.scale
    da, db, dr = dim_terms(ua), dim_terms(ub), dim_terms(r.unit)
    if opname == "__add__":
        prove("phys", pr == pa + pb)
        prove("dim", SV(z3.And(*[x == y for x, y in zip(dr, da)]), "b"))
    elif opname == "__sub__":
        prove("phys", pr == pa - pb)
        prove("dim", SV(z3.And(*[x == y for x, y in zip(dr, da)]), "b"))
    elif opname in ("__mul__", "__rmul__"):
        prove("phys", pr == pa * pb)
        prove("dim", SV(z3.And(*[x == y + w for x, y, w in zip(dr, da, db)]), "b"))
    elif opname == "__truediv__":
        core.assume(pb != 0)
        prove("phys", pr * pb == pa)
        prove("dim", SV(z3.And(*[x == y - w for x, y, w in zip(dr, da, db)]), "b"))
    elif opname == "__rtruediv__":
        # k/a is computed as reciprocal(a/k); for k == 0 that relies on IEEE 1/inf == 0, which the
        # real-arithmetic model cannot express: excluded here, covered by the bounded check
        core.assume(pa != 0)
        core.assume(pb != 0)
        prove("phys", pr * pa == pb)
        prove("dim", SV(z3.And(*[x == w - y for x, y, w in zip(dr, da, db)]), "b"))
    prove("fresh_result", r is not a and r._array.buf is not a._array.buf)
    A.unchanged("a", sa)
    A.unchanged("b", sb)
    core.cover("computed")


_UN_CASES = [{"label": "__neg__,%s" % s, "op": "neg", "shape": s} for s in A.SHAPES] + \
            [{"label": "__pow__,k=%s" % k, "op": "pow", "k": k, "shape": "1d"} for k in (2, 3, -1, 0.5, 0)]


@unit("C02", "Array", targets=[ARR + ":Array.__neg__", ARR + ":Array.__pow__"], uses=["Array._wrap_numpy"],
      cases=_UN_CASES, replay=N.replay_operator, inline=["Base.__array_ufunc__"])
def unary(case):
    dims = A.Dims()
    a = A.mk_array("a", dims, case["shape"])
    sa = A.snapshot(a)
    if case["op"] == "neg":
        r = -a
    else:
        r = a ** case["k"]
    idx = A.skolem_index(r.shape)
    v = sa["elem"](idx)
    s = a.unit.scale
    pr = r._array.elem(idx) * r.unit.scale
    da, dr = dim_terms(a.unit), dim_terms(r.unit)
    if case["op"] == "neg":
        prove("phys", pr == -(v * s))
        prove("dim", SV(z3.And(*[x == y for x, y in zip(dr, da)]), "b"))
    else:
        k = case["k"]
        pa = v * s
        if k == 2:
            prove("phys", pr == pa * pa)
        elif k == 3:
            prove("phys", pr == pa * pa * pa)
        elif k == -1:
            core.assume(v != 0)
            prove("phys", pr * pa == 1)
        elif k == 0:
            prove("phys", pr == 1)
        elif k == 0.5:
            core.assume(v >= 0)
            prove("phys.nonneg", pr >= 0)
            prove("phys", pr * pr == pa)
        import fractions

        kk = core.rv(fractions.Fraction(k))
        prove("dim", SV(z3.And(*[x == y * kk for x, y in zip(dr, da)]), "b"))
    A.unchanged("a", sa)


@bounded("C02", "native", "operators x operand kinds x {float64,float32,int64,int32} x 16 unit pairs (same, compatible, scaled "
                         "dimensionless, incompatible incl. m vs m**2) x random broadcast shapes; pint as oracle")
def native(tier, seed):
    from pyvc import nativerun

    return nativerun.run("contracts.native_arrays:sweep_c02", tier, seed)
