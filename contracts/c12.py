"""C12 — A level-limited load returns the tree truncated at that level, without holes."""
import os

import z3

from pyvc import core
from pyvc.api import M, O, bounded, unit
from pyvc.core import SV, prove
from pyvc.stubs import misc as smisc
from pyvc.stubs import np as snp
from pyvc.stubs import pint as spint

from . import c01
from . import io_common as G
from . import io_load as IL
from . import native_io as NIO

LEVEL = "other"
EXPLANATION = ("find_max_amr_level is executed on every level predicate of a family (l<=k, l<k, a<l<b, l==k, odd levels) for "
               "levelmax 1..6 (finite, complete for that bound).  The leaf rule of AmrReader.read_variables is verified for "
               "an arbitrary cap lmax <= levelmax (cells of level lmax are leaves whatever their son index).  The real "
               "Loader.load is executed on the file-system model with select={'mesh': {'level': f}}: the cap is applied "
               "(meta['lmax'] is the highest accepted level), no block above the cap is read or skipped-into, cells of "
               "the cap level are returned with their stored values, rows == cells of the truncated tree that satisfy f. "
               "Lemma cover: refining a cell replaces it by 2^ndim children of half size, which conserves the covered "
               "volume (the tiling argument is an induction over depth with this step).")
TRUSTED = c01.TRUSTED
ASSUMPTIONS = ["loop structure of load bounded as in C01", "the covering lemma is the per-refinement volume identity; the "
               "induction over the tree depth is the standard one and not mechanised"]

IOU = "osyris.io.utils"
AMR = "osyris.io.amr"

PREDS = {
    "le": lambda k: (lambda l: l <= k),
    "lt": lambda k: (lambda l: l < k),
    "eq": lambda k: (lambda l: l == k),
    "window": lambda k: (lambda l: (l > k - 2) & (l < k + 1)),
}


@unit("C12", "find_max_amr_level", targets=[IOU + ":find_max_amr_level"], cases=[{"label": "levelmax<=6"}], replay=NIO.replay_level)
def find_max(case):
    utils = M(IOU)
    n = 0
    for levelmax in range(1, 7):
        for name, mk in PREDS.items():
            for k in range(1, levelmax + 2):
                f = mk(k)
                accepted = [l for l in range(1, levelmax + 1) if bool(f(l))]
                if not accepted:
                    continue
                n += 1
                got = utils.find_max_amr_level(levelmax=levelmax, select={"level": f})
                got = core.concretize(got) if isinstance(got, SV) else (got.elem(()) if isinstance(got, snp.ndarray) else got)
                prove("max_accepted[levelmax=%d,%s,%d]" % (levelmax, name, k), got == max(accepted))
    prove("enumerated", n > 50)


@unit("C12", "AmrReader.block", targets=[AMR + ":AmrReader.read_variables"], cases=c01._BLK, replay=NIO.replay_level, max_paths=64)
def leaf_rule(case):
    """leaf mask for an arbitrary cap: not (son > 0 and level < lmax); cells of level lmax are leaves"""
    c01._amr_block(case, full_load=False)


_LSEL = [{"label": "le1", "f": lambda l: l <= 1, "lmax": 1}, {"label": "lt2", "f": lambda l: l < 2, "lmax": 1},
         {"label": "le2", "f": lambda l: l <= 2, "lmax": 2}, {"label": "eq1", "f": lambda l: l == 1, "lmax": 1}]


@unit("C12", "Loader.load", targets=["osyris.io.loader:Loader.load", IOU + ":find_max_amr_level", AMR + ":AmrReader.read_variables",
                                     "osyris.io.reader:Reader.make_conditions", AMR + ":AmrReader.make_conditions"],
      uses=["_binary_op", "Array.to", "Array._wrap_numpy"],
      cases=[{"label": "%s,%s" % (s["label"], lay), "sel": s, "layout": lay} for s in _LSEL
             for lay in (("1d,1cpu,2lev",) if os.environ.get("PYVC_TIER") != "thorough" else ("1d,1cpu,2lev", "2d,1cpu,2lev", "1d,2cpu,2lev,ghosts"))],
      replay=NIO.replay_level, max_paths=256)
def level_load(case):
    lay = IL.Layout(label=case["layout"], **c01.LAYOUTS[case["layout"]]).setup()
    sel = case["sel"]
    try:
        ld, meta, units, lib, out = IL.run_load(lay, select={"mesh": {"level": sel["f"]}})
    finally:
        lay.fs.uninstall()
    lmax = sel["lmax"]
    prove("lmax_applied", core.concretize(meta["lmax"]) == lmax if isinstance(meta["lmax"], SV) else meta["lmax"] == lmax)
    pieces, masks = lay.expected(lib, meta, lmax=lmax, actual_masks=lay.masks_seen, level_pred=sel["f"])
    # where the AMR reader stopped: after the blocks of levels 1..lmax of the last file, not further
    w_end = lay.amr_end_after_levels(lay.ncpu, lmax)
    prove("levels_bounded", G.pos(ld.readers["amr"].offsets) == w_end)
    total = IL.compare_mesh("truncated_tree", lay, out, pieces, lib, lay.ndim)
    prove("meta.ncells", meta["ncells"] == total)


@unit("C12", "lemma.cover", targets=[], cases=[{"label": "ndim=%d" % d, "ndim": d} for d in (1, 2, 3)], replay=None)
def cover(case):
    """a refined cell of size dx is replaced by 2^ndim cells of size dx/2 whose centres are offset by
    +-dx/4 per axis: they have the parent's volume and lie inside it without overlapping"""
    ndim = case["ndim"]
    dx = core.fresh_real("dx")
    core.assume(dx > 0)
    vol = dx
    child = dx / 2
    for _ in range(ndim - 1):
        vol = vol * dx
    cv = child
    for _ in range(ndim - 1):
        cv = cv * child
    prove("volume_conserved", cv * (2 ** ndim) == vol)
    c = core.fresh_real("c")
    for s1 in (-1, 1):
        lo, hi = c + s1 * dx / 4 - child / 2, c + s1 * dx / 4 + child / 2
        prove("child_inside_parent[%d]" % s1, (lo >= c - dx / 2) & (hi <= c + dx / 2))
    prove("children_interior_disjoint", (c - dx / 4 + child / 2) <= (c + dx / 4 - child / 2))


@bounded("C12", "native", "synthesized outputs (levelmax 3-4, ndim 1-3, ncpu 1-3): level predicates l<=k, l<k, a<l<b alone and with a value "
                          "predicate; rows == truncated tree; covered volume == domain volume; lmax in meta")
def native(tier, seed):
    from pyvc import nativerun

    return nativerun.run("contracts.native_io:sweep_c12", tier, seed, timeout=3000)


from . import foundation  # noqa: E402

foundation.register("C12", wrap_funcs=("less", "less_equal", "equal"))
