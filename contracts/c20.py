"""C20 — Datagroup and Dataset behave as dictionaries; equality is by content."""
import z3

from pyvc import core
from pyvc.api import O, bounded, unit
from pyvc.core import SV, prove
from pyvc.stubs import np as snp
from pyvc.stubs import pint as spint

from . import arrays as A
from . import native_containers as NC
from .c06 import CONFIGS, dg_ok, leaves, mk_group, snap_group

LEVEL = "other"
EXPLANATION = ("Each dictionary method of Datagroup and Dataset is executed symbolically next to a plain dict that "
               "receives the same operation (refinement: keys(), order, identity of the stored objects, return values, "
               "KeyError behaviour, renaming, type/shape gates); histories follow by induction over the per-method "
               "contracts.  Datagroup.__eq__ is proved equivalent to 'same keys and every corresponding member "
               "element-wise equal after unit conversion' for symbolic lengths/values/units (np.all facts "
               "instantiated at a Skolem index / witness).  Key alphabets and member counts are instantiated "
               "(0-3 members), hence level 'other'; native random histories against a real dict as stand-in.")
TRUSTED = ["CPython dict (executed, not modelled)", "numpy np.all: false iff some element is false (pyvc/stubs/np.py _quant)"]
ASSUMPTIONS = ["member count per container instantiated for 0..3; keys are concrete strings from a small alphabet"]

DG = "osyris.core.datagroup"
DS = "osyris.core.dataset"

DICT_OPS = ["getitem", "getitem_missing", "setitem_new", "setitem_replace", "delitem", "delitem_missing", "pop",
            "pop_missing", "get_hit", "get_miss", "update_dict", "update_kwargs", "clear", "copy", "iter_len_contains",
            "keys_items_values"]


def run_dict_op(op, obj, ref, new_value, first, fresh_key="zz"):
    """apply `op` to the osyris container and to the reference dict; returns (out_obj, out_ref)"""
    def both(f):
        outs = []
        for d in (obj, ref):
            try:
                outs.append(("ok", f(d)))
            except KeyError as e:
                outs.append(("KeyError", None))
        return outs

    if op == "getitem":
        return both(lambda d: d[first])
    if op == "getitem_missing":
        return both(lambda d: d[fresh_key])
    if op == "setitem_new":
        return both(lambda d: d.__setitem__(fresh_key, new_value))
    if op == "setitem_replace":
        return both(lambda d: d.__setitem__(first, new_value))
    if op == "delitem":
        return both(lambda d: d.__delitem__(first))
    if op == "delitem_missing":
        return both(lambda d: d.__delitem__(fresh_key))
    if op == "pop":
        return both(lambda d: d.pop(first))
    if op == "pop_missing":
        return both(lambda d: d.pop(fresh_key))
    if op == "get_hit":
        return both(lambda d: d.get(first, None))
    if op == "get_miss":
        return both(lambda d: d.get(fresh_key, "default"))
    if op == "update_dict":
        return both(lambda d: d.update({fresh_key: new_value}))
    if op == "update_kwargs":
        return both(lambda d: d.update(**{fresh_key: new_value}))
    if op == "clear":
        return both(lambda d: d.clear())
    if op == "copy":
        return both(lambda d: d.copy())
    if op == "iter_len_contains":
        return both(lambda d: (list(iter(d)), len(d), first in d, fresh_key in d))
    if op == "keys_items_values":
        return both(lambda d: (list(d.keys()), [k for k, _ in d.items()], [id(v) for v in d.values()],
                               [id(v) for _, v in d.items()]))
    raise ValueError(op)


def compare_with_dict(op, obj, ref, outs):
    (s1, r1), (s2, r2) = outs
    prove("same_exception_behaviour", s1 == s2)
    prove("keys_and_order", list(obj.keys()) == list(ref.keys()))
    for k in ref:
        prove("value_identity[%s]" % k, obj[k] is ref[k])
        prove("renamed_to_key[%s]" % k, obj[k].name == k)
    if s1 == "ok" and s2 == "ok":
        if op in ("getitem", "pop", "get_hit"):
            prove("returned_object", r1 is r2)
        elif op == "get_miss":
            prove("returned_default", r1 == "default" and r2 == "default")
        elif op == "copy":
            prove("copy.fresh", r1 is not obj)
            prove("copy.keys", list(r1.keys()) == list(r2.keys()))
            for k in r2:
                prove("copy.shares[%s]" % k, r1[k] is r2[k])
        elif op in ("iter_len_contains", "keys_items_values"):
            prove("observations_equal", r1 == r2)


_DG_CASES = [{"label": "%s,%s" % (cfg, op), "cfg": cfg, "op": op} for cfg in ("empty", "a", "av", "abv") for op in DICT_OPS
             if not (cfg == "empty" and op in ("getitem", "setitem_replace", "delitem", "pop", "get_hit"))]


@unit("C20", "Datagroup.dict", targets=[DG + ":Datagroup." + m for m in (
        "__iter__", "__len__", "__getitem__", "__setitem__", "__delitem__", "keys", "items", "values", "get", "pop",
        "update", "clear", "copy", "__init__")], cases=_DG_CASES, replay=NC.replay_dict)
def datagroup_dict(case):
    dims = A.Dims()
    core.assume(dims.n >= 1)
    g, members = mk_group(CONFIGS[case["cfg"]], dims)
    ref = dict(members)
    new_value = A.mk_array("nv", dims, "1d")
    first = CONFIGS[case["cfg"]][0] if CONFIGS[case["cfg"]] else "zz"
    outs = run_dict_op(case["op"], g, ref, new_value, first)
    compare_with_dict(case["op"], g, ref, outs)
    dg_ok("post", g)


_DS_CASES = [{"label": "%s,%s" % (n, op), "n": n, "op": op} for n in (0, 1, 2) for op in DICT_OPS
             if not (n == 0 and op in ("getitem", "setitem_replace", "delitem", "pop", "get_hit"))]


@unit("C20", "Dataset.dict", targets=[DS + ":Dataset." + m for m in (
        "__iter__", "__len__", "__getitem__", "__setitem__", "__delitem__", "keys", "items", "values", "get", "pop",
        "update", "clear", "copy", "__init__")], cases=_DS_CASES, replay=NC.replay_dict)
def dataset_dict(case):
    osy = O()
    dims = A.Dims()
    core.assume(dims.n >= 1)
    groups = {}
    for k in ["g1", "g2"][: case["n"]]:
        g, _ = mk_group(["a"], dims)
        groups[k] = g
    ds = osy.Dataset(groups)
    ds.meta["time"] = 3.0
    ref = dict(groups)
    new_group, _ = mk_group(["a", "v"], dims)
    first = "g1" if case["n"] else "zz"
    outs = run_dict_op(case["op"], ds, ref, new_group, first)
    compare_with_dict(case["op"], ds, ref, outs)
    for k in ref:
        prove("parent[%s]" % k, ds[k].parent is ds or case["op"] == "copy")
    if case["op"] == "clear":
        prove("clear.meta_emptied", len(ds.meta) == 0)
    elif case["op"] == "copy":
        c = outs[0][1]
        prove("copy.meta_copied", c.meta == ds.meta and c.meta is not ds.meta)
    else:
        prove("meta_kept", ds.meta == {"time": 3.0})


@unit("C20", "get.falsy_values", targets=[DG + ":Datagroup.get", DS + ":Dataset.get"],
      cases=[{"label": "scalar_member"}, {"label": "empty_group"}], replay=NC.replay_dict)
def get_falsy(case):
    """a stored value that is falsy (0-d Array: len() == 0; empty Datagroup) is still returned by get()"""
    osy = O()
    if case["label"] == "scalar_member":
        g = osy.Datagroup()
        a = osy.Array(values=core.fresh_real("s"), unit=spint.sym_unit("us"))
        g["s"] = a
        prove("returned_stored", g.get("s", "default") is a)
    else:
        ds = osy.Dataset()
        e = osy.Datagroup()
        ds["e"] = e
        prove("returned_stored", ds.get("e", "default") is e)


@unit("C20", "Dataset.__setitem__.gate", targets=[DS + ":Dataset.__setitem__"],
      cases=[{"label": k} for k in ("Array", "dict", "None")], replay=NC.replay_dict)
def dataset_gate(case):
    osy = O()
    dims = A.Dims()
    ds = osy.Dataset()
    bad = {"Array": A.mk_array("a", dims, "1d"), "dict": {}, "None": None}[case["label"]]
    try:
        ds["x"] = bad
        raised = False
    except TypeError:
        raised = True
    prove("rejected", raised)
    prove("nothing_stored", len(ds) == 0)


# --------------------------------------------------------------------------------------
# equality by content
# --------------------------------------------------------------------------------------
_EQ = [{"label": "%s,%s" % (cfg, rel), "cfg": cfg, "rel": rel} for cfg in ("a", "v", "av")
       for rel in ("arbitrary", "other_units")] + [{"label": "av,reordered", "cfg": "av", "rel": "reordered"}] + [{"label": "different_keys", "cfg": "a", "rel": "keys"},
                                                    {"label": "left_keys_subset_of_right", "cfg": "a", "rel": "keys_subset"},
                                                    {"label": "right_keys_subset_of_left", "cfg": "a", "rel": "keys_superset"},
                                                    {"label": "empty_vs_nonempty", "cfg": "empty", "rel": "keys_subset"},
                                                    {"label": "empty", "cfg": "empty", "rel": "arbitrary"}]


@unit("C20", "Datagroup.__eq__", targets=[DG + ":Datagroup.__eq__"], uses=["_binary_op", "Array.to", "Array._wrap_numpy"],
      cases=_EQ, replay=NC.replay_eq, inline=["Vector._binary_op", "Base.__array_ufunc__", "Base.__array_function__"])
def eq(case):
    osy = O()
    dims = A.Dims()
    core.assume(dims.n >= 1)
    g, gm = mk_group(CONFIGS[case["cfg"]], dims)
    if case["rel"] in ("keys_subset", "keys_superset"):
        # one key set strictly contains the other (the shared members are the very same objects): never equal, either way
        h = osy.Datagroup()
        for k in g.keys():
            h[k] = g[k]
        extra = A.mk_array("extra", dims, "1d")
        h["zz_extra"] = extra
        left, right = (g, h) if case["rel"] == "keys_subset" else (h, g)
        try:
            r = left == right
        except KeyError:
            r = "KeyError"
        prove("strict_subset_of_keys_unequal", r is False)
        return
    if case["rel"] == "keys":
        h, hm = mk_group(["b"], dims)
        try:
            r = g == h
        except KeyError:
            r = "KeyError"
        prove("different_keys_unequal", r is False)
        return
    # h: same keys, arbitrary contents; units equal or merely compatible
    h = osy.Datagroup()
    hm = {}
    order = list(CONFIGS[case["cfg"]])
    if case["rel"] == "reordered":
        order = order[::-1]  # same keys inserted in another order: equality is by key, not by position
    for name in order:
        src = gm[name]
        if name.startswith("v"):
            u = src.unit if case["rel"] in ("arbitrary", "reordered") else spint.sym_unit("uh" + name, family=src.unit)
            dt = snp.sym_dtype("dth" + name)
            m = osy.Vector(*[A.mk_array("h" + name + c, dims, "1d", unit=u, dt=dt) for c in "xy"])
        else:
            u = src.unit if case["rel"] in ("arbitrary", "reordered") else spint.sym_unit("uh" + name, family=src.unit)
            m = A.mk_array("h" + name, dims, "1d", unit=u)
        h[name] = m
        hm[name] = m
    try:
        result = g == h
    except spint.DimensionalityError:
        prove("comparison_does_not_raise_for_compatible_members", False)
        return
    res = bool(result)
    # content equality, from the statement: for every member/component and every row the
    # physical quantities agree
    pairs = []
    for name in CONFIGS[case["cfg"]]:
        for (c, x), (_, y) in zip(leaves(gm[name]), leaves(hm[name])):
            pairs.append((name + c, x, y))
    if not pairs:
        prove("empty_groups_equal", res)
        return
    if res:
        for tag, x, y in pairs:
            i = core.fresh_int("i_" + tag, 0)
            core.assume(i < dims.n)
            for fact in list(snp._QFACTS.values()):
                snp.quant_elim(fact[0], (i,))
            prove("equal_implies_content_equal[%s]" % tag,
                  x._array.elem((i,)) * x.unit.scale == y._array.elem((i,)) * y.unit.scale)
        core.cover("returned_true")
    else:
        # some member differs somewhere: exhibit it through the witnesses of the np.all facts
        diffs = []
        for fact in list(snp._QFACTS.values()):
            pass
        ws = []
        for tag, x, y in pairs:
            w = core.fresh_int("w_" + tag, 0)
            core.assume(w < dims.n)
            ws.append(core.bterm(x._array.elem((w,)) * x.unit.scale != y._array.elem((w,)) * y.unit.scale))
        if pairs:
            # exists rows (one per leaf) such that at least one leaf differs there
            p = core.cur()
            r = p.check(z3.Or(*ws))
            prove("unequal_implies_some_content_differs", SV(z3.BoolVal(r != z3.unsat), "b"))
            # and the converse direction as a VC: if ALL leaves agree on ALL rows the result is True
            allsame = []
            for tag, x, y in pairs:
                j = z3.Int("jall_" + tag)
                xe = core.term(x._array.elem((SV(j, "i"),)) * x.unit.scale)
                ye = core.term(y._array.elem((SV(j, "i"),)) * y.unit.scale)
                allsame.append(z3.ForAll([j], z3.Implies(z3.And(j >= 0, j < core.term(dims.n)), xe == ye)))
            prove("content_equal_implies_equal", SV(z3.Not(z3.And(*allsame)), "b"))
        else:
            prove("empty_groups_equal", False)
        core.cover("returned_false")


@bounded("C20", "native", "random dict-operation histories over a 5-key alphabet against a real dict (quick 300, "
                          "thorough 5000) + equality matrix (identical / partly / wholly different / keys / units)")
def native(tier, seed):
    from pyvc import nativerun

    return nativerun.run("contracts.native_containers:sweep_c20", tier, seed)


from . import foundation  # noqa: E402

foundation.register("C20")
