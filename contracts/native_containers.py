"""Native oracles for the containers (C06, C20, C16): model-based random histories against a
plain-Python model (dict of name -> (kind, unit, list of rows))."""
import random


def _mk(np, osy, kind, n, rng, unit):
    if kind == "A":
        vals = np.array([rng.randint(-50, 50) for _ in range(n)], dtype=rng.choice(["float64", "float32", "int32", "int64"]))
        return osy.Array(values=vals, unit=unit), [(float(v),) for v in vals]
    xs = np.array([float(rng.randint(-50, 50)) for _ in range(n)])
    ys = np.array([float(rng.randint(-50, 50)) for _ in range(n)])
    return osy.Vector(osy.Array(values=xs, unit=unit), osy.Array(values=ys, unit=unit)), list(zip(xs.tolist(), ys.tolist()))


def _rows(np, osy, m):
    if isinstance(m, osy.Vector):
        comps = [np.atleast_1d(c.values) for c in m._xyz.values()]
        return [tuple(float(c[i]) for c in comps) for i in range(len(comps[0]))]
    return [(float(v),) for v in np.atleast_1d(m.values)]


def _check(np, osy, g, model, where):
    if list(g.keys()) != list(model.keys()):
        return "%s: keys %s vs %s" % (where, list(g.keys()), list(model.keys()))
    shapes = set()
    for k, (kind, unit, rows) in model.items():
        m = g[k]
        if (kind == "V") != isinstance(m, osy.Vector):
            return "%s: kind of %s" % (where, k)
        if m.name != k:
            return "%s: name of %s is %r" % (where, k, m.name)
        if str(m.unit) != str(osy.units(unit)):
            return "%s: unit of %s is %s" % (where, k, m.unit)
        if _rows(np, osy, m) != rows:
            return "%s: rows of %s: %s vs %s" % (where, k, _rows(np, osy, m)[:6], rows[:6])
        shapes.add(m.shape)
    if len(shapes) > 1:
        return "%s: members of different shapes %s" % (where, shapes)
    return None


def history_c06(seed, nops=12):
    """one random history; returns None or a description of the first disagreement"""
    import numpy as np
    import osyris as osy

    rng = random.Random(seed)
    n = rng.randint(1, 7)
    g, model, log = osy.Datagroup(), {}, []
    units = ["m", "s", "g", "K"]
    for step in range(nops):
        op = rng.choice(["insert", "insert", "insert_bad", "replace", "update", "delete", "pop", "slice", "sort_key",
                         "sort_idx", "int", "mask", "fancy"])
        names = list(model.keys())
        if op in ("insert", "replace", "update") or not names:
            name = rng.choice(names) if (op == "replace" and names) else "m%d" % rng.randint(0, 5)
            kind, unit = rng.choice("AV"), rng.choice(units)
            nn = n if names else rng.randint(1, 7)
            if not names:
                n = nn
            m, rows = _mk(np, osy, kind, n, rng, unit)
            arrs = [k for k, v in model.items() if v[0] == "A" and k != name]
            if arrs and rng.random() < 0.3:
                # a member sharing data with an existing one: a Vector built from it, or the same ndarray
                src = rng.choice(arrs)
                if rng.random() < 0.5:
                    ys = np.array([float(rng.randint(-50, 50)) for _ in range(n)])
                    m = osy.Vector(g[src], osy.Array(values=ys, unit=model[src][1]))
                    kind, unit, rows = "V", model[src][1], [(r[0], float(y)) for r, y in zip(model[src][2], ys)]
                else:
                    m = osy.Array(values=g[src]._array, unit=model[src][1])
                    kind, unit, rows = "A", model[src][1], list(model[src][2])
            log.append((op, name, kind))
            if op == "update":
                g.update({name: m})
            else:
                g[name] = m
            model[name] = (kind, unit, rows)
        elif op == "insert_bad":
            m, rows = _mk(np, osy, rng.choice("AV"), n + rng.randint(1, 3), rng, "m")
            m.name = "keepme"
            log.append((op,))
            try:
                g["bad"] = m
                return "mis-shaped insertion accepted; log=%s" % log
            except ValueError:
                if m.name != "keepme":
                    return "rejected value was renamed; log=%s" % log
        elif op == "delete":
            k = rng.choice(names)
            log.append((op, k))
            del g[k]
            del model[k]
        elif op == "pop":
            k = rng.choice(names)
            log.append((op, k))
            g.pop(k)
            del model[k]
        else:
            if op == "slice":
                lo, hi, st = rng.randint(0, n), rng.randint(0, n), rng.choice([1, 1, 2, 3, -1])
                key = slice(lo, hi, st) if st != -1 else slice(None, None, -1)
                pick = list(range(n))[key]
            elif op == "int":
                i = rng.randint(-n, n - 1)
                key, pick = i, None
            elif op == "mask":
                mask = np.array([rng.random() < 0.5 for _ in range(n)])
                key = mask if rng.random() < 0.5 else osy.Array(values=mask)
                pick = [i for i in range(n) if mask[i]]
            elif op == "fancy":
                idx = np.array([rng.randint(0, n - 1) for _ in range(rng.randint(0, 6))], dtype="int64")
                key = idx if rng.random() < 0.5 else osy.Array(values=idx)
                pick = idx.tolist()
            elif op == "sort_idx":
                perm = list(range(n))
                rng.shuffle(perm)
                key, pick = np.array(perm), perm
            else:
                cands = [k for k, v in model.items() if v[0] == "A"]
                if not cands:
                    continue
                k = rng.choice(cands)
                col = [r[0] for r in model[k][2]]
                if len(set(col)) != len(col):
                    continue  # ties: numpy's order among equal keys is not part of the statement
                pick = sorted(range(n), key=lambda i: col[i])
                key = k
            log.append((op, str(key)[:40]))
            if op in ("sort_key", "sort_idx"):
                g.sortby(key)
                model = {k: (kd, u, [rows[i] for i in pick]) for k, (kd, u, rows) in model.items()}
            elif op == "int":
                r = g[key]
                for k, (kd, u, rows) in model.items():
                    if _rows(np, osy, r[k]) != [rows[key]]:
                        return "int index %d: %s -> %s expected %s; log=%s" % (key, k, _rows(np, osy, r[k]), rows[key], log)
                continue
            else:
                before = {k: v for k, v in model.items()}
                r = g[key]
                err = _check(np, osy, g, before, "source after indexing")
                if err:
                    return err + "; log=%s" % log
                g = r
                model = {k: (kd, u, [rows[i] for i in pick]) for k, (kd, u, rows) in model.items()}
                n = len(pick)
                if n == 0:
                    g, model, n = osy.Datagroup(), {}, rng.randint(1, 7)
        err = _check(np, osy, g, model, "after %s" % (log[-1],))
        if err:
            return err + "; log=%s" % log
    return None


def sweep_c06(tier, seed):
    nh = 300 if tier == "quick" else 5000
    viol, distinct = [], set()
    for h in range(nh):
        err = history_c06(seed * 100003 + h)
        distinct.add(h)
        if err:
            viol.append({"name": "C06.native.history", "input": {"history_seed": seed * 100003 + h}, "observed": err})
            if len(viol) >= 3:
                break
    return {"status": "violation" if viol else "ok", "cases": len(distinct), "distinct": len(distinct),
            "violations": viol[:1], "samples": [{"history_seed": seed * 100003}], "kind": "bounded-native"}


def replay_datagroup(case, model, rec):
    for h in range(400):
        err = history_c06(7919 * h + 13)
        if err:
            return {"reproduced": True, "input": {"history_seed": 7919 * h + 13}, "observed": err}
    return {"reproduced": False, "note": "400 random histories agree with the list-of-rows oracle"}


# --------------------------------------------------------------------------------------
# C20: dictionary behaviour and equality
# --------------------------------------------------------------------------------------
def history_c20(seed, nops=14, dataset=False):
    import numpy as np
    import osyris as osy

    rng = random.Random(seed)
    keys = ["a", "b", "c", "d", "e"]
    n = rng.randint(1, 5)

    def value():
        if dataset:
            g = osy.Datagroup()
            g["x"] = osy.Array(values=np.arange(float(rng.randint(1, 4))), unit="m")
            return g
        return _mk(np, osy, rng.choice("AV"), n, rng, rng.choice(["m", "s"]))[0]

    obj = osy.Dataset() if dataset else osy.Datagroup()
    ref, log = {}, []
    if dataset:
        obj.meta["time"] = 1.0
    for _ in range(nops):
        op = rng.choice(["set", "set", "set", "del", "pop", "get", "getitem", "update", "update_kw", "clear", "copy",
                         "iter", "contains", "bad"])
        k = rng.choice(keys)
        log.append((op, k))
        try:
            if op == "set":
                v = value()
                obj[k] = v
                ref[k] = v
            elif op == "bad":
                if dataset:
                    try:
                        obj[k] = osy.Array(values=np.arange(3.0))
                        return "Dataset accepted an Array; log=%s" % log
                    except TypeError:
                        pass
                elif ref:
                    try:
                        obj[k] = _mk(np, osy, "A", n + 1, rng, "m")[0]
                        return "Datagroup accepted a mis-shaped value; log=%s" % log
                    except ValueError:
                        pass
            elif op == "del":
                e1 = e2 = None
                try:
                    del obj[k]
                except KeyError as e:
                    e1 = e
                try:
                    del ref[k]
                except KeyError as e:
                    e2 = e
                if (e1 is None) != (e2 is None):
                    return "del disagreement; log=%s" % log
            elif op == "pop":
                r1 = r2 = e1 = e2 = None
                try:
                    r1 = obj.pop(k)
                except KeyError as e:
                    e1 = e
                try:
                    r2 = ref.pop(k)
                except KeyError as e:
                    e2 = e
                if (e1 is None) != (e2 is None) or r1 is not r2:
                    return "pop disagreement; log=%s" % log
            elif op == "get":
                if obj.get(k, "dflt") is not ref.get(k, "dflt") and not (k not in ref and obj.get(k, "dflt") == "dflt"):
                    return "get disagreement; log=%s" % log
            elif op == "getitem":
                r1 = r2 = e1 = e2 = None
                try:
                    r1 = obj[k]
                except KeyError as e:
                    e1 = e
                try:
                    r2 = ref[k]
                except KeyError as e:
                    e2 = e
                if (e1 is None) != (e2 is None) or r1 is not r2:
                    return "getitem disagreement; log=%s" % log
            elif op == "update":
                v = value()
                obj.update({k: v})
                ref.update({k: v})
            elif op == "update_kw":
                v = value()
                obj.update(**{k: v})
                ref.update(**{k: v})
            elif op == "clear":
                obj.clear()
                ref.clear()
                if dataset and len(obj.meta) != 0:
                    return "Dataset.clear kept meta; log=%s" % log
                if dataset:
                    obj.meta["time"] = 1.0
            elif op == "copy":
                c = obj.copy()
                if c is obj or list(c.keys()) != list(ref.keys()) or any(c[q] is not ref[q] for q in ref):
                    return "copy disagreement; log=%s" % log
            elif op == "iter":
                if list(iter(obj)) != list(iter(ref)) or len(obj) != len(ref):
                    return "iteration disagreement; log=%s" % log
            elif op == "contains":
                if (k in obj) != (k in ref):
                    return "membership disagreement; log=%s" % log
        except ValueError as e:
            # shape gate of a Datagroup: the model must reject the same insertion
            if dataset or not ref:
                return "unexpected ValueError %s; log=%s" % (e, log)
            first = next(iter(ref.values()))
            continue
        if list(obj.keys()) != list(ref.keys()):
            return "keys %s vs %s; log=%s" % (list(obj.keys()), list(ref.keys()), log)
        for q in ref:
            if obj[q] is not ref[q] or obj[q].name != q:
                return "value/name of %s; log=%s" % (q, log)
        if not dataset:
            n = len(next(iter(ref.values()))) if ref else rng.randint(1, 5)
    return None


def eq_matrix():
    """list of (label, expected, observed) for Datagroup.__eq__"""
    import numpy as np
    import osyris as osy

    def grp(**kw):
        g = osy.Datagroup()
        for k, v in kw.items():
            g[k] = v
        return g

    A = lambda vals, u="m": osy.Array(values=np.array(vals, dtype=float), unit=u)  # noqa: E731
    V = lambda xs, ys, u="m": osy.Vector(A(xs, u), A(ys, u))  # noqa: E731
    cases = [
        ("identical", True, grp(a=A([1, 2])), grp(a=A([1, 2]))),
        ("wholly_different", False, grp(a=A([1, 2])), grp(a=A([3, 4]))),
        ("partly_different", False, grp(a=A([1, 2])), grp(a=A([1, 4]))),
        ("different_keys", False, grp(a=A([1, 2])), grp(b=A([1, 2]))),
        ("same_quantity_other_unit", True, grp(a=A([1, 2], "m")), grp(a=A([100, 200], "cm"))),
        ("same_numbers_other_unit", False, grp(a=A([1, 2], "m")), grp(a=A([1, 2], "cm"))),
        ("vector_identical", True, grp(v=V([1, 2], [3, 4])), grp(v=V([1, 2], [3, 4]))),
        ("vector_y_differs", False, grp(v=V([1, 2], [3, 4])), grp(v=V([1, 2], [3, 5]))),
        ("second_member_differs", False, grp(a=A([1, 2]), b=A([5, 6])), grp(a=A([1, 2]), b=A([5, 7]))),
        ("empty", True, grp(), grp()),
        ("reordered_equal", True, grp(a=A([1, 2]), b=A([5, 6], "s")), grp(b=A([5, 6], "s"), a=A([1, 2]))),
        ("reordered_swapped_contents", False, grp(a=A([1, 2]), b=A([5, 6])), grp(b=A([1, 2]), a=A([5, 6]))),
    ]
    out = []
    for label, want, g, h in cases:
        try:
            got = bool(g == h)
        except Exception as e:
            got = "exception %r" % (e,)
        out.append((label, want, got))
    return out


def falsy_get():
    import numpy as np
    import osyris as osy

    bad = []
    g = osy.Datagroup()
    a = osy.Array(values=3.0, unit="m")
    g["s"] = a
    if g.get("s", "default") is not a:
        bad.append("Datagroup.get of a stored 0-d Array returned %r" % (g.get("s", "default"),))
    ds = osy.Dataset()
    e = osy.Datagroup()
    ds["e"] = e
    if ds.get("e", "default") is not e:
        bad.append("Dataset.get of a stored empty Datagroup returned %r" % (ds.get("e", "default"),))
    return bad


def sweep_c20(tier, seed):
    nh = 300 if tier == "quick" else 5000
    viol, cases = [], 0
    for b in falsy_get():
        viol.append({"name": "C20.native.get_falsy", "input": "get() of a falsy stored value", "observed": b})
    for h in range(nh):
        for ds in (False, True):
            cases += 1
            err = history_c20(seed * 100003 + h, dataset=ds)
            if err:
                viol.append({"name": "C20.native.history[%s]" % ("Dataset" if ds else "Datagroup"),
                             "input": {"history_seed": seed * 100003 + h}, "observed": err})
        if len(viol) >= 3:
            break
    for label, want, got in eq_matrix():
        cases += 1
        if got != want:
            viol.append({"name": "C20.native.eq[%s]" % label, "input": label, "observed": "== returned %s, expected %s" % (got, want)})
    first = {}
    for v in viol:
        first.setdefault(v["name"], v)
    return {"status": "violation" if viol else "ok", "cases": cases, "distinct": cases,
            "violations": list(first.values()), "samples": [{"history_seed": seed * 100003}, "eq matrix of 10 pairs"],
            "kind": "bounded-native"}


def replay_dict(case, model, rec):
    for h in range(300):
        for ds in (False, True):
            err = history_c20(104729 * h + 7, dataset=ds)
            if err:
                return {"reproduced": True, "input": {"history_seed": 104729 * h + 7, "dataset": ds}, "observed": err}
    return {"reproduced": False}


def replay_eq(case, model, rec):
    bad = [(l, w, g) for l, w, g in eq_matrix() if w != g]
    return {"reproduced": bool(bad), "observed": bad}


# --------------------------------------------------------------------------------------
# C16: sub-domain extraction against a point-in-region oracle
# --------------------------------------------------------------------------------------
def extract_case(seed):
    import copy
    import numpy as np
    import osyris as osy
    from osyris.spatial import extract_box, extract_sphere

    rng = random.Random(seed)
    nmesh = rng.randint(1, 40)
    scale = {"m": 1.0, "cm": 0.01, "km": 1000.0}

    def pos(n, u):
        return osy.Vector(*[osy.Array(values=np.array([rng.randint(-4, 4) * 0.5 for _ in range(n)]) / scale[u], unit=u)
                            for _ in range(3)])

    ds = osy.Dataset()
    ds.meta["time"] = 1.0
    um = rng.choice(list(scale))
    layout = rng.choice(["mesh_only", "mesh_part", "mesh_hydro_like", "mesh_other_shape", "all"])
    g = osy.Datagroup()
    g["position"] = pos(nmesh, um)
    g["val"] = osy.Array(values=np.arange(float(nmesh)), unit="K")
    ds["mesh"] = g
    if layout in ("mesh_part", "all"):
        npart = rng.randint(1, 20)
        p = osy.Datagroup()
        p["position"] = pos(npart, rng.choice(list(scale)))
        p["mass"] = osy.Array(values=np.arange(float(npart)), unit="g")
        ds["part"] = p
    if layout in ("mesh_hydro_like", "all"):
        e = osy.Datagroup()
        e["val"] = osy.Array(values=np.arange(float(nmesh)) * 2, unit="K")
        ds["extra"] = e
    if layout in ("mesh_other_shape", "all"):
        s = osy.Datagroup()
        s["val"] = osy.Array(values=np.arange(float(nmesh + 1)), unit="K")
        ds["sink"] = s
    uo, ur = rng.choice(list(scale)), rng.choice(list(scale))
    o = [rng.randint(-2, 2) * 0.5 for _ in range(3)]
    origin = osy.Vector(*[osy.Array(values=v / scale[uo], unit=uo) for v in o])
    size = rng.choice([0.0, 0.5, 1.0, 1.5, 3.0, 100.0])
    before = copy.deepcopy(ds)
    kind = rng.choice(["sphere", "box"])
    import warnings

    def length(v, u):
        """the size as the user writes it: an integer number of <u> when it is one (integer dtype), else a float"""
        raw = v / scale[u]
        if raw == int(raw) and rng.random() < 0.6:
            return osy.Array(values=np.int64(int(raw)), unit=u)
        return osy.Array(values=raw, unit=u)

    with warnings.catch_warnings():
        warnings.simplefilter("ignore")
        if kind == "sphere":
            sub = extract_sphere(ds, length(size, ur), origin)
        else:
            sz = [length(2 * size, ur) for _ in range(3)]
            sub = extract_box(ds, sz[0], sz[1], sz[2], origin)
    # oracle
    for name in ds.keys():
        grp = ds[name]
        src = grp if "position" in grp else (ds["mesh"] if grp.shape == ds["mesh"].shape else None)
        if src is None:
            if name in sub.keys():
                return "group %s without positions was extracted" % name
            continue
        P = src["position"]
        xyz = np.stack([np.asarray(getattr(P, c).to("m").values, dtype=float) for c in "xyz"], axis=1)
        d = xyz - np.array(o)
        if kind == "sphere":
            dist = np.sqrt((d ** 2).sum(axis=1))
            inside = dist < size
            if (np.abs(dist - size) < 1e-9 * max(size, 1.0)).any():
                return None  # a row within rounding of the boundary: unit conversion noise decides
        else:
            inside = (np.abs(d) <= size).all(axis=1)
            if (np.abs(np.abs(d) - size) < 1e-9 * max(size, 1.0)).any() and um != "m":
                return None
        if not inside.any():
            if name in sub.keys():
                return "group %s has no row inside but is present" % name
            continue
        if name not in sub.keys():
            return "group %s has rows inside but is missing (%s, layout %s)" % (name, kind, layout)
        for k in grp.keys():
            want = grp[k][inside]
            got = sub[name][k]
            wl = [np.asarray(c.values) for c in (want._xyz.values() if isinstance(want, osy.Vector) else [want])]
            gl = [np.asarray(c.values) for c in (got._xyz.values() if isinstance(got, osy.Vector) else [got])]
            if len(wl) != len(gl) or any(not np.array_equal(a, b) for a, b in zip(wl, gl)) or got.unit != want.unit:
                return "rows of %s/%s differ (%s)" % (name, k, kind)
    if sub.meta != ds.meta or sub.meta is ds.meta:
        return "meta not carried over as a copy"
    for name in before.keys():
        if not (before[name] == ds[name]) or list(before[name].keys()) != list(ds[name].keys()):
            return "input dataset modified (%s)" % name
    return None


def boundary_case():
    """rows exactly on the boundary (integer coordinates, one unit, exact in floating point): the sphere is open
    (distance < radius), the box is closed (|offset| <= half-size)"""
    import numpy as np
    import osyris as osy
    from osyris.spatial import extract_box, extract_sphere

    pts = np.array([[3.0, 4.0, 0.0], [0.0, 0.0, 5.0], [1.0, 1.0, 1.0], [3.0, 4.0, 1.0], [-5.0, 0.0, 0.0], [2.0, -3.0, 6.0], [2.0, 3.0, -6.0]])
    ds = osy.Dataset()
    ds["mesh"] = osy.Datagroup()
    ds["mesh"]["position"] = osy.Vector(*[osy.Array(values=pts[:, d].copy(), unit="cm") for d in range(3)])
    ds["mesh"]["tag"] = osy.Array(values=np.arange(len(pts), dtype=float), unit="g")
    ds.meta = {"ndim": 3}
    origin = osy.Vector(osy.Array(values=0.0, unit="cm"), osy.Array(values=0.0, unit="cm"), osy.Array(values=0.0, unit="cm"))
    r = np.sqrt((pts ** 2).sum(axis=1))
    sub = extract_sphere(ds, radius=osy.Array(values=5.0, unit="cm"), origin=origin)
    got = sorted(sub["mesh"]["tag"].values.tolist()) if "mesh" in sub.keys() else []
    want = sorted(np.arange(len(pts))[r < 5.0].astype(float).tolist())
    if got != want:
        return "sphere of radius 5 cm about the origin returns rows %s, the rows with distance < radius are %s (rows 0, 1, 4 lie exactly on the sphere)" % (got, want)
    sub = extract_box(ds, dx=osy.Array(values=4.0, unit="cm"), dy=osy.Array(values=6.0, unit="cm"), dz=osy.Array(values=12.0, unit="cm"), origin=origin)
    got = sorted(sub["mesh"]["tag"].values.tolist()) if "mesh" in sub.keys() else []
    inside = (np.abs(pts[:, 0]) <= 2.0) & (np.abs(pts[:, 1]) <= 3.0) & (np.abs(pts[:, 2]) <= 6.0)
    want = sorted(np.arange(len(pts))[inside].astype(float).tolist())
    if got != want:
        return "box 4x6x12 cm about the origin returns rows %s, the rows with |offset| <= half-size are %s (rows 5, 6 lie exactly on faces)" % (got, want)
    return None


def sweep_c16(tier, seed):
    n = 300 if tier == "quick" else 6000
    viol = []
    try:
        err = boundary_case()
    except Exception as e:
        err = "exception %r" % (e,)
    if err:
        viol.append({"name": "C16.native.boundary_rows", "input": {"case": "fixed integer-coordinate rows on the sphere / on box faces"}, "observed": err})
    for k in range(n):
        try:
            err = extract_case(seed * 7919 + k)
        except Exception as e:
            err = "exception %r" % (e,)
        if err:
            viol.append({"name": "C16.native.extract", "input": {"case_seed": seed * 7919 + k}, "observed": err})
            break
    return {"status": "violation" if viol else "ok", "cases": n, "distinct": n, "violations": viol,
            "samples": [{"case_seed": seed * 7919}], "kind": "bounded-native"}


def replay_extract(case, model, rec):
    for k in range(300):
        try:
            err = extract_case(31337 + k)
        except Exception as e:
            err = "exception %r" % (e,)
        if err:
            return {"reproduced": True, "input": {"case_seed": 31337 + k}, "observed": err}
    return {"reproduced": False}
