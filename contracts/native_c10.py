"""Bounded native stand-in for C10: the catalogue against pint on concrete arrays."""
import random

from . import native_arrays as N


def sweep(tier, seed):
    import numpy as np
    import osyris
    from osyris import Array, units

    rng = np.random.default_rng(seed)
    viol, cases, distinct = [], 0, set()

    def rec(name, key, ok, detail):
        nonlocal cases
        cases += 1
        distinct.add(key)
        if not ok:
            viol.append({"name": name, "input": list(map(str, key)), "observed": detail})

    reps = 1 if tier == "quick" else 6
    for _ in range(reps):
        for dtype in ("float64", "float32", "int32", "int64", "uint16"):
            n = int(rng.integers(1, 6))
            va = (rng.integers(1, 50, size=n)).astype(dtype)
            vb = (rng.integers(1, 50, size=n)).astype(dtype)
            a = lambda u="m": Array(values=va.copy(), unit=u)  # noqa: E731
            b = lambda u="m": Array(values=vb.copy(), unit=u)  # noqa: E731
            # unsigned dtype: only calls whose exact result is representable (the oracle computes in float64, numpy wraps)
            wraps = (lambda f, k=None: dtype.startswith("uint") and (f in ("negative", "diff", "subtract") or (f == "power" and k == 3)))
            for f in N.SAME_UNARY:
                if wraps(f):
                    continue
                ok, d = N.catalogue_call(f, [a()])
                rec("C10.native.unary[%s]" % f, (f, dtype), ok, d)
            for f in N.TRANSFORM_UNARY:
                if f == "reciprocal" and "int" in dtype:
                    continue
                ok, d = N.catalogue_call(f, [a()])
                rec("C10.native.transform[%s]" % f, (f, dtype), ok, d)
            for f in N.SAME_BINARY + N.COMPARISONS:
                if wraps(f):
                    continue
                ok, d = N.catalogue_call(f, [a(), b()])
                rec("C10.native.same[%s]" % f, (f, dtype, "same"), ok, d)
                ok, d = N.catalogue_call(f, [a("m"), b("cm")])
                rec("C10.native.mixed[%s,compatible]" % f, (f, dtype, "compat"), ok, d)
                ok, d = N.catalogue_call(f, [a("m"), b("s")])
                rec("C10.native.mixed[%s,incompatible]" % f, (f, dtype, "incompat"), ok, d)
            for f in ("multiply", "divide"):
                for other, tag in ((b("s"), "Array"), (2.0, "number"), (vb.copy(), "ndarray"), (2.0 * units("s"), "Quantity")):
                    ok, d = N.catalogue_call(f, [a(), other])
                    rec("C10.native.transform[%s,%s]" % (f, tag), (f, dtype, tag), ok, d)
            for k in (2, 3, 0.5):
                if wraps("power", k):
                    continue
                ok, d = N.catalogue_call("power", [a(), k])
                rec("C10.native.transform[power]", ("power", dtype, k), ok, d)
            for k in (2, 3):
                if wraps("power", k):
                    continue
                ok, d = N.catalogue_call("power", [a(), np.array(k)])
                rec("C10.native.transform[power,ndarray_exponent]", ("power", dtype, "nd", k), ok, d)
            for f in ("maximum", "add"):
                # a plain number or ndarray in front of the Array: the result keeps the Array's unit
                ok, d = N.catalogue_call(f, [0.0, a()])
                rec("C10.native.same[%s,number_first]" % f, (f, dtype, "number_first"), ok, d)
            for f in ("isfinite", "isnan", "isinf"):
                ok, d = N.catalogue_call(f, [a()])
                rec("C10.native.predicate[%s]" % f, (f, dtype), ok, d)
            # keyword forms
            v2 = (rng.integers(1, 50, size=(2, 3))).astype(dtype)
            for f in ("sum", "amin", "amax", "mean"):
                for ax in (0, 1):
                    ok, d = N.catalogue_call(f, [Array(values=v2.copy(), unit="m")], {"axis": ax})
                    rec("C10.native.axis[%s]" % f, (f, dtype, "axis", ax), ok, d)
            # concatenate / where
            for ub, tag in (("m", "same"), ("cm", "compatible"), ("s", "incompatible")):
                r = N.replay_mixed("concatenate,%s" % ("compatible" if tag != "incompatible" else "incompatible"), {}, {}) \
                    if tag != "same" else {"reproduced": False}
                rec("C10.native.mixed[concatenate,%s]" % tag, ("concatenate", tag), not r["reproduced"], r.get("observed"))
            for ctag in ("ndarray", "Array"):
                r = N.replay_where("cond=" + ctag, {}, {})
                rec("C10.native.where[cond=%s]" % ctag, ("where", ctag), not r["reproduced"], r.get("observed"))
    names = sorted({v["name"] for v in viol})
    first = {}
    for v in viol:
        first.setdefault(v["name"], v)
    return {"status": "violation" if viol else "ok", "cases": cases, "distinct": len(distinct),
            "violations": list(first.values()), "samples": [list(map(str, s)) for s in list(distinct)[:3]],
            "kind": "bounded-native"}
