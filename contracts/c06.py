"""C06 — Datagroup members stay row-aligned under insertion, slicing and sorting."""
import z3

from pyvc import core
from pyvc.api import O, bounded, unit
from pyvc.core import SV, prove
from pyvc.stubs import np as snp
from pyvc.stubs import pint as spint

from . import arrays as A
from . import native_containers as NC

LEVEL = "other"
EXPLANATION = ("Every public Datagroup method is executed symbolically on groups of 0-3 members mixing Arrays and "
               "Vectors with symbolic length, dtype, values and units.  Proved per method: the representation "
               "invariant DG_ok (all members one shape) is preserved; a rejected insertion leaves the group unchanged; "
               "indexing / sorting applies ONE row map to every member and Vector component (result[m][r] == "
               "old[m][pi(r)] for the same pi), units and names kept.  Histories follow by induction over the "
               "per-method contracts.  Not mechanised: induction over the NUMBER of members (instantiated 0..3) - "
               "for that reason the level is 'other', with a native model-based random-history check as stand-in.")
TRUSTED = ["numpy indexing semantics: the rows selected depend only on the index object and the shape (pyvc/stubs/np.py "
           "_rowmap / fancy indexing / argsort)", "CPython dict order semantics (real dicts are executed)"]
ASSUMPTIONS = ["member count per group instantiated for 0..3 members (Array/Vector mixes); everything else symbolic"]

DG = "osyris.core.datagroup"
T_ALL = [DG + ":Datagroup." + m for m in ("__init__", "__getitem__", "__setitem__", "__delitem__", "shape", "sortby",
                                         "update", "pop", "clear")]
CONFIGS = {"empty": [], "a": ["a"], "v": ["v"], "av": ["a", "v"], "va": ["v", "a"], "abv": ["a", "b", "v"],
           # members that share data: a Vector built from the Array stored next to it, one Array under two keys
           "a_vshared": ["a", "v@a"], "a_dup": ["a", "b@a"]}


def mk_group(config, dims, shape_of=None):
    """group with the members of `config` (names starting with v are 2-component Vectors)"""
    osy = O()
    g = osy.Datagroup()
    members = {}
    for name in config:
        if "@" in name:
            name, src = name.split("@")
            base = members[src]
            if name.startswith("v"):
                other = A.mk_array(name + "y", dims, "1d", unit=base.unit, dt=base._array.dtype)
                m = osy.Vector(base, other)  # the x component shares the buffer of `base`
            else:
                m = osy.Array(values=base._array, unit=base.unit)  # same ndarray under a second key
            g[name] = m
            members[name] = m
            continue
        if name.startswith("v"):
            u = spint.sym_unit("u" + name)
            dt = snp.sym_dtype("dt" + name)
            m = osy.Vector(*[A.mk_array(name + c, dims, "1d", unit=u, dt=dt) for c in "xy"])
        else:
            m = A.mk_array(name, dims, "1d")
        g[name] = m
        members[name] = m
    return g, members


def leaves(m):
    """component Arrays of a member"""
    Vector = O().Vector
    if isinstance(m, Vector):
        return [(c, xyz) for c, xyz in m._xyz.items()]
    return [("", m)]


def snap_group(g):
    return {"keys": list(g.keys()), "members": {k: g[k] for k in g.keys()},
            "leaves": {k: [(c, A.snapshot(l)) for c, l in leaves(g[k])] for k in g.keys()},
            "names": {k: g[k].name for k in g.keys()}}


def group_unchanged(tag, g, s):
    prove(tag + ".keys", list(g.keys()) == s["keys"])
    for k in s["keys"]:
        prove(tag + ".member_identity[%s]" % k, g[k] is s["members"][k])
        prove(tag + ".member_name[%s]" % k, g[k].name == s["names"][k])
        for c, ls in s["leaves"][k]:
            A.unchanged(tag + ".leaf[%s%s]" % (k, c), ls)


def dg_ok(tag, g):
    """representation invariant: empty, or every member has the shape of the first"""
    keys = list(g.keys())
    if not keys:
        return
    s0 = g[keys[0]].shape
    for k in keys[1:]:
        sk = g[k].shape
        prove(tag + ".DG_ok[%s]" % k, core.conj(len(sk) == len(s0), SV(snp._shape_eq_term(sk, s0), "b") if len(sk) == len(s0) else False))
    for k in keys:
        for c, l in leaves(g[k]):
            prove(tag + ".DG_ok.leaf[%s%s]" % (k, c), SV(snp._shape_eq_term(l.shape, s0), "b") if len(l.shape) == len(s0) else False)


# --------------------------------------------------------------------------------------
_SET = [{"label": "%s,%s,%s" % (cfg, kind, fit), "cfg": cfg, "kind": kind, "fit": fit}
        for cfg in ("empty", "a", "v", "av") for kind in ("Array", "Vector")
        for fit in ("same_shape", "other_shape", "replace", "other_rank_0d", "other_rank_2d")
        if not (cfg == "empty" and fit != "same_shape")]


@unit("C06", "Datagroup.__setitem__", targets=[DG + ":Datagroup.__setitem__", DG + ":Datagroup.shape"], cases=_SET,
      replay=NC.replay_datagroup, inline=["Datagroup.__len__", "Datagroup.keys", "Datagroup.__getitem__(str)"])
def setitem(case):
    osy = O()
    dims = A.Dims()
    g, members = mk_group(CONFIGS[case["cfg"]], dims)
    core.assume(dims.n >= 1)
    k2 = dims.n if case["fit"] != "other_shape" else core.fresh_int("k", 0)
    if case["fit"] == "other_shape":
        core.assume(k2 != dims.n)
    d2 = A.Dims()
    d2.n = k2
    # a value of another rank (a 0-d scalar, a 2-d table) does not fit an (n,) group either
    kind_shape = {"other_rank_0d": "0d", "other_rank_2d": "2d"}.get(case["fit"], "1d")
    if kind_shape == "2d":
        d2.m = core.fresh_int("m2", 1)
    if case["kind"] == "Vector":
        u = spint.sym_unit("unew")
        dt = snp.sym_dtype("dtnew")
        val = osy.Vector(*[A.mk_array("new" + c, d2, kind_shape, unit=u, dt=dt) for c in "xy"], name="orig")
    else:
        val = A.mk_array("new", d2, kind_shape)
        val.name = "orig"
    key = "new" if case["fit"] != "replace" else (CONFIGS[case["cfg"]][0])
    s = snap_group(g)
    try:
        g[key] = val
        raised = False
    except ValueError:
        raised = True
    if case["fit"] in ("other_shape", "other_rank_0d", "other_rank_2d"):
        prove("rejected", raised)
        group_unchanged("rejected.group", g, s)
        prove("rejected.value_name_untouched", val.name == "orig")
    else:
        prove("accepted", not raised)
        want_keys = s["keys"] if key in s["keys"] else s["keys"] + [key]
        prove("keys", list(g.keys()) == want_keys)
        prove("stored_identity", g[key] is val)
        prove("renamed", val.name == key)
        for k in s["keys"]:
            if k != key:
                prove("others_identity[%s]" % k, g[k] is s["members"][k])
        dg_ok("post", g)


# --------------------------------------------------------------------------------------
INDEX_KINDS = ["int_pos", "int_neg", "slice", "slice_step2", "slice_step3", "bool_ndarray", "bool_Array", "int_ndarray",
               "int_Array"]
_GET = [{"label": "%s,%s" % (cfg, ik), "cfg": cfg, "index": ik} for cfg in CONFIGS for ik in INDEX_KINDS]


def make_index(kind, dims):
    """(index object, result length or None for scalars, pi) ; pi maps result row -> original row"""
    Array = O().Array
    n = dims.n
    if kind == "int_pos":
        k = core.fresh_int("k", 0)
        core.assume(k < n)
        return k, None, lambda r: k
    if kind == "int_neg":
        k = core.fresh_int("k", None, -1)
        core.assume(k >= -n)
        return k, None, lambda r: n + k
    if kind.startswith("slice"):
        step = {"slice": 1, "slice_step2": 2, "slice_step3": 3}[kind]
        lo = core.fresh_int("lo", 0)
        hi = core.fresh_int("hi", 0)
        core.assume(lo <= hi)
        core.assume(hi <= n)
        ln = (hi - lo + (step - 1)) // step
        return (slice(lo, hi) if step == 1 else slice(lo, hi, step)), ln, lambda r: lo + r * step
    if kind.startswith("bool"):
        m = snp.sym_array("mask", (n,), snp.dtype("bool"), "b")
        key = m if kind == "bool_ndarray" else Array(values=m)
        return key, "mask", m
    L = core.fresh_int("L", 0)
    ia = snp.sym_array("idx", (L,), snp.dtype("int64"), "i")
    j = core.fresh_int("jq", 0)
    # every entry is a valid row number (precondition; numpy raises IndexError otherwise); repeats allowed
    cur = core.cur()
    jj = z3.Int("jall")
    cur.add(z3.ForAll([jj], z3.And(ia._sym_fn(jj) >= 0, ia._sym_fn(jj) < core.term(n))))
    key = ia if kind == "int_ndarray" else Array(values=ia)
    return key, L, lambda r: ia.elem((r,))


@unit("C06", "Datagroup.__getitem__", targets=[DG + ":Datagroup.__getitem__", A.ARRAY + ":Array.__getitem__",
                                               "osyris.core.vector:Vector.__getitem__", DG + ":Datagroup.__setitem__"],
      cases=_GET, replay=NC.replay_datagroup,
      inline=["Datagroup.__init__", "Datagroup.items", "Array.__init__", "Vector.__init__", "Vector._xyz"])
def getitem(case):
    osy = O()
    dims = A.Dims()
    core.assume(dims.n >= 1)
    g, members = mk_group(CONFIGS[case["cfg"]], dims)
    s = snap_group(g)
    key, ln, pi = make_index(case["index"], dims)
    r = g[key]
    prove("fresh_group", r is not g and isinstance(r, osy.Datagroup))
    prove("same_keys_same_order", list(r.keys()) == s["keys"])
    group_unchanged("source", g, s)
    if ln == "mask":
        count, sel = snp._rowmap(pi)
        ln, pi = count, (lambda q: sel(q))
    for k in s["keys"]:
        old_leaves = dict(s["leaves"][k])
        prove("member_kind[%s]" % k, type(r[k]) is type(s["members"][k]))
        prove("name_kept[%s]" % k, r[k].name == s["names"][k])
        for c, new_leaf in leaves(r[k]):
            ol = old_leaves[c]
            tag = "%s%s" % (k, c)
            prove("unit_kept[%s]" % tag, new_leaf.unit == ol["unit"])
            prove("dtype_kept[%s]" % tag, new_leaf._array.dtype.idx() == ol["dtype"].idx())
            if ln is None:
                prove("scalar_result[%s]" % tag, new_leaf._array.ndim == 0)
                if new_leaf._array.ndim == 0:
                    prove("row[%s]" % tag, new_leaf._array.elem(()) == ol["elem"]((pi(0),)))
            else:
                prove("length[%s]" % tag, core.conj(new_leaf._array.ndim == 1, (new_leaf.shape[0] == ln) if new_leaf._array.ndim == 1 else False))
                q = core.fresh_int("q_" + tag, 0)
                core.assume(q < ln)
                prove("same_rowmap[%s]" % tag, new_leaf._array.elem((q,)) == ol["elem"]((pi(q),)))
    if ln is not None:
        dg_ok("result", r)
    core.cover("indexed")


@unit("C06", "Array.__getitem__.guards", targets=[A.ARRAY + ":Array.__getitem__"],
      cases=[{"label": "float_Array"}, {"label": "Vector"}], replay=None)
def getitem_guards(case):
    osy = O()
    dims = A.Dims()
    a = A.mk_array("a", dims, "1d")
    try:
        if case["label"] == "float_Array":
            a[osy.Array(values=snp.sym_array("f", (dims.n,), snp.dtype("float64")))]
        else:
            a[osy.Vector(A.mk_array("vx", dims, "1d"))]
        ok = False
    except (TypeError, ValueError):
        ok = True
    prove("rejected", ok)


# --------------------------------------------------------------------------------------
_SORT = [{"label": "%s,%s" % (cfg, how), "cfg": cfg, "how": how} for cfg in ("a", "av", "va", "abv", "a_vshared", "a_dup")
         for how in ("by_key", "by_indices", "none")]


@unit("C06", "Datagroup.sortby", targets=[DG + ":Datagroup.sortby", DG + ":Datagroup.__setitem__",
                                          A.ARRAY + ":Array.__getitem__", "osyris.core.vector:Vector.__getitem__"],
      cases=_SORT, replay=NC.replay_datagroup, inline=["Base.__array_function__", "Array._wrap_numpy (argsort)"])
def sortby(case):
    dims = A.Dims()
    core.assume(dims.n >= 1)
    g, members = mk_group(CONFIGS[case["cfg"]], dims)
    s = snap_group(g)
    if case["how"] == "none":
        g.sortby(None)
        group_unchanged("noop", g, s)
        return
    if case["how"] == "by_key":
        g.sortby("a")
        # pi = numpy's argsort of the ORIGINAL key column (computed once, before any member moves)
        old_key = s["leaves"]["a"][0][1]
        pi_arr = snp.argsort(snp.ndarray.from_elem(old_key["elem"], (dims.n,), old_key["dtype"]))
        pi = lambda q: pi_arr.elem((q,))  # noqa: E731
    else:
        ia = snp.sym_array("perm", (dims.n,), snp.dtype("int64"), "i")
        jj = z3.Int("jall")
        core.cur().add(z3.ForAll([jj], z3.And(ia._sym_fn(jj) >= 0, ia._sym_fn(jj) < core.term(dims.n))))
        g.sortby(ia)
        pi = lambda q: ia.elem((q,))  # noqa: E731
    prove("keys_kept", list(g.keys()) == s["keys"])
    for k in s["keys"]:
        old_leaves = dict(s["leaves"][k])
        prove("name_kept[%s]" % k, g[k].name == s["names"][k])
        for c, new_leaf in leaves(g[k]):
            ol = old_leaves[c]
            tag = "%s%s" % (k, c)
            prove("unit_kept[%s]" % tag, new_leaf.unit == ol["unit"])
            prove("length[%s]" % tag, core.conj(new_leaf._array.ndim == 1, (new_leaf.shape[0] == dims.n) if new_leaf._array.ndim == 1 else False))
            q = core.fresh_int("q_" + tag, 0)
            core.assume(q < dims.n)
            prove("same_permutation[%s]" % tag, new_leaf._array.elem((q,)) == ol["elem"]((pi(q),)))
    dg_ok("post", g)


# --------------------------------------------------------------------------------------
_MUT = [{"label": "%s,%s" % (cfg, op), "cfg": cfg, "op": op} for cfg in ("a", "av", "abv")
        for op in ("delitem", "pop", "clear", "update_ok", "update_bad", "init_from_dict")]


@unit("C06", "Datagroup.fill_empty", targets=[DG + ":Datagroup.update", DG + ":Datagroup.__init__", DG + ":Datagroup.__setitem__"],
      cases=[{"label": "%s,%s" % (how, state), "how": how, "state": state} for how in ("update", "update_kwargs", "init")
             for state in ("new", "cleared", "emptied")], replay=NC.replay_datagroup)
def fill_empty(case):
    """an empty group has no shape yet: values given together must still agree with each other"""
    osy = O()
    dims, d2 = A.Dims(), A.Dims()
    core.assume(dims.n >= 1)
    core.assume(d2.n != dims.n)
    good = A.mk_array("good", dims, "1d")
    bad = A.mk_array("bad", d2, "1d")
    if case["state"] == "new":
        g = osy.Datagroup()
    else:
        g, _ = mk_group(CONFIGS["a"], dims)
        if case["state"] == "cleared":
            g.clear()
        else:
            for k in list(g.keys()):
                del g[k]
    try:
        if case["how"] == "update":
            g.update({"good": good, "bad": bad})
        elif case["how"] == "update_kwargs":
            g.update(good=good, bad=bad)
        else:
            g = osy.Datagroup({"good": good, "bad": bad})
        raised = False
    except ValueError:
        raised = True
    prove("rejected", raised)
    if not raised:
        dg_ok("post", g)


@unit("C06", "Datagroup.mutators", targets=[DG + ":Datagroup.__delitem__", DG + ":Datagroup.pop", DG + ":Datagroup.clear",
                                            DG + ":Datagroup.update", DG + ":Datagroup.__init__"], cases=_MUT,
      replay=NC.replay_datagroup)
def mutators(case):
    osy = O()
    dims = A.Dims()
    core.assume(dims.n >= 1)
    g, members = mk_group(CONFIGS[case["cfg"]], dims)
    s = snap_group(g)
    first = s["keys"][0]
    op = case["op"]
    if op == "delitem":
        del g[first]
        prove("keys", list(g.keys()) == s["keys"][1:])
    elif op == "pop":
        got = g.pop(first)
        prove("returned", got is s["members"][first])
        prove("keys", list(g.keys()) == s["keys"][1:])
    elif op == "clear":
        g.clear()
        prove("empty", len(g) == 0 and g.shape == ())
    elif op == "update_ok":
        new = A.mk_array("new", dims, "1d")
        g.update({"new": new})
        prove("keys", list(g.keys()) == s["keys"] + ["new"])
        prove("renamed", new.name == "new")
    elif op == "update_bad":
        d2 = A.Dims()
        core.assume(d2.n != dims.n)
        good = A.mk_array("good", dims, "1d")
        bad = A.mk_array("bad", d2, "1d")
        try:
            g.update({"good": good, "bad": bad})
            raised = False
        except ValueError:
            raised = True
        prove("rejected", raised)
        prove("bad_not_inserted", "bad" not in g.keys())
    else:
        h = osy.Datagroup({k: s["members"][k] for k in s["keys"]})
        prove("keys", list(h.keys()) == s["keys"])
        for k in s["keys"]:
            prove("shares_member[%s]" % k, h[k] is s["members"][k])
        dg_ok("init", h)
    for k in g.keys():
        if k in s["members"]:
            prove("survivor_identity[%s]" % k, g[k] is s["members"][k])
    dg_ok("post", g)


@bounded("C06", "native", "model-based random histories (insert/replace/update/delete/pop/slice/sort; all index kinds) "
                          "against a list-of-rows oracle; quick 300 histories of <= 12 operations, thorough 5000")
def native(tier, seed):
    from pyvc import nativerun

    return nativerun.run("contracts.native_containers:sweep_c06", tier, seed)
