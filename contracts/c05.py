"""C05 — 2-D histogram bins every point exactly once, independent of thread schedule."""
import z3

from pyvc import core, loader, loops
from pyvc.api import M, O, bounded, summary, unit
from pyvc.core import SV, prove
from pyvc.stubs import np as snp
from pyvc.stubs import pint as spint

from . import arrays as A
from . import native_plot as NP

LEVEL = "other"
EXPLANATION = ("The numba kernel hist2d is verified from its Python source with an inductive loop invariant over ghost "
               "prefix functions (cnt = number of earlier points whose floor-bin is the cell, acc = sum of their "
               "values): init / preserved / exit, in-bounds obligations for every array write (numba does not check), "
               "and the prange non-interference obligation (two iterations never write the same cell).  histogram2d "
               "and _parse_limit are verified against the kernel's contract: automatic limits strictly contain every "
               "finite point, edges/centres, default layer = count, sum/mean layers, masked iff empty.  NaN/inf inputs, "
               "log axes end-to-end and bit-identical results across thread counts are covered by the bounded native "
               "stand-in only.")
TRUSTED = ["numba: prange iterations may run in any order/concurrently; element updates of a shared array by two "
           "iterations are a data race; int() is a C cast", "numpy stub (zeros, linspace, finmin/finmax via amin/amax of "
           "the finite subset)"]
ASSUMPTIONS = ["kernel inputs finite (NaN/inf: bounded native check)", "sums are mathematical: floating-point summation "
               "order is not modelled, so bit-identical sums across schedules are not claimed"]

PU = "osyris.plot.utils"
H2 = "osyris.plot.histogram2d"

# ghost prefix functions -------------------------------------------------------------------
CNT = z3.Function("cnt", z3.IntSort(), z3.IntSort(), z3.IntSort(), z3.IntSort())
ACC = z3.Function("acc", z3.IntSort(), z3.IntSort(), z3.IntSort(), z3.IntSort(), z3.RealSort())


class HistSpec:
    """bin of a point from the property statement: floor((v - lo) / width), inside iff 0 <= bin < n"""

    def __init__(self, x, y, values, xmin, xmax, nx, ymin, ymax, ny):
        self.x, self.y, self.values = x, y, values
        self.xmin, self.xmax, self.nx, self.ymin, self.ymax, self.ny = xmin, xmax, nx, ymin, ymax, ny
        self.dx = (xmax - xmin) / nx
        self.dy = (ymax - ymin) / ny

    def bins(self, j):
        bx = core.floor((self.x.elem((j,)) - self.xmin) / self.dx)
        by = core.floor((self.y.elem((j,)) - self.ymin) / self.dy)
        return bx, by

    def hit(self, j, iy, ix):
        bx, by = self.bins(j)
        return (bx == ix) & (by == iy) & (SV.lift(ix) >= 0) & (SV.lift(ix) < self.nx) & (SV.lift(iy) >= 0) & (SV.lift(iy) < self.ny)

    def cnt(self, k, iy, ix):
        k, iy, ix = SV.lift(k), SV.lift(iy), SV.lift(ix)
        t = CNT(k.t, iy.t, ix.t)
        p = core.cur()
        key = ("cntax", core.tid(t))
        if key not in p.counter:
            p.counter[key] = 1
            prev = CNT(k.t - 1, iy.t, ix.t)
            h = core.bterm(self.hit(k - 1, iy, ix))
            p.add(z3.Implies(k.t <= 0, t == 0))
            p.add(z3.Implies(k.t >= 1, t == prev + z3.If(h, 1, 0)))
        return SV(t, "i")

    def acc(self, k, l, iy, ix):
        k, l, iy, ix = SV.lift(k), SV.lift(l), SV.lift(iy), SV.lift(ix)
        t = ACC(k.t, l.t, iy.t, ix.t)
        p = core.cur()
        key = ("accax", core.tid(t))
        if key not in p.counter:
            p.counter[key] = 1
            prev = ACC(k.t - 1, l.t, iy.t, ix.t)
            h = core.bterm(self.hit(k - 1, iy, ix))
            v = core.term(SV.lift(self.values.elem((l, k - 1))))
            p.add(z3.Implies(k.t <= 0, t == 0))
            p.add(z3.Implies(k.t >= 1, t == prev + z3.If(h, v, 0)))
        return SV(t, "r")


SPEC = [None]  # the HistSpec of the unit being verified (read by the loop contract)

LC = loops.LoopContract(
    "hist2d.loop0",
    arrays={
        "counts": lambda env, i: (lambda idx: SPEC[0].cnt(i, idx[0], idx[1])),
        "out": lambda env, i: (lambda idx: SPEC[0].acc(i, idx[0], idx[1], idx[2])),
    },
)
loader.LOOP_CONTRACTS[(PU, "hist2d", 0)] = LC


def kernel_inputs():
    n = core.fresh_int("n", 0)
    nl = core.fresh_int("nl", 1)
    nx = core.fresh_int("nx", 1)
    ny = core.fresh_int("ny", 1)
    x = snp.sym_array("x", (n,), "float64")
    y = snp.sym_array("y", (n,), "float64")
    values = snp.sym_array("values", (nl, n), "float64")
    xmin, xmax, ymin, ymax = [core.fresh_real(k) for k in ("xmin", "xmax", "ymin", "ymax")]
    core.assume(xmin < xmax)
    core.assume(ymin < ymax)
    return x, y, values, xmin, xmax, nx, ymin, ymax, ny


@unit("C05", "hist2d", targets=[PU + ":hist2d"], cases=[{"label": "sequential_semantics"}], replay=NP.replay_hist2d)
def kernel(case):
    pu = M(PU)
    args = kernel_inputs()
    x, y, values, xmin, xmax, nx, ymin, ymax, ny = args
    SPEC[0] = HistSpec(*args)
    # in-bounds: every integer index used on an array lies inside the axis (numba does not check); proved where the
    # access happens (the iteration's path is cut after the invariant check and never returns here)
    snp.BOUNDS_HOOK[0] = A.inbounds_prover()
    try:
        with LC.on():
            out, counts = pu.hist2d(*args)
    finally:
        snp.BOUNDS_HOOK[0] = None
    # postcondition at loop exit (i == len(x)): the statement's counts and sums
    n = x.shape[0]
    iy = core.fresh_int("iy", 0)
    ix = core.fresh_int("ix", 0)
    l = core.fresh_int("l", 0)
    core.assume(iy < ny)
    core.assume(ix < nx)
    core.assume(l < values.shape[0])
    prove("post.counts", counts.elem((iy, ix)) == SPEC[0].cnt(n, iy, ix))
    prove("post.sums", out.elem((l, iy, ix)) == SPEC[0].acc(n, l, iy, ix))
    prove("post.shapes", core.conj(counts.ndim == 2 and out.ndim == 3, counts.shape[0] == ny, counts.shape[1] == nx))


@unit("C05", "hist2d.prange", targets=[PU + ":hist2d"], cases=[{"label": "disjoint_writes"}], replay=NP.replay_hist2d_race)
def race(case):
    """two distinct iterations of the prange loop never write the same array cell"""
    pu = M(PU)
    args = kernel_inputs()
    SPEC[0] = HistSpec(*args)
    snp.BOUNDS_HOOK[0] = lambda k, n: None
    logs = []
    try:
        for rep in range(2):
            with LC.on(mode="race"):
                try:
                    pu.hist2d(*args)
                except loops.RaceIterationDone:
                    pass
                logs.append(LC.race_log[-1] if LC.race_log else None)
    finally:
        snp.BOUNDS_HOOK[0] = None
        snp.WRITE_HOOK[0] = None
    if logs[0] is None or logs[1] is None:
        raise core.Undecided("race analysis could not execute one iteration")
    (i1, w1, env1), (i2, w2, env2) = logs
    core.assume(i1 != i2)
    core.cover("two_iterations")
    # name the buffers by the local variable that holds them
    def label(buf, env):
        for name, v in env.items():
            if isinstance(v, snp.ndarray) and v.buf is buf:
                return name
        return "array"

    k = 0
    for (b1, inv1) in w1:
        for (b2, inv2) in w2:
            if label(b1, env1) != label(b2, env2):
                continue
            nd = len(b1.shape)
            cell = tuple(core.fresh_int("cell%d_%d" % (k, d), 0, register=True) for d in range(nd))
            for c, d in zip(cell, b1.shape):
                core.assume(c < d)
            ok1, _ = inv1(cell)
            ok2, _ = inv2(cell)
            prove("disjoint[%s]" % label(b1, env1), ~(SV.lift(ok1) & SV.lift(ok2)))
            k += 1
    if k == 0:
        prove("disjoint[no_writes]", True)


# --------------------------------------------------------------------------------------
# call-site contract of the kernel, used while histogram2d is verified
# --------------------------------------------------------------------------------------
KCALL = []


@summary("hist2d", PU + ":hist2d")
def _hist2d_summary(real):
    def hist2d(x, y, values, xmin, xmax, nx, ymin, ymax, ny):
        # numpy's contract for amin/amax, instantiated at an arbitrary row: amin <= a[j] <= amax
        jj = core.fresh_int("jmm", 0, register=False)
        core.assume(jj < x.shape[0])
        snp.minmax_elim(jj)

        def sc(v):  # numpy scalars (0-d results of amin/amax) behave as numbers
            return v.elem(()) if isinstance(v, snp.ndarray) and v.ndim == 0 else v

        xmin, xmax, ymin, ymax, nx, ny = [sc(v) for v in (xmin, xmax, ymin, ymax, nx, ny)]
        prove("pre.hist2d.range_nonempty", (SV.lift(xmin) < xmax) & (SV.lift(ymin) < ymax))
        prove("pre.hist2d.lengths", core.conj(SV.lift(x.shape[0]) == y.shape[0], SV.lift(values.shape[1]) == x.shape[0]))
        spec = HistSpec(x, y, values, xmin, xmax, nx, ymin, ymax, ny)
        n = x.shape[0]
        out = snp.ndarray.from_elem(lambda idx: spec.acc(n, idx[0], idx[1], idx[2]), (values.shape[0], ny, nx), "float64")
        counts = snp.ndarray.from_elem(lambda idx: spec.cnt(n, idx[0], idx[1]), (ny, nx), "int64")
        KCALL.append((spec, out, counts))
        return out, counts

    return hist2d


H2_CASES = [{"label": "%s,%s" % (lim, lay), "limits": lim, "layers": lay}
            for lim in ("auto", "explicit", "explicit_quantity")
            for lay in ("none", "sum", "mean", "sum+mean")]
# every subset of the four limits given explicitly, the others automatic (each limit is parsed and padded on its own)
H2_CASES += [{"label": "only:%s,sum" % "+".join(sub), "limits": "mixed", "given": sub, "layers": "sum"}
             for sub in (("xmin",), ("xmax",), ("ymin",), ("ymax",), ("xmin", "ymax"), ("xmax", "ymin"), ("xmin", "xmax"), ("ymin", "ymax"),
                         ("xmax", "ymin", "ymax"), ("xmin", "xmax", "ymin"))]


@summary("hist2d@histogram2d", H2 + ":hist2d")
def _hist2d_summary2(real):
    return _hist2d_summary(real)


@unit("C05", "histogram2d", targets=[H2 + ":histogram2d", H2 + ":_parse_limit", "osyris.core.tools:finmin",
                                     "osyris.core.tools:finmax", "osyris.core.tools:to_bin_centers"],
      uses=["hist2d@histogram2d", "_binary_op", "Array.to", "Array._wrap_numpy"], cases=H2_CASES, replay=NP.replay_histogram2d,
      inline=["parse_layer", "Layer.copy", "get_norm (matplotlib mock)", "Layer.__init__"], max_paths=400)
def histogram2d(case):
    osy = O()
    del KCALL[:]
    n = core.fresh_int("n", 1)
    ux, uy = spint.sym_unit("ux"), spint.sym_unit("uy")
    xa = osy.Array(values=snp.sym_array("x", (n,), "float64"), unit=ux, name="x")
    ya = osy.Array(values=snp.sym_array("y", (n,), "float64"), unit=uy, name="y")
    res = core.fresh_int("res", 1)
    kw = {}
    if case["limits"] == "mixed":
        lims = {k: core.fresh_real(k) for k in case["given"]}
        kw.update(lims)
        # precondition of a meaningful call: a given limit leaves room on its axis (max above every point, min below)
        jq = z3.Int("j_all")
        for k, v in lims.items():
            f = (xa if k[0] == "x" else ya)._array._sym_fn
            core.cur().add(z3.ForAll([jq], (f(jq) < v.t) if k.endswith("max") else (f(jq) > v.t)))
    elif case["limits"] != "auto":
        lims = {k: core.fresh_real(k) for k in ("xmin", "xmax", "ymin", "ymax")}
        core.assume(lims["xmin"] < lims["xmax"])
        core.assume(lims["ymin"] < lims["ymax"])
        if case["limits"] == "explicit_quantity":
            kw.update({k: spint.Quantity(v, ux if k[0] == "x" else uy) for k, v in lims.items()})
        else:
            kw.update(lims)
    layers = []
    lay = case["layers"]
    vals = {}
    if lay != "none":
        for op in lay.split("+"):
            a = osy.Array(values=snp.sym_array("w_" + op, (n,), "float64"), unit=spint.sym_unit("uw_" + op), name="w_" + op)
            vals[op] = a
            layers.append(osy.core.Layer(a, operation=op))
    sx, sy = A.snapshot(xa), A.snapshot(ya)
    try:
        plot = M(H2).histogram2d(xa, ya, *layers, resolution=res, plot=False, **kw)
    except AttributeError as e:
        prove("returns_normally", False)
        return
    prove("kernel_called_once", len(KCALL) == 1)
    if len(KCALL) != 1:
        return
    spec, out, counts = KCALL[0]
    # the kernel saw the raw values of x and y and one row per layer
    j = core.fresh_int("j", 0)
    core.assume(j < n)
    snp.minmax_elim(j)
    prove("kernel.x", spec.x.elem((j,)) == sx["elem"]((j,)))
    prove("kernel.y", spec.y.elem((j,)) == sy["elem"]((j,)))
    prove("kernel.resolution", core.conj(SV.lift(spec.nx) == res, SV.lift(spec.ny) == res))
    if case["limits"] == "mixed":
        # a given limit is used as given; an automatic one lies strictly beyond every (finite) point on its side
        for k in ("xmin", "xmax", "ymin", "ymax"):
            got = getattr(spec, k)
            pt = (sx if k[0] == "x" else sy)["elem"]((j,))
            if k in lims:
                prove("explicit." + k, got == lims[k])
            elif k.endswith("min"):
                prove("auto.covers." + k, SV.lift(got) < pt)
            else:
                prove("auto.covers." + k, pt < SV.lift(got))
        return
    if case["limits"] == "auto":
        # every finite point lies strictly inside the automatic range: counts add up to all points
        prove("auto.covers.x", (spec.xmin < sx["elem"]((j,))) & (sx["elem"]((j,)) < spec.xmax))
        prove("auto.covers.y", (spec.ymin < sy["elem"]((j,))) & (sy["elem"]((j,)) < spec.ymax))
    else:
        prove("explicit.xmin", spec.xmin == lims["xmin"])
        prove("explicit.xmax", spec.xmax == lims["xmax"])
        prove("explicit.ymin", spec.ymin == lims["ymin"])
        prove("explicit.ymax", spec.ymax == lims["ymax"])
    # returned coordinates: centres of the regular grid spanning the range
    i = core.fresh_int("i", 0)
    core.assume(i < res)
    dx = (spec.xmax - spec.xmin) / res
    prove("centres.x", plot.x.elem((i,)) * 2 == 2 * spec.xmin + (2 * i + 1) * dx)
    dy = (spec.ymax - spec.ymin) / res
    prove("centres.y", plot.y.elem((i,)) * 2 == 2 * spec.ymin + (2 * i + 1) * dy)
    # layers
    iy = core.fresh_int("iy", 0)
    ix = core.fresh_int("ix", 0)
    core.assume(iy < res)
    core.assume(ix < res)
    c = spec.cnt(n, iy, ix)
    ops = ["count"] if lay == "none" else lay.split("+")
    prove("layers.number", len(plot.layers) == len(ops))
    for k, op in enumerate(ops):
        L = plot.layers[k]
        data = L["data"]
        prove("layer%d.masked_iff_empty" % k, SV(core.bterm(data.mask.elem((iy, ix))) == core.bterm(c == 0), "b"))
        got = data.data.elem((iy, ix))
        a = spec.acc(n, k, iy, ix)
        if op == "count":
            # default layer: one per point -> the sum of ones is the count
            prove("layer%d.kernel_values_are_ones" % k, spec.values.elem((k, j)) == 1)
        elif op == "sum":
            prove("layer%d.kernel_values" % k, spec.values.elem((k, j)) == vals[op]._array.elem((j,)))
            prove("layer%d.sum" % k, got == a)
            prove("layer%d.unit" % k, L["unit"] == vals[op].unit)
        else:
            prove("layer%d.kernel_values" % k, spec.values.elem((k, j)) == vals[op]._array.elem((j,)))
            core.assume(c != 0)
            prove("layer%d.mean" % k, got * c == a)
    A.unchanged("x", sx)
    A.unchanged("y", sy)


@unit("C05", "lemma.count_layer", targets=[], cases=[{"label": "sum_of_ones_is_count"}], replay=None)
def count_lemma(case):
    """acc over a layer of ones equals cnt (induction step + base), so the default layer is the count"""
    args = kernel_inputs()
    x, y, values, xmin, xmax, nx, ymin, ymax, ny = args
    spec = HistSpec(*args)
    k = core.fresh_int("k", 0)
    iy, ix = core.fresh_int("iy", 0), core.fresh_int("ix", 0)
    jj = z3.Int("jall")
    core.cur().add(z3.ForAll([jj], values._sym_fn(z3.IntVal(0), jj) == 1))
    prove("base", spec.acc(0, 0, iy, ix) == spec.cnt(0, iy, ix))
    core.assume(spec.acc(k, 0, iy, ix) == spec.cnt(k, iy, ix))
    prove("step", spec.acc(k + 1, 0, iy, ix) == spec.cnt(k + 1, iy, ix))


@bounded("C05", "native", "kernel vs floor-bin oracle: random point clouds incl. all-in-one-bin, values just outside either "
                          "limit, NaN/inf, n in {0..2e5}; thread counts {1, 4, 16}; histogram2d auto/explicit/log limits")
def native(tier, seed):
    from pyvc import nativerun

    return nativerun.run("contracts.native_plot:sweep_c05", tier, seed, timeout=3000)


from . import foundation  # noqa: E402

foundation.register("C05")
